fn main() { println!("h-ser harness package: run a property binary (cNN) instead"); }
