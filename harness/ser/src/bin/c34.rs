//! C34: npy / npz / safetensors round trips and malformed-file handling on the real crate.
//!
//! Requests (byte strings are lower-case hex, `-` = empty; dims are `d0,d1,..`, `-` = rank 0):
//!   hdr <dt> <dims>            build_header::<dt>(dims)            -> `ok <hex>` | `err:<class>`
//!   write <dt> <dims> <hex>    npy::write of a (possibly non-contiguous) view whose logical
//!                              row-major elements are <hex> (LE)   -> `ok <hex file>` | `err:..`
//!   parse <hex>                parse_header(dict text)             -> `ok be= kind= size= fortran= shape=` | `err:..`
//!   rhdr <hex>                 read_header(file) + bytes left      -> `ok ... data=<n>` | `err:..`
//!   read <hex>                 npy::read(file)                     -> `ok <dt> shape= vals=<hex>` | `err:..` | `panic ..` | `alloc`
//!   fortran <dims> <n>         fortran_order_to_row_major(0..n)    -> permuted index list
//!   npzname <hex> / npzkey <hex>   npz_file_name / key mapping of npz::read
//!   utf8 <hex>                 std::str::from_utf8(..).is_ok()
//!   stenc <dt> <dims> <strides> <hex storage>   safetensors to_le_bytes of a strided view -> `contig=<0|1> data=<hex>`
//!   stdec <dt> <hex>           safetensors from_le_bytes (via read of a hand-built file)  -> `vals=<hex>`
//!   stdtype <NAME>             data_type_from_safetensors         -> `ok <dt>` | `err:unsupported` | `err:other`
//!   tfd <dims> <n>             Tensor::<u8>::try_from_data(dims, n bytes).is_ok()
//!   # ...                      container round trips / mutations (oracle only, not compared)
//!
//! Property oracles evaluated on the implementation's own output (-> PROPFAIL):
//!   * read(write(t)) == t (dtype, shape, bits), for npy, npz and safetensors;
//!   * a reader never panics and never requests a single allocation > 256 MiB for the
//!     (small) inputs generated here;
//!   * a tensor returned by a reader has a layout whose strides did not wrap.
use hcommon::{Args, Out, Rng};
use rten_serialize::verif::npy as hook;
use rten_serialize::verif::npz_file_name;
use rten_serialize::{npy, npz, safetensors, DataType, Value, View};
use rten_tensor::prelude::*;
use rten_tensor::{SliceItem, SliceRange, Tensor, TensorView};
use std::alloc::{GlobalAlloc, Layout as AllocLayout, System};
use std::io::{self, Cursor};
use std::sync::atomic::{AtomicUsize, Ordering};

// ---------------------------------------------------------------- allocation guard
static MAX_REQ: AtomicUsize = AtomicUsize::new(0);
struct Counting;
unsafe impl GlobalAlloc for Counting {
    unsafe fn alloc(&self, l: AllocLayout) -> *mut u8 {
        MAX_REQ.fetch_max(l.size(), Ordering::Relaxed);
        System.alloc(l)
    }
    unsafe fn alloc_zeroed(&self, l: AllocLayout) -> *mut u8 {
        MAX_REQ.fetch_max(l.size(), Ordering::Relaxed);
        System.alloc_zeroed(l)
    }
    unsafe fn dealloc(&self, p: *mut u8, l: AllocLayout) {
        System.dealloc(p, l)
    }
    unsafe fn realloc(&self, p: *mut u8, l: AllocLayout, n: usize) -> *mut u8 {
        MAX_REQ.fetch_max(n, Ordering::Relaxed);
        System.realloc(p, l, n)
    }
}
#[global_allocator]
static GLOBAL: Counting = Counting;
const ALLOC_LIMIT: usize = 256 << 20;

/// Run `f` with panic capture; report whether it requested an allocation above the limit.
fn guarded<T>(f: impl FnOnce() -> T) -> (Result<T, String>, bool) {
    MAX_REQ.store(0, Ordering::Relaxed);
    let r = hcommon::catch(f);
    let big = MAX_REQ.load(Ordering::Relaxed) > ALLOC_LIMIT;
    (r, big)
}

// ---------------------------------------------------------------- helpers
fn hex(b: &[u8]) -> String {
    if b.is_empty() {
        return "-".into();
    }
    let mut s = String::with_capacity(b.len() * 2);
    for x in b {
        s.push_str(&format!("{x:02x}"));
    }
    s
}
fn dims(s: &[usize]) -> String {
    if s.is_empty() {
        "-".into()
    } else {
        hcommon::join(s.iter(), ",")
    }
}

const DTS: [DataType; 11] = [
    DataType::Bool,
    DataType::Int8,
    DataType::Int16,
    DataType::Int32,
    DataType::Int64,
    DataType::UInt8,
    DataType::UInt16,
    DataType::UInt32,
    DataType::UInt64,
    DataType::Float32,
    DataType::Float64,
];
fn dt_name(d: DataType) -> &'static str {
    match d {
        DataType::Bool => "bool",
        DataType::Int8 => "i8",
        DataType::Int16 => "i16",
        DataType::Int32 => "i32",
        DataType::Int64 => "i64",
        DataType::UInt8 => "u8",
        DataType::UInt16 => "u16",
        DataType::UInt32 => "u32",
        DataType::UInt64 => "u64",
        DataType::Float32 => "f32",
        DataType::Float64 => "f64",
        _ => "other",
    }
}
fn dt_size(d: DataType) -> usize {
    match d {
        DataType::Bool | DataType::Int8 | DataType::UInt8 => 1,
        DataType::Int16 | DataType::UInt16 => 2,
        DataType::Int32 | DataType::UInt32 | DataType::Float32 => 4,
        _ => 8,
    }
}

trait Elt: Copy + 'static {
    fn from_bits(b: u64) -> Self;
    fn le(self) -> Vec<u8>;
}
macro_rules! elt_int {
    ($($t:ty),*) => {$(impl Elt for $t {
        fn from_bits(b: u64) -> Self { b as $t }
        fn le(self) -> Vec<u8> { self.to_le_bytes().to_vec() }
    })*};
}
elt_int!(i8, i16, i32, i64, u8, u16, u32, u64);
impl Elt for bool {
    fn from_bits(b: u64) -> Self {
        b & 1 == 1
    }
    fn le(self) -> Vec<u8> {
        vec![self as u8]
    }
}
impl Elt for f32 {
    fn from_bits(b: u64) -> Self {
        f32::from_bits(b as u32)
    }
    fn le(self) -> Vec<u8> {
        self.to_bits().to_le_bytes().to_vec()
    }
}
impl Elt for f64 {
    fn from_bits(b: u64) -> Self {
        f64::from_bits(b)
    }
    fn le(self) -> Vec<u8> {
        self.to_bits().to_le_bytes().to_vec()
    }
}

macro_rules! dispatch {
    ($dt:expr, $T:ident => $body:expr) => {
        match $dt {
            DataType::Bool => { type $T = bool; $body }
            DataType::Int8 => { type $T = i8; $body }
            DataType::Int16 => { type $T = i16; $body }
            DataType::Int32 => { type $T = i32; $body }
            DataType::Int64 => { type $T = i64; $body }
            DataType::UInt8 => { type $T = u8; $body }
            DataType::UInt16 => { type $T = u16; $body }
            DataType::UInt32 => { type $T = u32; $body }
            DataType::UInt64 => { type $T = u64; $body }
            DataType::Float32 => { type $T = f32; $body }
            DataType::Float64 => { type $T = f64; $body }
            _ => unreachable!(),
        }
    };
}

/// All multi-indices of `shape` in row-major order (explicit counter, independent of rten's iterators).
fn for_each_index(shape: &[usize], mut f: impl FnMut(&[usize])) {
    if shape.iter().any(|&d| d == 0) {
        return;
    }
    let mut idx = vec![0usize; shape.len()];
    loop {
        f(&idx);
        let mut d = shape.len();
        loop {
            if d == 0 {
                return;
            }
            d -= 1;
            idx[d] += 1;
            if idx[d] < shape[d] {
                break;
            }
            idx[d] = 0;
        }
    }
}

/// Logical row-major LE bytes of a view, read element by element through `get`.
fn logical_bytes<T: Elt>(v: &TensorView<T>) -> Vec<u8> {
    let shape = v.shape().to_vec();
    let mut out = Vec::new();
    for_each_index(&shape, |i| out.extend(v.get(i).expect("valid index").le()));
    out
}

/// Canonical `(dtype, shape, LE bytes)` of a value, plus a layout sanity verdict.
fn value_canon(v: &Value) -> (DataType, Vec<usize>, Vec<u8>, Option<String>) {
    macro_rules! arm {
        ($t:expr) => {{
            let t = $t;
            let shape = t.shape().to_vec();
            let strides = t.strides().to_vec();
            // true contiguous strides in u128
            let mut bad = None;
            let mut p: u128 = 1;
            for d in (0..shape.len()).rev() {
                if shape[d] > 1 || true {
                    if p > usize::MAX as u128 {
                        bad = Some(format!("stride of dim {d} does not fit usize (shape {:?}, strides {:?})", shape, strides));
                    }
                }
                p *= shape[d].max(1) as u128;
            }
            if p > usize::MAX as u128 {
                bad = Some(format!("product of non-zero dims overflows usize (shape {:?}, strides {:?})", shape, strides));
            }
            let n: u128 = shape.iter().map(|&d| d as u128).product();
            if bad.is_none() && n != t.len() as u128 {
                bad = Some(format!("len {} != product of shape {:?}", t.len(), shape));
            }
            let bytes = if n <= 1 << 20 { logical_bytes(&t.view()) } else { vec![] };
            (shape, bytes, bad)
        }};
    }
    let dt = v.dtype();
    let (s, b, bad) = match v {
        Value::Bool(t) => arm!(t),
        Value::Int8(t) => arm!(t),
        Value::Int16(t) => arm!(t),
        Value::Int32(t) => arm!(t),
        Value::Int64(t) => arm!(t),
        Value::UInt8(t) => arm!(t),
        Value::UInt16(t) => arm!(t),
        Value::UInt32(t) => arm!(t),
        Value::UInt64(t) => arm!(t),
        Value::Float32(t) => arm!(t),
        Value::Float64(t) => arm!(t),
        _ => (vec![], vec![], Some("unknown Value variant".to_string())),
    };
    (dt, s, b, bad)
}

fn err_class(e: &io::Error) -> String {
    let m = e.to_string();
    let c = if e.kind() == io::ErrorKind::UnexpectedEof {
        "eof".to_string()
    } else if let Some(rest) = m.strip_prefix("expected `") {
        if rest.starts_with("True") {
            "bool".into()
        } else {
            let ch = rest.chars().next().unwrap_or('?');
            format!("expect-{}", ch as u32)
        }
    } else if m.starts_with("unterminated string") {
        "unterminated".into()
    } else if m.starts_with("expected integer") {
        "no-int".into()
    } else if m.starts_with("integer in npy header is out of range") {
        "int-range".into()
    } else if m.starts_with("unexpected npy header key") {
        "key".into()
    } else if m.starts_with("invalid npy dtype") {
        "descr".into()
    } else if m.starts_with("npy header is missing `descr`") {
        "missing-descr".into()
    } else if m.starts_with("npy header is missing `fortran_order`") {
        "missing-fortran".into()
    } else if m.starts_with("npy header is missing `shape`") {
        "missing-shape".into()
    } else if m.starts_with("not an npy file") {
        "magic".into()
    } else if m.starts_with("unsupported npy version") {
        "version".into()
    } else if m.starts_with("npy header is not valid UTF-8") {
        "utf8".into()
    } else if m.starts_with("npy header string is not valid UTF-8") {
        "utf8-inner".into()
    } else if m.starts_with("unsupported npy dtype") {
        "unsupported".into()
    } else if m.starts_with("array element count overflows") {
        "count-overflow".into()
    } else if m.starts_with("array size in bytes overflows") {
        "bytes-overflow".into()
    } else if m.starts_with("array is too large") {
        "too-large".into()
    } else if m.starts_with("array data is truncated") {
        "truncated".into()
    } else if m.starts_with("npy header is too large to encode") {
        "header-too-large".into()
    } else {
        format!("other({:?}:{})", e.kind(), m.replace(' ', "_"))
    };
    format!("err:{c}")
}

fn show_header(h: &hook::ParsedHeader) -> String {
    format!(
        "ok be={} kind={} size={} fortran={} shape={}",
        h.0 as u8,
        h.1 as u32,
        h.2,
        h.3 as u8,
        dims(&h.4)
    )
}

// ---------------------------------------------------------------- generators
fn rand_dim(rng: &mut Rng) -> usize {
    match rng.below(20) {
        0 => 0,
        1 | 2 => 1,
        3..=13 => 2 + rng.usize_below(5),
        14 => 9 + rng.usize_below(3),   // 9,10,11
        15 => 99 + rng.usize_below(3),
        _ => 2 + rng.usize_below(3),
    }
}
/// Shape with a bounded element count (≤ `max_elems`).
fn rand_shape(rng: &mut Rng, max_elems: usize) -> Vec<usize> {
    let rank = match rng.below(12) {
        0 => 0,
        1 => 1,
        _ => rng.usize_below(6),
    };
    let mut s: Vec<usize> = (0..rank).map(|_| rand_dim(rng)).collect();
    while s.iter().map(|&d| d.max(1)).product::<usize>() > max_elems {
        let i = rng.usize_below(s.len());
        s[i] = (s[i] / 2).max(1);
    }
    s
}
fn huge_dim(rng: &mut Rng) -> usize {
    match rng.below(12) {
        0 => usize::MAX,
        1 => usize::MAX - 1,
        2 => 1 << 63,
        3 => 1 << 32,
        4 => (1 << 32) - 1,
        5 => u32::MAX as usize + 1 + rng.usize_below(10),
        6 => 10usize.pow(rng.below(20) as u32),
        7 => 10usize.pow(rng.below(20) as u32).wrapping_sub(1),
        8 => 10usize.pow(rng.below(19) as u32) + 1,
        9 => rng.next_u64() as usize,
        10 => (rng.next_u64() >> rng.below(64)) as usize,
        _ => 1 << rng.below(64),
    }
}
fn rand_bits(rng: &mut Rng) -> u64 {
    match rng.below(8) {
        0 => 0,
        1 => u64::MAX,
        2 => 0x7fc0_0001_7ff8_0000, // NaN-ish patterns for f32 (low word) / f64
        3 => 0x7ff8_0000_0000_0001,
        4 => rng.below(256),
        5 => 0x8000_0000_8000_0000,
        _ => rng.next_u64(),
    }
}

/// A tensor of `T` plus a chain of view operations; calls `f` with the final view.
fn with_view<T: Elt, R>(rng: &mut Rng, max_elems: usize, f: impl FnOnce(TensorView<T>, &str) -> R) -> R {
    let shape = rand_shape(rng, max_elems);
    let n: usize = shape.iter().product();
    let data: Vec<T> = (0..n).map(|_| T::from_bits(rand_bits(rng))).collect();
    let t = Tensor::<T>::from_data(&shape, data);
    let rank = shape.len();
    let mut kind = String::from("contig");
    let mut v: TensorView<T> = t.view();
    // permute
    if rank >= 2 && rng.chance(1, 2) {
        let mut perm: Vec<usize> = (0..rank).collect();
        rng.shuffle(&mut perm);
        v = v.permuted(&perm);
        kind = "permuted".into();
    }
    // strided / offset / reversed slice
    if rank >= 1 && rng.chance(1, 2) {
        let items: Vec<SliceItem> = (0..rank)
            .map(|d| {
                let sz = v.size(d) as isize;
                if sz >= 2 && rng.chance(1, 2) {
                    let step = *rng.pick(&[1isize, 2, 3, -1, -2]);
                    if step > 0 {
                        let start = rng.range_i64(0, (sz - 1) as i64) as isize;
                        SliceItem::Range(SliceRange::new(start, None, step))
                    } else {
                        SliceItem::Range(SliceRange::new(-1, None, step))
                    }
                } else {
                    SliceItem::Range(SliceRange::new(0, None, 1))
                }
            })
            .collect();
        if let Ok(s) = v.try_slice_dyn(&items[..]) {
            v = s;
            kind += "+sliced";
        }
    }
    // broadcast: add leading dims / expand size-1 dims (stride 0)
    if rng.chance(1, 4) {
        let mut target: Vec<usize> = v.shape().to_vec();
        for d in target.iter_mut() {
            if *d == 1 && rng.chance(1, 2) {
                *d = 1 + rng.usize_below(3);
            }
        }
        if target.len() < 5 && rng.chance(1, 2) {
            target.insert(0, 1 + rng.usize_below(3));
        }
        if target.iter().product::<usize>() <= max_elems {
            if let Ok(b) = v.try_broadcast(target.as_slice()) {
                return f(b, &(kind + "+broadcast"));
            }
        }
    }
    f(v, &kind)
}

// ---------------------------------------------------------------- cases
fn case_hdr(out: &mut Out, dt: DataType, shape: &[usize], bucket: &str) {
    let req = format!("hdr {} {}", dt_name(dt), dims(shape));
    let (r, _) = guarded(|| hook::build_header(dt, shape));
    let ans = match r {
        Ok(Ok(b)) => format!("ok {}", hex(&b)),
        Ok(Err(e)) => err_class(&e),
        Err(m) => format!("panic {m}"),
    };
    let mut fail = None;
    if let Some(h) = ans.strip_prefix("ok ") {
        // independent checks: total length multiple of 64, ends with newline, parses back
        if (h.len() / 2) % 64 != 0 {
            fail = Some("header length is not a multiple of 64".to_string());
        }
    } else if ans.starts_with("panic") {
        fail = Some("build_header panicked".to_string());
    }
    out.bucket(&format!("hdr:{bucket}"));
    out.case(&req, &ans, fail.as_deref(), shape.len() >= 2);
}

/// write + independent round-trip oracle.
fn case_write<T: Elt>(out: &mut Out, rng: &mut Rng, dt: DataType)
where
    for<'a> TensorView<'a, T>: Into<View<'a>>,
    T: rten_serialize::Element + PartialEq,
{
    with_view::<T, _>(rng, 64, |v, kind| {
        let shape = v.shape().to_vec();
        let expect_bytes = logical_bytes(&v);
        let req = format!("write {} {} {}", dt_name(dt), dims(&shape), hex(&expect_bytes));
        let mut buf = Vec::new();
        let (r, big) = guarded(|| npy::write(&mut buf, v.clone()));
        let mut fail: Option<String> = None;
        let ans = match r {
            Ok(Ok(())) => format!("ok {}", hex(&buf)),
            Ok(Err(e)) => {
                fail = Some(format!("write of a valid tensor failed: {e}"));
                err_class(&e)
            }
            Err(m) => {
                fail = Some("write panicked".into());
                format!("panic {m}")
            }
        };
        if big {
            fail = Some("write requested an allocation > 256 MiB".into());
        }
        if fail.is_none() {
            // header prefix == build_header; round trip through read
            match hook::build_header(dt, &shape) {
                Ok(h) if buf.starts_with(&h) && buf.len() == h.len() + expect_bytes.len() => {}
                _ => fail = Some("file does not start with build_header output / wrong length".into()),
            }
            let (rr, big) = guarded(|| npy::read(&buf[..]));
            match rr {
                Ok(Ok(val)) => {
                    let (rdt, rshape, rbytes, bad) = value_canon(&val);
                    if rdt != dt || rshape != shape || rbytes != expect_bytes {
                        fail = Some(format!(
                            "round trip differs: read back {} {:?} {}",
                            dt_name(rdt),
                            rshape,
                            hex(&rbytes)
                        ));
                    } else if let Some(b) = bad {
                        fail = Some(b);
                    } else if val.as_type::<T>().is_err() {
                        fail = Some("as_type of the written element type failed".into());
                    }
                }
                Ok(Err(e)) => fail = Some(format!("read of written file failed: {e}")),
                Err(m) => fail = Some(format!("read of written file panicked: {m}")),
            }
            if big {
                fail = Some("read requested an allocation > 256 MiB".into());
            }
        }
        out.bucket(&format!("write:{}", dt_name(dt)));
        out.bucket(&format!("view:{kind}"));
        out.bucket(&format!("rank{}", shape.len()));
        if shape.iter().any(|&d| d == 0) {
            out.bucket("shape:empty");
        }
        let nontrivial = shape.len() >= 2 && expect_bytes.len() > dt_size(dt) && kind != "contig";
        out.case(&req, &ans, fail.as_deref(), nontrivial);
    })
}

/// The writer's documented limit: a rank so large that the dictionary does not fit a u16 length.
fn case_write_rank(out: &mut Out, rank: usize) {
    let shape = vec![1usize; rank];
    let t = Tensor::<i8>::from_data(&shape, vec![7i8]);
    let req = format!("write i8 {} 07", dims(&shape));
    let mut buf = Vec::new();
    let (r, _) = guarded(|| npy::write(&mut buf, t.view()));
    let mut fail = None;
    let ans = match r {
        Ok(Ok(())) => {
            match npy::read(&buf[..]) {
                Ok(v) => {
                    let (dt, s, b, _) = value_canon(&v);
                    if dt != DataType::Int8 || s != shape || b != [7u8] {
                        fail = Some("round trip differs".to_string());
                    }
                }
                Err(e) => fail = Some(format!("read of written file failed: {e}")),
            }
            format!("ok {}", hex(&buf))
        }
        Ok(Err(e)) => {
            fail = Some(format!("write of a valid rank-{rank} tensor failed: {e}"));
            err_class(&e)
        }
        Err(m) => {
            fail = Some("write panicked".into());
            format!("panic {m}")
        }
    };
    out.bucket("write:rank-boundary");
    out.case(&req, &ans, fail.as_deref(), true);
}

fn case_read(out: &mut Out, file: &[u8], bucket: &str, must_err: bool) {
    let req = format!("read {}", hex(file));
    let (r, big) = guarded(|| npy::read(file));
    let mut fail: Option<String> = None;
    let mut ans = match r {
        Ok(Ok(v)) => {
            let (dt, shape, bytes, bad) = value_canon(&v);
            if let Some(b) = bad {
                fail = Some(format!("reader returned a tensor with an invalid layout: {b}"));
            }
            if must_err {
                fail = Some("malformed file accepted".into());
            }
            format!("ok {} shape={} vals={}", dt_name(dt), dims(&shape), hex(&bytes))
        }
        Ok(Err(e)) => {
            let c = err_class(&e);
            if c.starts_with("err:other") || c == "err:utf8-inner" {
                fail = Some(format!("unclassified error {e}"));
            }
            c
        }
        Err(m) => {
            fail = Some(format!("reader panicked: {m}"));
            format!("panic {m}")
        }
    };
    if big {
        fail = Some(format!(
            "reader requested a single allocation of {} bytes for a {}-byte file",
            MAX_REQ.load(Ordering::Relaxed),
            file.len()
        ));
        ans = "alloc".into();
    }
    out.bucket(&format!("read:{bucket}"));
    out.bucket(if ans.starts_with("ok") { "read-verdict:ok" } else if ans.starts_with("err") { "read-verdict:err" } else { "read-verdict:other" });
    out.case(&req, &ans, fail.as_deref(), ans.starts_with("ok") || bucket != "random-bytes");
}

fn case_rhdr(out: &mut Out, file: &[u8]) {
    let req = format!("rhdr {}", hex(file));
    let mut rd: &[u8] = file;
    let (r, big) = guarded(|| hook::read_header(&mut rd));
    let mut fail = None;
    let mut ans = match r {
        Ok(Ok(h)) => format!("{} data={}", show_header(&h), rd.len()),
        Ok(Err(e)) => err_class(&e),
        Err(m) => {
            fail = Some(format!("read_header panicked: {m}"));
            format!("panic {m}")
        }
    };
    if big {
        fail = Some(format!(
            "read_header requested a single allocation of {} bytes for a {}-byte file",
            MAX_REQ.load(Ordering::Relaxed),
            file.len()
        ));
        ans = "alloc".into();
    }
    out.bucket("rhdr");
    out.case(&req, &ans, fail.as_deref(), ans.starts_with("ok"));
}

fn case_parse(out: &mut Out, text: &str, bucket: &str) {
    let req = format!("parse {}", hex(text.as_bytes()));
    let (r, _) = guarded(|| hook::parse_header(text));
    let mut fail = None;
    let ans = match r {
        Ok(Ok(h)) => show_header(&h),
        Ok(Err(e)) => {
            let c = err_class(&e);
            if c.starts_with("err:other") || c == "err:utf8-inner" {
                fail = Some(format!("unclassified error {e}"));
            }
            c
        }
        Err(m) => {
            fail = Some(format!("parse_header panicked: {m}"));
            format!("panic {m}")
        }
    };
    out.bucket(&format!("parse:{bucket}"));
    out.bucket(if ans.starts_with("ok") { "parse-verdict:ok" } else { "parse-verdict:err" });
    out.case(&req, &ans, fail.as_deref(), true);
}

// ---- adversarial dictionary texts
const WS: [&str; 9] = ["", "", " ", "  ", "\t", "\n", "\x0c", "\r", " \n\t"];
fn ws(rng: &mut Rng) -> String {
    match rng.below(60) {
        0 => "\x0b".into(),        // vertical tab: NOT ascii whitespace for Rust
        1 => "\u{a0}".into(),      // nbsp (2 bytes of UTF-8)
        2 => "\u{2003}".into(),    // em space (3 bytes)
        _ => rng.pick(&WS).to_string(),
    }
}
const DESCRS: [&str; 40] = [
    "|b1", "|i1", "<i2", "<i4", "<i8", "|u1", "<u2", "<u4", "<u8", "<f4", "<f8", ">i4", ">f8", ">u2", ">b1", "=i4",
    "=f4", "|i4", "<b1", ">u1", "<i+4", "<i04", "<i004", "<f2", "<f16", "<c8", "<i", "<", "", "i4", "<i4 ", "<i-4",
    "<i99999999999999999999999", "<i18446744073709551616", "<i18446744073709551615", "<\u{e9}4", "\u{e9}i4", "<i+",
    "<i4\u{e9}", "<U3",
];
fn gen_int(rng: &mut Rng) -> String {
    match rng.below(24) {
        0 => "".into(),
        1 => "-1".into(),
        2 => "+1".into(),
        3 => "1.5".into(),
        4 => "0x10".into(),
        5 => format!("{:03}", rng.below(50)),
        6 => "18446744073709551615".into(),
        7 => "18446744073709551616".into(),
        8 => "99999999999999999999999999".into(),
        9 => "00000000000000000000000000000000000002".into(),
        10 | 11 => huge_dim(rng).to_string(),
        12 => "0".into(),
        13 => "1L".into(),
        _ => rng.below(6).to_string(),
    }
}
fn gen_shape(rng: &mut Rng) -> String {
    match rng.below(16) {
        0 => return "()".into(),
        1 => return "(,)".into(),
        2 => return "(".into(),
        3 => return "[1, 2]".into(),
        4 => return "3".into(),
        _ => {}
    }
    let n = rng.usize_below(5);
    let mut s = String::from("(");
    s += &ws(rng);
    for i in 0..n {
        s += &gen_int(rng);
        s += &ws(rng);
        let last = i + 1 == n;
        match rng.below(12) {
            0 => {}                              // missing comma
            1 => s += ",,",
            _ if last && rng.chance(1, 2) => {}
            _ => s += ",",
        }
        s += &ws(rng);
    }
    if !rng.chance(1, 25) {
        s += ")";
    }
    s
}
/// Returns (text, Some((dtype size, n_elems)) when the generator believes the header is well-formed).
fn gen_dict(rng: &mut Rng) -> String {
    let mut s = ws(rng);
    if !rng.chance(1, 40) {
        s += "{";
    }
    let mut keys: Vec<&str> = vec!["descr", "fortran_order", "shape"];
    rng.shuffle(&mut keys);
    if rng.chance(1, 8) {
        keys.remove(rng.usize_below(keys.len()));
    }
    if rng.chance(1, 10) {
        let k = *rng.pick(&["descr", "fortran_order", "shape", "extra", "", "Descr", "shape ", "d\u{e9}scr"]);
        keys.insert(rng.usize_below(keys.len() + 1), k);
    }
    for k in keys {
        s += &ws(rng);
        let q = if rng.chance(1, 40) { "\"" } else { "'" };
        s += q;
        s += k;
        if !rng.chance(1, 60) {
            s += q;
        }
        s += &ws(rng);
        if !rng.chance(1, 40) {
            s += ":";
        }
        s += &ws(rng);
        match k {
            "descr" => {
                let d = if rng.chance(2, 3) { DESCRS[rng.usize_below(11)] } else { *rng.pick(&DESCRS) };
                if rng.chance(1, 40) {
                    s += d;
                } else {
                    s += &format!("'{d}'");
                }
            }
            "fortran_order" => {
                s += match rng.below(14) {
                    0 => "true",
                    1 => "Maybe",
                    2 => "TrueFalse",
                    3 => "'True'",
                    4 => "Tru",
                    5 => "",
                    6..=8 => "True",
                    _ => "False",
                }
            }
            "shape" | "shape " => s += &gen_shape(rng),
            _ => s += *rng.pick(&["1", "'x'", "()", "None"]),
        }
        s += &ws(rng);
        if !rng.chance(1, 10) {
            s += ",";
        }
    }
    s += &ws(rng);
    if !rng.chance(1, 30) {
        s += "}";
    }
    match rng.below(10) {
        0 => s += " trailing garbage {",
        1..=5 => {
            s += &" ".repeat(rng.usize_below(20));
            s += "\n";
        }
        _ => {}
    }
    s
}
/// ASCII-level mutation (keeps the text valid UTF-8 when it was ASCII).
fn mutate_ascii(rng: &mut Rng, s: &str) -> String {
    let mut b: Vec<u8> = s.as_bytes().to_vec();
    if b.is_empty() || !s.is_ascii() {
        return s.to_string();
    }
    for _ in 0..1 + rng.usize_below(3) {
        let i = rng.usize_below(b.len());
        match rng.below(4) {
            0 => {
                b.remove(i);
                if b.is_empty() {
                    break;
                }
            }
            1 => b.insert(i, *rng.pick(b"'(),:{} 019TF\n")),
            2 => b[i] = *rng.pick(b"'(),:{} 019TF\n<|"),
            _ => b.truncate(i),
        }
        if b.is_empty() {
            break;
        }
    }
    String::from_utf8(b).unwrap()
}
fn npy_file(version: (u8, u8), len_override: Option<u32>, dict: &[u8], data: &[u8]) -> Vec<u8> {
    let mut f = b"\x93NUMPY".to_vec();
    f.push(version.0);
    f.push(version.1);
    let len = len_override.unwrap_or(dict.len() as u32);
    if version.0 == 1 {
        f.extend_from_slice(&(len as u16).to_le_bytes());
    } else {
        f.extend_from_slice(&len.to_le_bytes());
    }
    f.extend_from_slice(dict);
    f.extend_from_slice(data);
    f
}
fn good_dict(descr: &str, fortran: bool, shape: &[usize]) -> String {
    let mut d = hcommon::join(shape.iter(), ", ");
    if shape.len() == 1 {
        d.push(',');
    }
    format!(
        "{{'descr': '{descr}', 'fortran_order': {}, 'shape': ({d}), }}",
        if fortran { "True" } else { "False" }
    )
}
fn rand_bytes(rng: &mut Rng, n: usize) -> Vec<u8> {
    (0..n).map(|_| rng.below(256) as u8).collect()
}

// ---------------------------------------------------------------- containers (oracle only)
fn container_round_trip(out: &mut Out, rng: &mut Rng) {
    // names: with/without .npy suffix, nested, unicode
    let pool = ["a", "b.npy", "nested/c", "d.npy.npy", "\u{e9}t\u{e9}", "w x", "e.txt", "f.NPY", "g.npy.txt", "0"];
    let n = 1 + rng.usize_below(4);
    let mut names: Vec<String> = Vec::new();
    while names.len() < n {
        let c = rng.pick(&pool).to_string();
        let base = c.strip_suffix(".npy").unwrap_or(&c).to_string();
        if !names.iter().any(|x: &String| x.strip_suffix(".npy").unwrap_or(x) == base) {
            names.push(c);
        }
    }
    // tensors of mixed dtypes; kept as (dtype, shape, logical bytes)
    let mut specs: Vec<(DataType, Vec<usize>, Vec<u8>)> = Vec::new();
    let mut tensors: Vec<Value> = Vec::new();
    for _ in 0..n {
        let dt = *rng.pick(&DTS);
        let shape = rand_shape(rng, 32);
        let cnt: usize = shape.iter().product();
        let val: Value = dispatch!(dt, T => {
            let data: Vec<T> = (0..cnt).map(|_| <T as Elt>::from_bits(rand_bits(rng))).collect();
            Value::from(Tensor::<T>::from_data(&shape, data))
        });
        let (_, s, b, _) = value_canon(&val);
        specs.push((dt, s, b));
        tensors.push(val);
    }
    let desc = hcommon::join(
        names.iter().zip(&specs).map(|(n, s)| format!("{}:{}:{}", hex(n.as_bytes()), dt_name(s.0), dims(&s.1))),
        " ",
    );
    // ---- npz
    {
        let req = format!("# npz-roundtrip {desc}");
        let mut cur = Cursor::new(Vec::new());
        let (r, big) = guarded(|| {
            npz::write(&mut cur, names.iter().zip(&tensors).map(|(n, t)| (n.as_str(), t.view())))?;
            cur.set_position(0);
            let all = npz::read(&mut cur)?;
            let mut singles = Vec::new();
            for n in &names {
                cur.set_position(0);
                // by the name as written, and by the archive entry name derived from it
                singles.push(npz::read_array(&mut cur, n)?);
                cur.set_position(0);
                singles.push(npz::read_array(&mut cur, &npz_file_name(n)?)?);
            }
            Ok::<_, io::Error>((all, singles))
        });
        let mut fail = None;
        let ans = match r {
            Ok(Ok((all, singles))) => {
                if all.len() != n {
                    fail = Some(format!("{} entries read, {} written", all.len(), n));
                }
                for (i, name) in names.iter().enumerate() {
                    let key = name.strip_suffix(".npy").unwrap_or(name);
                    match all.get(key) {
                        Some(v) => {
                            let (dt, s, b, bad) = value_canon(v);
                            if (dt, &s, &b) != (specs[i].0, &specs[i].1, &specs[i].2) || bad.is_some() {
                                fail = Some(format!("entry {key} differs after round trip"));
                            }
                        }
                        None => fail = Some(format!("entry {key} missing after round trip")),
                    }
                    for v in &singles[2 * i..2 * i + 2] {
                        let (dt, s, b, _) = value_canon(v);
                        if (dt, &s, &b) != (specs[i].0, &specs[i].1, &specs[i].2) {
                            fail = Some(format!("read_array({key}) differs after round trip"));
                        }
                    }
                }
                "ok".to_string()
            }
            Ok(Err(e)) => {
                fail = Some(format!("npz round trip failed: {e}"));
                "err".into()
            }
            Err(m) => {
                fail = Some(format!("npz round trip panicked: {m}"));
                "panic".into()
            }
        };
        if big {
            fail = Some("npz round trip requested an allocation > 256 MiB".into());
        }
        out.bucket("npz:roundtrip");
        out.case(&req, &ans, fail.as_deref(), n >= 2);
        // mutated archives: no panic, no huge allocation
        let bytes = cur.into_inner();
        for _ in 0..4 {
            let mut m = bytes.clone();
            mutate_bytes(rng, &mut m);
            let req = format!("# npz-mutated {}", hex(&m[..m.len().min(64)]));
            let (r, big) = guarded(|| {
                let a = npz::read(Cursor::new(&m[..])).map(|h| h.len());
                let b = npz::read_array(Cursor::new(&m[..]), "a").map(|_| ());
                (a.is_ok(), b.is_ok())
            });
            let mut fail = None;
            let ans = match r {
                Ok((a, b)) => format!("read={} read_array={}", a as u8, b as u8),
                Err(m) => {
                    fail = Some(format!("npz reader panicked: {m}"));
                    "panic".into()
                }
            };
            if big {
                fail = Some("npz reader requested an allocation > 256 MiB".into());
            }
            out.bucket("npz:mutated");
            out.case(&req, &ans, fail.as_deref(), true);
        }
    }
    // ---- safetensors (names must be unique as given)
    {
        let req = format!("# st-roundtrip {desc}");
        let mut buf = Vec::new();
        let (r, big) = guarded(|| {
            safetensors::write(&mut buf, names.iter().zip(&tensors).map(|(n, t)| (n.clone(), t.view())))?;
            let all = safetensors::read(&buf[..])?;
            let mut singles = Vec::new();
            for n in &names {
                singles.push(safetensors::read_array(&buf[..], n)?);
            }
            let missing = safetensors::read_array(&buf[..], "no-such-tensor").err().map(|e| e.kind());
            Ok::<_, io::Error>((all, singles, missing))
        });
        let mut fail = None;
        let ans = match r {
            Ok(Ok((all, singles, missing))) => {
                if all.len() != n {
                    fail = Some(format!("{} entries read, {} written", all.len(), n));
                }
                if missing != Some(io::ErrorKind::NotFound) {
                    fail = Some("missing name is not reported as NotFound".into());
                }
                for (i, name) in names.iter().enumerate() {
                    for v in [all.get(name.as_str()), Some(&singles[i])] {
                        match v {
                            Some(v) => {
                                let (dt, s, b, bad) = value_canon(v);
                                if (dt, &s, &b) != (specs[i].0, &specs[i].1, &specs[i].2) || bad.is_some() {
                                    fail = Some(format!("tensor {name} differs after round trip"));
                                }
                            }
                            None => fail = Some(format!("tensor {name} missing after round trip")),
                        }
                    }
                }
                "ok".to_string()
            }
            Ok(Err(e)) => {
                fail = Some(format!("safetensors round trip failed: {e}"));
                "err".into()
            }
            Err(m) => {
                fail = Some(format!("safetensors round trip panicked: {m}"));
                "panic".into()
            }
        };
        if big {
            fail = Some("safetensors round trip requested an allocation > 256 MiB".into());
        }
        out.bucket("st:roundtrip");
        out.case(&req, &ans, fail.as_deref(), n >= 2);
        for _ in 0..6 {
            let mut m = buf.clone();
            if rng.chance(1, 2) {
                // targeted: edit the JSON header text (offsets, shapes, dtypes)
                let hl = u64::from_le_bytes(m[..8].try_into().unwrap()) as usize;
                if hl > 0 && 8 + hl <= m.len() {
                    let i = 8 + rng.usize_below(hl);
                    m[i] = *rng.pick(b"0123456789,[]{}\":IUFB");
                }
            } else {
                mutate_bytes(rng, &mut m);
            }
            let req = format!("# st-mutated {}", hex(&m[..m.len().min(96)]));
            let (r, big) = guarded(|| {
                let a = safetensors::read(&m[..]).map(|h| h.values().map(|v| value_canon(v).3).collect::<Vec<_>>());
                let b = safetensors::read_array(&m[..], &names[0]).is_ok();
                (a, b)
            });
            let mut fail = None;
            let ans = match r {
                Ok((a, b)) => {
                    if let Ok(bads) = &a {
                        if let Some(Some(b)) = bads.iter().find(|b| b.is_some()) {
                            fail = Some(format!("safetensors reader returned an invalid layout: {b}"));
                        }
                    }
                    format!("read={} read_array={}", a.is_ok() as u8, b as u8)
                }
                Err(m) => {
                    fail = Some(format!("safetensors reader panicked: {m}"));
                    "panic".into()
                }
            };
            if big {
                fail = Some("safetensors reader requested an allocation > 256 MiB".into());
            }
            out.bucket("st:mutated");
            out.case(&req, &ans, fail.as_deref(), true);
        }
    }
}

// ---------------------------------------------------------------- safetensors wrapper logic
fn contiguous_strides(shape: &[usize]) -> Vec<usize> {
    let mut st = vec![0usize; shape.len()];
    let mut p = 1usize;
    for d in (0..shape.len()).rev() {
        st[d] = p;
        p *= shape[d];
    }
    st
}

/// `to_le_bytes` on an explicitly strided view: which branch is taken and the bytes produced.
fn case_stenc<T: Elt>(out: &mut Out, rng: &mut Rng, dt: DataType)
where
    for<'a> TensorView<'a, T>: Into<View<'a>>,
{
    let rank = rng.usize_below(5);
    let shape: Vec<usize> = (0..rank).map(|_| *rng.pick(&[0usize, 1, 1, 2, 2, 3, 4])).collect();
    let mut strides = contiguous_strides(&shape);
    let class = rng.below(7);
    match class {
        0 => {}
        1 => {
            // size-1 dims may carry any stride and stay contiguous
            for d in 0..rank {
                if shape[d] == 1 {
                    strides[d] = rng.usize_below(9);
                }
            }
        }
        2 => {
            // permuted strides (transposed view of a contiguous tensor)
            let mut perm: Vec<usize> = (0..rank).collect();
            rng.shuffle(&mut perm);
            let base = contiguous_strides(&perm.iter().map(|&i| shape[i]).collect::<Vec<_>>());
            for (k, &i) in perm.iter().enumerate() {
                strides[i] = base[k];
            }
        }
        3 => {
            for s in strides.iter_mut() {
                *s *= 1 + rng.usize_below(3); // padded / stepped
            }
        }
        4 => {
            for s in strides.iter_mut() {
                if rng.chance(1, 2) {
                    *s = 0; // broadcast
                }
            }
        }
        5 => {
            for s in strides.iter_mut() {
                *s = rng.usize_below(7);
            }
        }
        _ => {
            // contiguous except one perturbed stride
            if rank > 0 {
                let d = rng.usize_below(rank);
                strides[d] += 1;
            }
        }
    }
    let mdl = if shape.iter().any(|&d| d == 0) {
        0
    } else {
        shape.iter().zip(&strides).map(|(&d, &s)| (d - 1) * s).sum::<usize>() + 1
    };
    let slack = if rng.chance(1, 3) { rng.usize_below(4) } else { 0 };
    let storage: Vec<T> = (0..mdl + slack).map(|_| T::from_bits(rand_bits(rng))).collect();
    let view = match TensorView::<T>::from_slice_with_strides(&shape[..], &storage, &strides[..]) {
        Ok(v) => v,
        Err(_) => return,
    };
    let storage_bytes: Vec<u8> = storage.iter().flat_map(|x| x.le()).collect();
    let req = format!("stenc {} {} {} {}", dt_name(dt), dims(&shape), dims(&strides), hex(&storage_bytes));
    let contig = view.data().is_some();
    let expect = logical_bytes(&view);
    let mut buf = Vec::new();
    let (r, big) = guarded(|| safetensors::write(&mut buf, [("t", view.clone())]));
    let mut fail: Option<String> = None;
    let ans = match r {
        Ok(Ok(())) => {
            let hl = u64::from_le_bytes(buf[..8].try_into().unwrap()) as usize;
            let data = &buf[8 + hl..];
            if data != &expect[..] {
                fail = Some(format!("safetensors data section {} differs from the view's logical elements {}", hex(data), hex(&expect)));
            }
            match safetensors::read(&buf[..]) {
                Ok(m) => match m.get("t") {
                    Some(v) => {
                        let (rdt, rshape, rbytes, bad) = value_canon(v);
                        if rdt != dt || rshape != shape || rbytes != expect || bad.is_some() {
                            fail = Some("safetensors round trip differs".into());
                        }
                    }
                    None => fail = Some("tensor missing after round trip".into()),
                },
                Err(e) => fail = Some(format!("read of written safetensors failed: {e}")),
            }
            format!("contig={} data={}", contig as u8, hex(data))
        }
        Ok(Err(e)) => {
            fail = Some(format!("safetensors write failed: {e}"));
            "err".into()
        }
        Err(m) => {
            fail = Some(format!("safetensors write panicked: {m}"));
            "panic".into()
        }
    };
    if big {
        fail = Some("safetensors write requested an allocation > 256 MiB".into());
    }
    out.bucket(&format!("stenc:{}", if contig { "fast-path" } else { "iter-path" }));
    out.bucket(&format!("stenc-class{class}"));
    out.case(&req, &ans, fail.as_deref(), rank >= 2 && !expect.is_empty());
}

fn st_file(dtype: &str, shape: &[usize], data: &[u8]) -> Vec<u8> {
    let json = format!(
        "{{\"t\":{{\"dtype\":\"{dtype}\",\"shape\":[{}],\"data_offsets\":[0,{}]}}}}",
        hcommon::join(shape.iter(), ","),
        data.len()
    );
    let mut f = (json.len() as u64).to_le_bytes().to_vec();
    f.extend_from_slice(json.as_bytes());
    f.extend_from_slice(data);
    f
}
fn st_name(d: DataType) -> &'static str {
    match d {
        DataType::Bool => "BOOL",
        DataType::Int8 => "I8",
        DataType::Int16 => "I16",
        DataType::Int32 => "I32",
        DataType::Int64 => "I64",
        DataType::UInt8 => "U8",
        DataType::UInt16 => "U16",
        DataType::UInt32 => "U32",
        DataType::UInt64 => "U64",
        DataType::Float32 => "F32",
        _ => "F64",
    }
}

/// `from_le_bytes` on arbitrary data bytes (bool bytes other than 0/1 included).
fn case_stdec(out: &mut Out, rng: &mut Rng, dt: DataType) {
    let n = rng.usize_below(7);
    let mut data = rand_bytes(rng, n * dt_size(dt));
    if rng.chance(1, 3) {
        for b in data.iter_mut() {
            *b = *rng.pick(&[0u8, 1, 2, 0x80, 0xff]);
        }
    }
    let req = format!("stdec {} {}", dt_name(dt), hex(&data));
    let file = st_file(st_name(dt), &[n], &data);
    let (r, _) = guarded(|| safetensors::read(&file[..]));
    let mut fail = None;
    let ans = match r {
        Ok(Ok(m)) => match m.get("t") {
            Some(v) => {
                let (rdt, rshape, rbytes, _) = value_canon(v);
                if rdt != dt || rshape != [n] {
                    fail = Some("dtype/shape differ".to_string());
                }
                format!("vals={}", hex(&rbytes))
            }
            None => "missing".into(),
        },
        Ok(Err(e)) => {
            fail = Some(format!("well-formed safetensors file rejected: {e}"));
            "err".into()
        }
        Err(m) => {
            fail = Some(format!("safetensors reader panicked: {m}"));
            "panic".into()
        }
    };
    out.bucket(&format!("stdec:{}", dt_name(dt)));
    out.case(&req, &ans, fail.as_deref(), n > 0);
}

fn case_stdtype(out: &mut Out, name: &str) {
    let req = format!("stdtype {name}");
    let file = st_file(name, &[0], &[]);
    let (r, _) = guarded(|| safetensors::read(&file[..]));
    let mut fail = None;
    let ans = match r {
        Ok(Ok(m)) => match m.get("t") {
            Some(v) => format!("ok {}", dt_name(v.dtype())),
            None => "missing".into(),
        },
        Ok(Err(e)) => {
            if e.to_string().starts_with("unsupported safetensors dtype") {
                "err:unsupported".into()
            } else {
                "err:other".to_string()
            }
        }
        Err(m) => {
            fail = Some(format!("safetensors reader panicked: {m}"));
            "panic".into()
        }
    };
    out.bucket("stdtype");
    out.case(&req, &ans, fail.as_deref(), true);
}

/// `Tensor::try_from_data` acceptance (rten-tensor), used by both readers.
fn case_tfd(out: &mut Out, rng: &mut Rng) {
    let rank = rng.usize_below(5);
    let shape: Vec<usize> = (0..rank)
        .map(|_| match rng.below(6) {
            0 => 0,
            1 => huge_dim(rng),
            _ => rng.usize_below(4),
        })
        .collect();
    let true_len: u128 = shape.iter().fold(1u128, |a, &d| a.saturating_mul(d as u128));
    let n = if true_len <= 64 && rng.chance(2, 3) { true_len as usize } else { rng.usize_below(8) };
    let req = format!("tfd {} {}", dims(&shape), n);
    let (r, _) = guarded(|| Tensor::<u8>::try_from_data(&shape[..], vec![0u8; n]).is_ok());
    let mut fail = None;
    let ans = match r {
        Ok(b) => (b as u8).to_string(),
        Err(m) => {
            fail = Some(format!("try_from_data panicked: {m}"));
            "panic".into()
        }
    };
    out.bucket(&format!("tfd:{ans}"));
    out.case(&req, &ans, fail.as_deref(), rank >= 2);
}

/// Two names that map to the same archive entry.
fn case_npz_duplicate(out: &mut Out, first: &str, second: &str, expect_dup: bool) {
    let a = Tensor::<i32>::from_data(&[2], vec![1, 2]);
    let b = Tensor::<i32>::from_data(&[3], vec![3, 4, 5]);
    let req = format!("# npz-duplicate {} {}", hex(first.as_bytes()), hex(second.as_bytes()));
    let mut cur = Cursor::new(Vec::new());
    let (r, _) = guarded(|| npz::write(&mut cur, [(first, a.view()), (second, b.view())]));
    let mut fail = None;
    let ans = match r {
        Ok(Err(e)) => {
            if !expect_dup || !e.to_string().contains("Duplicate filename") {
                fail = Some(format!("unexpected npz::write error: {e}"));
            }
            format!("write-err {}", e.to_string().replace(' ', "_"))
        }
        Ok(Ok(())) => {
            // stated outcome: duplicate entry names are refused; accepting them would lose a tensor
            if expect_dup {
                fail = Some("npz::write accepted two names for one archive entry".to_string());
            } else {
                cur.set_position(0);
                match npz::read(&mut cur) {
                    Ok(m) if m.len() == 2 => {}
                    _ => fail = Some("two distinct entries were not both read back".to_string()),
                }
            }
            "write-ok".into()
        }
        Err(m) => {
            fail = Some(format!("npz::write panicked: {m}"));
            "panic".into()
        }
    };
    out.bucket("npz:duplicate");
    out.note(&format!("npz-duplicate {first} / {second}: {ans}"));
    out.case(&req, &ans, fail.as_deref(), true);
}

/// Hand-built safetensors files whose JSON headers are adversarial.
fn st_adversarial(out: &mut Out, rng: &mut Rng) {
    let dts = ["F32", "I64", "U8", "BOOL", "F16", "BF16", "F8_E4M3", "F4", "I32", "U64", "C64", "XX"];
    let dim = |rng: &mut Rng| match rng.below(6) {
        0 => 0usize,
        1 => huge_dim(rng),
        _ => rng.usize_below(4),
    };
    let rank = rng.usize_below(4);
    let shape: Vec<usize> = (0..rank).map(|_| dim(rng)).collect();
    let dt = *rng.pick(&dts);
    let data_len = rng.usize_below(40);
    let (b, e) = match rng.below(5) {
        0 => (0usize, data_len),
        1 => (0, data_len + 1),
        2 => (rng.usize_below(8), rng.usize_below(8)),
        3 => (0, huge_dim(rng)),
        _ => (0, shape.iter().fold(1usize, |a, &d| a.wrapping_mul(d)).wrapping_mul(4)),
    };
    let json = format!(
        "{{\"t\":{{\"dtype\":\"{dt}\",\"shape\":[{}],\"data_offsets\":[{b},{e}]}}}}",
        hcommon::join(shape.iter(), ",")
    );
    let mut file = (json.len() as u64).to_le_bytes().to_vec();
    if rng.chance(1, 10) {
        file = huge_dim(rng).to_le_bytes().to_vec();
    }
    file.extend_from_slice(json.as_bytes());
    file.extend(rand_bytes(rng, data_len));
    let req = format!("# st-adversarial {}", hex(&file[..file.len().min(160)]));
    let (r, big) = guarded(|| safetensors::read(&file[..]).map(|h| h.values().map(|v| value_canon(v).3).collect::<Vec<_>>()));
    let mut fail = None;
    let ans = match r {
        Ok(Ok(bads)) => {
            if let Some(Some(b)) = bads.iter().find(|b| b.is_some()) {
                fail = Some(format!("safetensors reader returned an invalid layout: {b}"));
            }
            "ok".to_string()
        }
        Ok(Err(_)) => "err".into(),
        Err(m) => {
            fail = Some(format!("safetensors reader panicked: {m}"));
            "panic".into()
        }
    };
    if big {
        fail = Some("safetensors reader requested an allocation > 256 MiB".into());
    }
    out.bucket("st:adversarial");
    out.bucket(&format!("st-adv-verdict:{ans}"));
    out.case(&req, &ans, fail.as_deref(), true);
}

fn mutate_bytes(rng: &mut Rng, m: &mut Vec<u8>) {
    if m.is_empty() {
        return;
    }
    match rng.below(5) {
        0 => {
            let i = rng.usize_below(m.len());
            m.truncate(i);
        }
        1 => {
            let i = rng.usize_below(m.len());
            m[i] ^= 1 << rng.below(8);
        }
        2 => {
            for _ in 0..1 + rng.usize_below(4) {
                let i = rng.usize_below(m.len());
                m[i] = rng.below(256) as u8;
            }
        }
        3 => {
            let i = rng.usize_below(m.len());
            m.insert(i, rng.below(256) as u8);
        }
        _ => {
            // overwrite a 4-byte little-endian field with a huge value
            if m.len() >= 4 {
                let i = rng.usize_below(m.len() - 3);
                m[i..i + 4].copy_from_slice(&[0xff, 0xff, 0xff, 0x7f]);
            }
        }
    }
}

fn case_npzname(out: &mut Out, name: &str) {
    let req = format!("npzname {}", hex(name.as_bytes()));
    let ans = match hcommon::catch(|| npz_file_name(name)) {
        Ok(Ok(f)) => format!("ok {}", hex(f.as_bytes())),
        Ok(Err(_)) => "err:empty".to_string(),
        Err(m) => format!("panic {m}"),
    };
    let mut fail = None;
    if let Some(f) = ans.strip_prefix("ok ") {
        // idempotence on the real code
        let f = String::from_utf8((0..f.len() / 2).map(|i| u8::from_str_radix(&f[2 * i..2 * i + 2], 16).unwrap()).collect()).unwrap();
        if npz_file_name(&f).ok().as_deref() != Some(f.as_str()) {
            fail = Some("npz_file_name is not idempotent");
        }
    }
    out.bucket("npzname");
    out.case(&req, &ans, fail, true);
    // the key `npz::read` derives from an entry name (str::strip_suffix on the real std)
    let req = format!("npzkey {}", hex(name.as_bytes()));
    let ans = match name.strip_suffix(".npy") {
        Some(k) if name.ends_with(".npy") => format!("some {}", hex(k.as_bytes())),
        _ => "none".to_string(),
    };
    out.case(&req, &ans, None, false);
}

fn case_utf8(out: &mut Out, b: &[u8]) {
    let req = format!("utf8 {}", hex(b));
    let ans = (std::str::from_utf8(b).is_ok() as u8).to_string();
    out.bucket(if ans == "1" { "utf8:valid" } else { "utf8:invalid" });
    out.case(&req, &ans, None, b.len() >= 2);
}

fn case_fortran(out: &mut Out, shape: &[usize]) {
    let n: usize = shape.iter().product();
    let req = format!("fortran {} {}", dims(shape), n);
    let vals: Vec<usize> = (0..n).collect();
    let ans = match hcommon::catch(|| hook::fortran_order_to_row_major(vals, shape)) {
        Ok(v) => dims(&v),
        Err(m) => format!("panic {m}"),
    };
    // independent oracle: element at row-major multi-index i is Fortran offset sum_j i_j * prod_{l<j} shape_l
    let mut expect = Vec::new();
    for_each_index(shape, |idx| {
        let mut off = 0usize;
        let mut stride = 1usize;
        for j in 0..shape.len() {
            off += idx[j] * stride;
            stride *= shape[j];
        }
        expect.push(off);
    });
    let fail = if !ans.starts_with("panic") && dims(&expect) != ans { Some("wrong Fortran-to-row-major permutation") } else if ans.starts_with("panic") { Some("fortran reorder panicked") } else { None };
    out.bucket("fortran");
    out.case(&req, &ans, fail, shape.len() >= 2 && n > 1);
}

// ---------------------------------------------------------------- main
fn main() {
    let args = hcommon::parse_args();
    hcommon::quiet_panics();
    run(&args)
}

fn run(args: &Args) {
    let mut out = Out::new(&args.out);
    let mut rng = Rng::new(args.seed);
    let scale = if args.thorough { 10 } else { 1 };

    // (A) header builder: every dtype x shapes incl. huge dims and the u16 length boundary
    for dt in DTS {
        for shape in [vec![], vec![0], vec![1], vec![9], vec![10], vec![2, 3], vec![0, 0], vec![usize::MAX], vec![usize::MAX; 3]] {
            case_hdr(&mut out, dt, &shape, "fixed");
        }
    }
    for _ in 0..2000 * scale {
        let dt = *rng.pick(&DTS);
        let rank = if rng.chance(1, 10) { rng.usize_below(40) } else { rng.usize_below(6) };
        let shape: Vec<usize> = (0..rank).map(|_| if rng.chance(1, 2) { huge_dim(&mut rng) } else { rand_dim(&mut rng) }).collect();
        case_hdr(&mut out, dt, &shape, "random");
    }
    // boundary of the u16 header length: dict text length 65535 is the last that fits
    for rank in 2970..2982 {
        case_hdr(&mut out, DataType::Float32, &vec![usize::MAX; rank], "len-boundary");
    }
    for rank in [21810usize, 21820, 21824, 21825, 21826, 21827, 21830] {
        case_hdr(&mut out, DataType::Int8, &vec![1; rank], "len-boundary");
    }

    for rank in [21824usize, 21825, 21826, 21846] {
        case_write_rank(&mut out, rank);
    }

    // (B) write + round trip over all dtypes and view kinds
    for _ in 0..900 * scale {
        for dt in DTS {
            dispatch!(dt, T => case_write::<T>(&mut out, &mut rng, dt));
        }
    }

    // (C) reader on well-formed files in every accepted flavour
    for _ in 0..3000 * scale {
        let dt = *rng.pick(&DTS);
        let size = dt_size(dt);
        let kindc = match dt { DataType::Bool => 'b', DataType::Float32 | DataType::Float64 => 'f',
            DataType::Int8 | DataType::Int16 | DataType::Int32 | DataType::Int64 => 'i', _ => 'u' };
        let order = *rng.pick(&["<", ">", "=", "|"]);
        let descr = format!("{order}{kindc}{size}");
        let fortran = rng.chance(1, 2);
        let shape = rand_shape(&mut rng, 48);
        let n: usize = shape.iter().product();
        let mut dict = good_dict(&descr, fortran, &shape);
        if rng.chance(1, 3) {
            dict = format!("{}{}{}\n", ws(&mut rng), dict, " ".repeat(rng.usize_below(30)));
        }
        let extra = if rng.chance(1, 5) { rng.usize_below(9) } else { 0 };
        let short = if rng.chance(1, 8) && n * size > 0 { 1 + rng.usize_below(n * size) } else { 0 };
        let mut data = rand_bytes(&mut rng, n * size + extra - short.min(n * size + extra));
        if dt == DataType::Bool && rng.chance(1, 2) {
            for b in data.iter_mut() { *b &= 1; }
        }
        let version = *rng.pick(&[(1u8, 0u8), (1, 0), (2, 0), (3, 0), (1, 7)]);
        let file = npy_file(version, None, dict.as_bytes(), &data);
        case_read(&mut out, &file, if fortran { "valid-fortran" } else { "valid-c" }, false);
        if rng.chance(1, 4) {
            case_rhdr(&mut out, &file);
        }
    }

    // (D) parser on adversarial dictionary texts (hook) and the same texts inside files
    for i in 0..12000 * scale {
        let mut d = gen_dict(&mut rng);
        if rng.chance(1, 4) {
            d = mutate_ascii(&mut rng, &d);
        }
        case_parse(&mut out, &d, "grammar");
        if i % 3 == 0 {
            let version = *rng.pick(&[(1u8, 0u8), (1, 0), (2, 0), (3, 0), (0, 0), (4, 0), (255, 255)]);
            let len_override = match rng.below(10) {
                0 => Some(d.len() as u32 + 1 + rng.below(1000) as u32),
                1 => Some(rng.below(d.len() as u64 + 1) as u32),
                2 => Some(u32::MAX - rng.below(3) as u32),
                3 => Some(0x7fff_ffff),
                _ => None,
            };
            let data = { let n = rng.usize_below(64); rand_bytes(&mut rng, n) };
            let mut dict = d.as_bytes().to_vec();
            if rng.chance(1, 15) && !dict.is_empty() {
                let k = rng.usize_below(dict.len());
                dict[k] = 0x80 | rng.below(128) as u8; // break UTF-8
            }
            let file = npy_file(version, len_override, &dict, &data);
            case_read(&mut out, &file, "adversarial-dict", false);
            if rng.chance(1, 3) {
                case_rhdr(&mut out, &file);
            }
        }
    }
    // mutated genuine parse inputs: header text of real files
    for _ in 0..4000 * scale {
        let dt = *rng.pick(&DTS);
        let shape: Vec<usize> = (0..rng.usize_below(5)).map(|_| if rng.chance(1, 3) { huge_dim(&mut rng) } else { rand_dim(&mut rng) }).collect();
        if let Ok(h) = hook::build_header(dt, &shape) {
            let text = String::from_utf8(h[10..].to_vec()).unwrap();
            case_parse(&mut out, &text, "built");
            let m = mutate_ascii(&mut rng, text.trim_end());
            case_parse(&mut out, &m, "built-mutated");
        }
    }

    // (E) huge / zero-mixed dims through the full reader; truncated, mutated real files
    for _ in 0..3000 * scale {
        let dt = *rng.pick(&DTS);
        let descr = format!("{}{}{}", if dt_size(dt) == 1 { "|" } else { "<" },
            match dt { DataType::Bool => 'b', DataType::Float32 | DataType::Float64 => 'f',
                DataType::Int8 | DataType::Int16 | DataType::Int32 | DataType::Int64 => 'i', _ => 'u' }, dt_size(dt));
        let rank = 1 + rng.usize_below(4);
        let mut shape: Vec<usize> = (0..rank).map(|_| match rng.below(4) { 0 => 0, 1 => rand_dim(&mut rng), _ => huge_dim(&mut rng) }).collect();
        if rng.chance(1, 3) {
            // exactly around the 4 GiB byte count
            shape = vec![(1usize << 32) / dt_size(dt) + rng.usize_below(3) - 1];
        }
        let dict = good_dict(&descr, rng.chance(1, 3), &shape);
        let data = { let n = rng.usize_below(40); rand_bytes(&mut rng, n) };
        let file = npy_file(*rng.pick(&[(1u8, 0u8), (2, 0)]), None, dict.as_bytes(), &data);
        case_read(&mut out, &file, "huge-dims", false);
    }
    for _ in 0..4000 * scale {
        let dt = *rng.pick(&DTS);
        let shape = rand_shape(&mut rng, 24);
        let n: usize = shape.iter().product();
        let mut file = hook::build_header(dt, &shape).unwrap();
        file.extend(rand_bytes(&mut rng, n * dt_size(dt)));
        mutate_bytes(&mut rng, &mut file);
        case_read(&mut out, &file, "mutated-file", false);
        if rng.chance(1, 4) {
            case_rhdr(&mut out, &file);
        }
    }
    for _ in 0..1500 * scale {
        let n = rng.usize_below(40);
        let mut b = rand_bytes(&mut rng, n);
        if rng.chance(1, 2) {
            let k = b.len().min(6);
            b[..k].copy_from_slice(&b"\x93NUMPY"[..k]);
        }
        case_read(&mut out, &b, "random-bytes", false);
    }

    // (F) Fortran reorder
    for _ in 0..1500 * scale {
        let shape = rand_shape(&mut rng, 120);
        case_fortran(&mut out, &shape);
    }

    // (G) npz names
    let parts = ["a", ".npy", ".np", "npy", ".", "/", "\u{e9}", ".NPY", "x.npy", " ", ".npy.npy", "y"];
    for _ in 0..1500 * scale {
        let k = rng.usize_below(4);
        let name: String = (0..k).map(|_| *rng.pick(&parts)).collect();
        case_npzname(&mut out, &name);
    }

    // (H) UTF-8 validator tie
    let lead = [0x00u8, 0x41, 0x7f, 0x80, 0xbf, 0xc0, 0xc1, 0xc2, 0xdf, 0xe0, 0xe1, 0xec, 0xed, 0xee, 0xef, 0xf0, 0xf1, 0xf3, 0xf4, 0xf5, 0xff];
    let cont = [0x7fu8, 0x80, 0x8f, 0x90, 0x9f, 0xa0, 0xbf, 0xc0, 0x27, 0x41];
    for _ in 0..8000 * scale {
        let k = rng.usize_below(6);
        let b: Vec<u8> = (0..k)
            .map(|_| match rng.below(4) { 0 => *rng.pick(&lead), 1 | 2 => *rng.pick(&cont), _ => rng.below(256) as u8 })
            .collect();
        case_utf8(&mut out, &b);
    }
    for s in ["\u{e9}", "\u{800}", "\u{ffff}", "\u{10000}", "\u{10ffff}", "\u{d7ff}", "\u{e000}", "a\u{2003}b"] {
        case_utf8(&mut out, s.as_bytes());
    }

    // (J) safetensors wrapper logic: to_le_bytes branches, from_le_bytes, dtype map, try_from_data
    for _ in 0..600 * scale {
        for dt in DTS {
            dispatch!(dt, T => case_stenc::<T>(&mut out, &mut rng, dt));
        }
    }
    for _ in 0..200 * scale {
        for dt in DTS {
            case_stdec(&mut out, &mut rng, dt);
        }
    }
    for name in ["BOOL", "F4", "F6_E2M3", "F6_E3M2", "U8", "I8", "F8_E5M2", "F8_E4M3", "F8_E8M0", "F8_E4M3FNUZ",
        "F8_E5M2FNUZ", "I16", "U16", "F16", "BF16", "I32", "U32", "F32", "C64", "F64", "I64", "U64", "XX"] {
        case_stdtype(&mut out, name);
    }
    for _ in 0..3000 * scale {
        case_tfd(&mut out, &mut rng);
    }
    for (x, y, dup) in [("a", "a.npy", true), ("a.npy", "a", true), ("a", "a", true), ("d.npy", "d", true),
        ("d.npy", "d.npy.npy", false), ("a", "b", false)] {
        case_npz_duplicate(&mut out, x, y, dup);
    }

    // (I) containers
    for _ in 0..250 * scale {
        container_round_trip(&mut out, &mut rng);
    }
    for _ in 0..3000 * scale {
        st_adversarial(&mut out, &mut rng);
    }

    out.note("answers are compared with model_C34 line by line except '#' requests (npz/safetensors containers: oracle only)");
    out.finish(
        "all 11 dtypes x random shapes (rank 0..5, empty dims, 0-d) written from contiguous / permuted / strided / reversed / broadcast views; \
         headers for huge dims and at the u16 length boundary; reader on valid files in every accepted flavour (v1/v2/v3, big-endian, '=' and '|' orders, Fortran order), \
         grammar-generated adversarial dictionaries, ASCII/byte mutations, truncations, wrong magic/version, header length past EOF, huge and zero-mixed dims; \
         npz/safetensors round trips and mutated/adversarial containers; non-trivial = rank>=2 non-contiguous writes, parser cases, accepted reads; distinct by request text",
    );
}
