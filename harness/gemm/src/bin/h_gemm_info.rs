fn main() { println!("h-gemm harness package: run a property binary (cNN) instead"); }
