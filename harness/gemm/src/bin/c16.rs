//! C16: every f32 GEMM kernel available on this host (`rten_gemm::verif::f32_gemm_executors`:
//! AVX-512, FMA, generic) run through the public `GemmExecutor` API, tied to the Lean model of
//! `gemm_impl` (`model_C16`).
//!
//! Per case two compared request lines are produced (header fields are documented in
//! `lean/RtenVerif/Driver/C16.lean`):
//!
//! * `sched <betaClass> <header>` — the kernel-call trace recorded by the `cfg(rten_verif)` hook
//!   in `gemm_block` / `gemv` (tile indices, used rows/cols, depth range, class of the effective
//!   beta, whether the bias step ran), canonically sorted, against the model's schedule.
//! * `gemm <header> <alpha> <beta> | A | B | C | bias` — integer-valued cases only: the f32 result
//!   (exact for small integers) against the model's result over `Int`.
//!
//! * `pack a|b <MR|NR> <rows> <cols> …` — the real `packing::pack_a_block` / `pack_b_block` (verif
//!   hook) on an index-valued, possibly strided/transposed matrix and a block at a non-zero
//!   offset: slots in block coordinates + offset of every element, against `packASlots` /
//!   `packBSlots` / `packAOffset` / `packBOffset` (T3 tie), plus a naive-loop oracle.
//!
//! * `packsrc a|b <t> <row_stride> <col_stride> <r0> <r1> <c0> <c1>` — same packers on
//!   offset-valued storage: the storage offsets read, against `packASrc` / `packBSrc` (strides).
//! * `pblock a|b <t> <nm> <K> <bs> …` — `prepack_a` / `prepack_b` with a real kernel on an
//!   index-valued operand, then `PackedMatrixBase::block` (verif hook) for every block and depth
//!   block: span, total length and buffer contents against `prepackBase.block` / `prepackABuf` /
//!   `prepackBBuf`.
//!
//! and uncompared `# float …` / `# batch …` lines for real-valued and batched cases.
//!
//! Independent oracle (PROPFAIL), evaluated on the implementation's output for every case: naive
//! f64 triple loop `alpha·Σ a·b + beta·c + bias` within the worst-case f32 summation bound
//! (exact for integer cases); every output element initialised (sentinel NaN gone, `gemm_uninit`
//! included); with `beta = 0` two different prior contents give bit-identical results; per tile
//! the depth blocks are executed in increasing order and each tile is hit once per depth block;
//! no panic on valid input.
use hcommon::{Args, Out, Rng};
use rten_gemm::verif::{self, TraceEv};
use rten_gemm::{
    BiasVector, ColOffsets, GemmExecutor, GemmInputA, GemmInputB, GemmOptions, GemmUninitOptions,
    Im2Col, PackedAMatrix, PackedBMatrix, QuantParams, RowOffsets,
};
use rten_tensor::prelude::*;
use rten_tensor::NdTensorView;
use std::mem::MaybeUninit;

type Exec = GemmExecutor<f32, f32, f32>;

/// One cached rayon pool per thread count (`rayon::current_num_threads()` drives the blocking).
fn pool(n: usize) -> &'static verif::ThreadPool {
    use std::collections::HashMap;
    use std::sync::{Mutex, OnceLock};
    static POOLS: OnceLock<Mutex<HashMap<usize, &'static verif::ThreadPool>>> = OnceLock::new();
    let mut g = POOLS.get_or_init(|| Mutex::new(HashMap::new())).lock().unwrap_or_else(|e| e.into_inner());
    *g.entry(n).or_insert_with(|| Box::leak(Box::new(verif::thread_pool(n))))
}

struct Kern {
    id: usize,
    name: String,
    mr: usize,
    nr: usize,
    exec: Exec,
}

#[derive(Clone, Copy, PartialEq, Debug)]
enum BiasKind {
    None,
    Row(usize),
    Col(usize),
}

#[derive(Clone, Copy, PartialEq, Debug)]
enum AIn {
    Unpacked(u8),
    /// prepacked with kernel index
    Packed(usize),
}

#[derive(Clone, Copy, PartialEq, Debug)]
enum BIn {
    Unpacked(u8),
    Packed(usize),
    Im2Col,
}

#[derive(Clone, Copy, PartialEq, Debug)]
enum Api {
    Gemm,
    Uninit,
}

#[derive(Clone, Debug)]
struct Case {
    kern: usize,
    threads: usize,
    m: usize,
    ka: usize,
    kb: usize,
    n: usize,
    out_len: usize,
    bias: BiasKind,
    /// length of the zero-point vector passed for A / B (f32 kernels ignore the values)
    a_quant: Option<usize>,
    b_quant: Option<usize>,
    a_in: AIn,
    b_in: BIn,
    alpha: f32,
    beta: f32,
    int_mode: bool,
    api: Api,
    tag: &'static str,
}

const SENTINEL: u32 = 0x7fc0_dead;

/// Store a logical row-major `rows × cols` matrix with the requested layout.
/// Returns (storage, row_stride, col_stride). Unused storage slots hold `junk`.
fn strides_for(rows: usize, cols: usize, lay: u8) -> (usize, usize) {
    match lay {
        0 => (cols.max(1), 1),  // row major
        1 => (1, rows.max(1)),  // transposed (column major)
        2 => (cols + 3, 1),     // padded rows
        3 => (2 * cols + 1, 2), // non-unit column stride
        _ => (1, rows + 2),     // padded column major
    }
}

fn lay_out(data: &[f32], rows: usize, cols: usize, lay: u8, junk: f32) -> (Vec<f32>, usize, usize) {
    let (rs, cs) = strides_for(rows, cols, lay);
    let len = if rows == 0 || cols == 0 { 1 } else { (rows - 1) * rs + (cols - 1) * cs + 1 };
    let mut buf = vec![junk; len + 2];
    for r in 0..rows {
        for c in 0..cols {
            buf[r * rs + c * cs] = data[r * cols + c];
        }
    }
    (buf, rs, cs)
}

fn view<'a>(buf: &'a [f32], rows: usize, cols: usize, rs: usize, cs: usize) -> NdTensorView<'a, f32, 2> {
    NdTensorView::from_data_with_strides([rows, cols], buf, [rs, cs]).expect("layout")
}

/// Im2col description of a `k × n` matrix stored as an image `[k, h, w]` with `h*w = n`
/// (same scheme as the crate's `build_im2col` test helper, but over a strided image view).
fn build_im2col<'a>(image: NdTensorView<'a, f32, 3>, col_step: usize, row_step: usize) -> Im2Col<'a, f32> {
    let [chans, img_h, img_w] = image.shape();
    let [chan_stride, h_stride, w_stride] = image.strides();
    let n_cols = img_w * img_h;
    let n_cols_padded = n_cols.next_multiple_of(col_step);
    let rows = chans;
    let n_rows_padded = rows.next_multiple_of(row_step);
    let mut row_offsets = RowOffsets {
        chan: (0..rows as i32).map(|c| c * chan_stride as i32).collect(),
        y: vec![0; rows],
        x: vec![0; rows],
    };
    for _ in rows..n_rows_padded {
        row_offsets.chan.push(i32::MAX);
        row_offsets.x.push(i32::MAX);
        row_offsets.y.push(i32::MAX);
    }
    let mut col_offsets = ColOffsets {
        y: (0..n_cols).map(|i| (i / img_w) as i32 * h_stride as i32).collect(),
        x: (0..n_cols).map(|i| (i % img_w) as i32 * w_stride as i32).collect(),
    };
    for _ in n_cols..n_cols_padded {
        col_offsets.y.push(i32::MAX);
        col_offsets.x.push(i32::MAX);
    }
    Im2Col {
        image,
        row_offsets,
        col_offsets,
        n_cols,
        n_rows: rows,
        max_y_offset: ((img_h - 1) * h_stride) as i32,
        max_x_offset: ((img_w - 1) * w_stride) as i32,
    }
}

fn beta_class(zero: bool, one: bool) -> &'static str {
    if zero {
        "z"
    } else if one {
        "o"
    } else {
        "x"
    }
}

/// Canonical text of a trace + structural oracle on it.
fn canon_trace(evs: &[TraceEv]) -> (String, Option<String>) {
    let mut fail = None;
    // gemm events
    let mut calls: Vec<(usize, usize, usize, usize, usize, usize, &'static str, bool, usize)> = vec![];
    let mut gemv: Vec<(usize, u8, usize, String)> = vec![];
    for (seq, ev) in evs.iter().enumerate() {
        match ev {
            TraceEv::Kernel { row_tile, col_tile, used_rows, used_cols, depth_start, depth_end, beta_is_zero, beta_is_one } => {
                calls.push((*row_tile, *col_tile, *used_rows, *used_cols, *depth_start, *depth_end,
                    beta_class(*beta_is_zero, *beta_is_one), false, seq));
            }
            TraceEv::Bias { row_tile, col_tile } => {
                // attaches to the latest kernel call on the same tile
                match calls.iter_mut().rev().find(|c| c.0 == *row_tile && c.1 == *col_tile) {
                    Some(c) if !c.7 => c.7 = true,
                    _ => fail = Some(format!("bias step without a preceding kernel call on tile ({row_tile},{col_tile})")),
                }
            }
            TraceEv::GemvKernel { col_start, col_end, depth_start, depth_end, beta_is_zero, beta_is_one } => {
                gemv.push((*col_start, 0, *depth_start,
                    format!("k,{col_start},{col_end},{depth_start},{depth_end},{}", beta_class(*beta_is_zero, *beta_is_one))));
                // depth order within a column block
                if let Some(prev) = evs[..seq].iter().rev().find_map(|e| match e {
                    TraceEv::GemvKernel { col_start: cs, depth_end: de, .. } if cs == col_start => Some(*de),
                    _ => None,
                }) {
                    if prev != *depth_start {
                        fail = Some(format!("gemv k blocks of column block {col_start} not contiguous/increasing"));
                    }
                }
            }
            TraceEv::GemvBias { col_start, col_end } => {
                gemv.push((*col_start, 1, 0, format!("b,{col_start},{col_end}")));
            }
        }
    }
    if !calls.is_empty() && !gemv.is_empty() {
        fail = Some("both gemm and gemv kernel calls in one gemm".into());
    }
    if !gemv.is_empty() {
        gemv.sort();
        return (format!("gemv {}", hcommon::join(gemv.iter().map(|g| g.3.clone()), ";")), fail);
    }
    if calls.is_empty() {
        return ("none".into(), fail);
    }
    // per tile: depth ranges contiguous and increasing in execution order
    let mut by_tile = calls.clone();
    by_tile.sort_by_key(|c| (c.0, c.1, c.8));
    for w in by_tile.windows(2) {
        if w[0].0 == w[1].0 && w[0].1 == w[1].1 && w[0].5 != w[1].4 {
            fail = Some(format!("tile ({},{}) depth blocks not executed in contiguous increasing order: [{},{}) then [{},{})",
                w[0].0, w[0].1, w[0].4, w[0].5, w[1].4, w[1].5));
        }
    }
    calls.sort_by_key(|c| (c.0, c.1, c.4, c.8));
    let s = hcommon::join(
        calls.iter().map(|c| format!("{},{},{},{},{},{},{},{}", c.0, c.1, c.2, c.3, c.4, c.5, c.6, c.7 as u8)),
        ";",
    );
    (format!("gemm {s}"), fail)
}

struct Data {
    a: Vec<f32>,    // m × ka row-major
    b: Vec<f32>,    // kb × n row-major
    c0: Vec<f32>,   // out_len
    bias: Vec<f32>, // bias len
    za: Vec<f32>,
    zb: Vec<f32>,
}

fn gen_data(rng: &mut Rng, cs: &Case) -> Data {
    let blen = match cs.bias {
        BiasKind::None => 0,
        BiasKind::Row(l) | BiasKind::Col(l) => l,
    };
    let mut gen = |n: usize, lim: i64| -> Vec<f32> {
        (0..n)
            .map(|_| {
                if cs.int_mode {
                    rng.range_i64(-lim, lim) as f32
                } else {
                    (rng.f32_unit() - 0.5) * 4.0
                }
            })
            .collect()
    };
    Data {
        a: gen(cs.m * cs.ka, 7),
        b: gen(cs.kb * cs.n, 7),
        c0: gen(cs.out_len, 50),
        bias: gen(blen, 99),
        za: gen(cs.a_quant.unwrap_or(0), 3),
        zb: gen(cs.b_quant.unwrap_or(0), 3),
    }
}

fn int_list(xs: &[f32]) -> String {
    hcommon::join(xs.iter().map(|x| *x as i64), ",")
}

struct RunOut {
    /// Ok(output) or error name
    result: Result<Vec<f32>, String>,
    trace: Vec<TraceEv>,
}

/// Run the real GEMM once. `prior`: initial content of the output buffer.
fn run_impl(kerns: &[Kern], cs: &Case, d: &Data, prior: &[f32]) -> Result<RunOut, String> {
    // prepack_a / prepack_b run outside the inner catch: a panic there is an observable too.
    match hcommon::catch(|| run_impl_inner(kerns, cs, d, prior)) {
        Ok(r) => r,
        Err(p) => {
            let _ = verif::trace_take();
            Err(format!("(while preparing inputs) {p}"))
        }
    }
}

fn run_impl_inner(kerns: &[Kern], cs: &Case, d: &Data, prior: &[f32]) -> Result<RunOut, String> {
    let kern = &kerns[cs.kern];
    let (abuf, ars, acs) = lay_out(&d.a, cs.m, cs.ka, if let AIn::Unpacked(l) = cs.a_in { l } else { 0 }, 777.0);
    let (bbuf, brs, bcs) = lay_out(&d.b, cs.kb, cs.n, if let BIn::Unpacked(l) = cs.b_in { l } else { 0 }, -555.0);
    let a_view = view(&abuf, cs.m, cs.ka, ars, acs);
    let b_view = view(&bbuf, cs.kb, cs.n, brs, bcs);
    let packed_a: Option<PackedAMatrix<f32>> = match cs.a_in {
        AIn::Packed(k) => Some(kerns[k].exec.prepack_a(a_view)),
        _ => None,
    };
    let packed_b: Option<PackedBMatrix<f32>> = match cs.b_in {
        BIn::Packed(k) => Some(kerns[k].exec.prepack_b(b_view)),
        _ => None,
    };
    // im2col image: [kb, h, w] with h*w = n, stored with padded strides.
    let (ih, iw) = if cs.n % 3 == 0 && cs.n > 0 { (3, cs.n / 3) } else { (1, cs.n) };
    let (img_buf, img_strides) = {
        let ws = 2usize;
        let hs = iw * ws + 1;
        let chs = ih * hs + 2;
        let mut buf = vec![333.0f32; cs.kb * chs + 4];
        for k in 0..cs.kb {
            for j in 0..cs.n {
                buf[k * chs + (j / iw.max(1)) * hs + (j % iw.max(1)) * ws] = d.b[k * cs.n + j];
            }
        }
        (buf, [chs, hs, ws])
    };
    let im2col = if cs.b_in == BIn::Im2Col {
        let img = NdTensorView::from_data_with_strides([cs.kb, ih, iw], &img_buf[..], img_strides).expect("img layout");
        Some(build_im2col(img, kern.exec.im2col_col_count_step(), kern.exec.im2col_row_count_step()))
    } else {
        None
    };
    let a_input = match &packed_a {
        Some(p) => GemmInputA::Packed(p),
        None => GemmInputA::Unpacked(a_view),
    };
    let b_input = match (&packed_b, &im2col) {
        (Some(p), _) => GemmInputB::Packed(p),
        (_, Some(im)) => GemmInputB::Im2Col(im),
        _ => GemmInputB::Unpacked(b_view),
    };
    let bias = match cs.bias {
        BiasKind::None => None,
        BiasKind::Row(_) => Some(BiasVector::Row(&d.bias[..])),
        BiasKind::Col(_) => Some(BiasVector::Column(&d.bias[..])),
    };
    let a_quant = cs.a_quant.map(|_| QuantParams { zero_point: &d.za[..] });
    let b_quant = cs.b_quant.map(|_| QuantParams { zero_point: &d.zb[..] });
    let mut out: Vec<f32> = prior.to_vec();
    let (alpha, beta, api) = (cs.alpha, cs.beta, cs.api);
    let exec = &kern.exec;
    let threads = cs.threads;
    verif::trace_start();
    let res = hcommon::catch(|| {
        pool(threads).install(|| match api {
            Api::Gemm => exec
                .gemm(&mut out, a_input, b_input, GemmOptions { alpha, beta, bias, a_quant, b_quant })
                .map(|_| ()),
            Api::Uninit => {
                let uninit: &mut [MaybeUninit<f32>] =
                    unsafe { std::mem::transmute::<&mut [f32], &mut [MaybeUninit<f32>]>(&mut out[..]) };
                exec.gemm_uninit(uninit, a_input, b_input, GemmUninitOptions { alpha, bias, a_quant, b_quant })
                    .map(|_| ())
            }
        })
    });
    let trace = verif::trace_take();
    match res {
        Err(p) => Err(p),
        Ok(Ok(())) => Ok(RunOut { result: Ok(out), trace }),
        Ok(Err(e)) => Ok(RunOut { result: Err(format!("err:{e:?}")), trace }),
    }
}

fn header(kerns: &[Kern], cs: &Case, b_row_stride1: bool) -> String {
    let k = &kerns[cs.kern];
    let bias = match cs.bias {
        BiasKind::None => "n".to_string(),
        BiasKind::Row(l) => format!("r{l}"),
        BiasKind::Col(l) => format!("c{l}"),
    };
    let pk = |i: usize| format!("p:{}:{}:{}", kerns[i].id, kerns[i].mr, kerns[i].nr);
    let a_in = match cs.a_in {
        AIn::Unpacked(_) => "u".to_string(),
        AIn::Packed(i) => pk(i),
    };
    let b_in = match cs.b_in {
        BIn::Unpacked(_) => "u".to_string(),
        BIn::Packed(i) => pk(i),
        BIn::Im2Col => "o".to_string(),
    };
    let q = |l: Option<usize>| l.map(|l| format!("q{l}")).unwrap_or("n".to_string());
    format!(
        "{} {} {} {} {} {} {} {} {} {} {} {} {} {} {}",
        k.id, k.mr, k.nr, cs.threads, cs.m, cs.ka, cs.kb, cs.n, cs.out_len, bias, a_in, b_in, b_row_stride1 as u8,
        q(cs.a_quant), q(cs.b_quant)
    )
}

fn shape_ok(cs: &Case) -> bool {
    let bias_ok = match cs.bias {
        BiasKind::None => true,
        BiasKind::Row(l) => l == cs.n,
        BiasKind::Col(l) => l == cs.m,
    };
    let quant_ok = cs.a_quant.map(|l| l == cs.m).unwrap_or(true) && cs.b_quant.map(|l| l == cs.n).unwrap_or(true);
    cs.ka == cs.kb && bias_ok && quant_ok && cs.out_len == cs.m * cs.n
}

/// Is the request valid (so that neither an error nor a panic is acceptable)?
fn valid(cs: &Case) -> bool {
    let pk_ok = match cs.a_in {
        AIn::Packed(k) => k == cs.kern,
        _ => true,
    } && match cs.b_in {
        BIn::Packed(k) => k == cs.kern,
        _ => true,
    };
    shape_ok(cs) && pk_ok
}

/// Naive f64 reference + tolerance check. Returns a failure description.
fn check_numeric(cs: &Case, d: &Data, prior_used: &[f32], got: &[f32]) -> Option<String> {
    let (m, n, k) = (cs.m, cs.n, cs.ka);
    let beta = if cs.api == Api::Uninit { 0.0 } else { cs.beta };
    for r in 0..m {
        for c in 0..n {
            let mut acc = 0f64;
            let mut mag = 0f64;
            for kk in 0..k {
                let p = d.a[r * k + kk] as f64 * d.b[kk * n + c] as f64;
                acc += p;
                mag += p.abs();
            }
            let bias = match cs.bias {
                BiasKind::None => 0.0,
                BiasKind::Row(_) => d.bias[c] as f64,
                BiasKind::Col(_) => d.bias[r] as f64,
            };
            let prior = if beta == 0.0 { 0.0 } else { prior_used[r * n + c] as f64 };
            let exp = cs.alpha as f64 * acc + beta as f64 * prior + bias;
            let mag = (cs.alpha as f64).abs() * mag + (beta as f64 * prior).abs() + bias.abs();
            let g = got[r * n + c];
            if g.to_bits() == SENTINEL {
                return Some(format!("output element ({r},{c}) was never written"));
            }
            let tol = if cs.int_mode { 0.0 } else { (k as f64 + 8.0) * 1.2e-7 * mag + 1e-30 };
            if !((g as f64 - exp).abs() <= tol) {
                return Some(format!(
                    "output ({r},{c}) = {g} but alpha*A*B + beta*C + bias = {exp} (tolerance {tol:e})"
                ));
            }
        }
    }
    None
}

fn run_case(out: &mut Out, kerns: &[Kern], rng: &mut Rng, cs: &Case) {
    if std::env::var("H_LOUD").is_ok() {
        eprintln!("case {cs:?}");
    }
    let d = gen_data(rng, cs);
    let kern = &kerns[cs.kern];
    let eff_beta = if cs.api == Api::Uninit { 0.0 } else { cs.beta };
    // Prior output contents: values when beta != 0, sentinel NaNs when beta == 0.
    let sentinel = f32::from_bits(SENTINEL);
    let prior: Vec<f32> = if eff_beta == 0.0 { vec![sentinel; cs.out_len] } else { d.c0.clone() };
    let b_lay = if let BIn::Unpacked(l) = cs.b_in { l } else { 0 };
    let b_row_stride1 = strides_for(cs.kb, cs.n, b_lay).0 == 1;
    let hdr = header(kerns, cs, b_row_stride1);
    let bc = beta_class(eff_beta == 0.0, eff_beta == 1.0);
    let sched_req = format!("sched {bc} {hdr}");
    out.bucket(&format!("kernel={}", kern.name));
    out.bucket(&format!("tag={}", cs.tag));
    out.bucket(&format!("threads={}", cs.threads));
    out.bucket(if cs.int_mode { "values=int" } else { "values=real" });
    out.bucket(&format!("alpha={} beta={}", cs.alpha, eff_beta));
    out.bucket(match cs.bias { BiasKind::None => "bias=none", BiasKind::Row(_) => "bias=row", BiasKind::Col(_) => "bias=col" });
    out.bucket(&format!("a_in={}", match cs.a_in { AIn::Unpacked(l) => format!("unpacked/lay{l}"), AIn::Packed(_) => "prepacked".into() }));
    out.bucket(&format!("b_in={}", match cs.b_in { BIn::Unpacked(l) => format!("unpacked/lay{l}"), BIn::Packed(_) => "prepacked".into(), BIn::Im2Col => "im2col".into() }));
    out.bucket(if cs.api == Api::Uninit { "api=gemm_uninit" } else { "api=gemm" });
    if cs.a_quant.is_some() || cs.b_quant.is_some() {
        out.bucket("quant-params=passed");
    }
    let is_valid = valid(cs);
    let run = run_impl(kerns, cs, &d, &prior);
    let run = match run {
        Err(p) => {
            out.case(&sched_req, &format!("panic:{p}"), Some(&format!("gemm panicked: {p}")), true);
            return;
        }
        Ok(r) => r,
    };
    let (trace_s, trace_fail) = canon_trace(&run.trace);
    let mut fail: Option<String> = trace_fail;
    match &run.result {
        Err(e) => {
            if is_valid && fail.is_none() {
                fail = Some(format!("valid request rejected with {e}"));
            }
            out.bucket("outcome=error");
            out.case(&sched_req, e, fail.as_deref(), true);
            if cs.int_mode {
                let c_s = if eff_beta == 0.0 { "u".to_string() } else { int_list(&d.c0) };
                let req = format!("gemm {hdr} {} {} | {} | {} | {} | {}", cs.alpha as i64, eff_beta as i64,
                    int_list(&d.a), int_list(&d.b), c_s, int_list(&d.bias));
                out.case(&req, e, None, true);
            }
        }
        Ok(got) => {
            if !shape_ok(cs) {
                fail = fail.or(Some("invalid request (size mismatch) was accepted".into()));
            } else {
                if fail.is_none() {
                    fail = check_numeric(cs, &d, &prior, got);
                }
                // beta = 0: different prior contents must give bit-identical output.
                if fail.is_none() && eff_beta == 0.0 {
                    let prior2: Vec<f32> = (0..cs.out_len).map(|i| if i % 2 == 0 { f32::INFINITY } else { -3.0e38 }).collect();
                    match run_impl(kerns, cs, &d, &prior2) {
                        Ok(RunOut { result: Ok(got2), .. }) => {
                            if got.iter().zip(&got2).any(|(x, y)| x.to_bits() != y.to_bits()) {
                                fail = Some("beta = 0 but the result depends on prior output contents".into());
                            }
                        }
                        Ok(RunOut { result: Err(e), .. }) => fail = Some(format!("second run failed: {e}")),
                        Err(p) => fail = Some(format!("second run panicked: {p}")),
                    }
                }
            }
            out.bucket("outcome=ok");
            let nontrivial = cs.m > 0 && cs.n > 0;
            out.case(&sched_req, &trace_s, fail.as_deref(), nontrivial);
            if cs.int_mode {
                let c_s = if eff_beta == 0.0 { "u".to_string() } else { int_list(&d.c0) };
                let req = format!("gemm {hdr} {} {} | {} | {} | {} | {}", cs.alpha as i64, eff_beta as i64,
                    int_list(&d.a), int_list(&d.b), c_s, int_list(&d.bias));
                let exact = got.iter().take(cs.m * cs.n).all(|x| x.fract() == 0.0 && x.abs() < 1.6e7);
                let ans = if exact {
                    format!("ok {}", int_list(&got[..cs.m * cs.n]))
                } else {
                    "non-integer-output".to_string()
                };
                out.case(&req, &ans, None, nontrivial);
            } else {
                out.case(&format!("# float {hdr} alpha={} beta={}", cs.alpha, eff_beta), "checked", None, false);
            }
        }
    }
}

/// Batched API: members may have mismatched shapes.
fn run_batch(out: &mut Out, kerns: &[Kern], rng: &mut Rng, kern: usize, shapes: &[(usize, usize, usize)], out_len: usize, tag: &str) {
    let exec = &kerns[kern].exec;
    let mats: Vec<(Vec<f32>, Vec<f32>)> = shapes
        .iter()
        .map(|&(m, k, n)| {
            ((0..m * k).map(|_| rng.range_i64(-5, 5) as f32).collect(), (0..k * n).map(|_| rng.range_i64(-5, 5) as f32).collect())
        })
        .collect();
    let a_views: Vec<_> = shapes.iter().zip(&mats).map(|(&(m, k, _), (a, _))| view(a, m, k, k.max(1), 1)).collect();
    let b_views: Vec<_> = shapes.iter().zip(&mats).map(|(&(_, k, n), (_, b))| view(b, k, n, n.max(1), 1)).collect();
    let a_in: Vec<_> = a_views.iter().map(|v| GemmInputA::Unpacked(*v)).collect();
    let b_in: Vec<_> = b_views.iter().map(|v| GemmInputB::Unpacked(*v)).collect();
    let mut buf = vec![f32::from_bits(SENTINEL); out_len];
    let req = format!("# batch kern={} shapes={:?} out_len={out_len} {tag}", kerns[kern].name, shapes);
    out.bucket(&format!("batch={tag}"));
    let res = hcommon::catch(|| {
        let uninit: &mut [MaybeUninit<f32>] = unsafe { std::mem::transmute::<&mut [f32], &mut [MaybeUninit<f32>]>(&mut buf[..]) };
        exec.batched_gemm_uninit(uninit, &a_in, &b_in, GemmUninitOptions::default()).map(|_| ())
    });
    // Expected: all members same shape (m,k,n) and out_len = batch*m*n => Ok with exact results.
    let uniform = shapes.windows(2).all(|w| w[0] == w[1]);
    let expect_ok = uniform && out_len == shapes.len() * shapes.first().map(|s| s.0 * s.2).unwrap_or(0);
    let (ans, fail) = match res {
        Err(p) => (format!("panic:{p}"), Some(format!("batched_gemm_uninit panicked: {p}"))),
        Ok(Err(e)) => (format!("err:{e:?}"), if expect_ok { Some(format!("valid batch rejected: {e:?}")) } else { None }),
        Ok(Ok(())) => {
            let mut fail = None;
            if !expect_ok {
                // accepted although members mismatch: every member's result must still be right
                // and inside its own slot -- otherwise report.
                let stride = shapes.first().map(|s| s.0 * s.2).unwrap_or(0);
                for (i, &(m, _, n)) in shapes.iter().enumerate() {
                    if m * n != stride {
                        fail = Some(format!("mismatched batch member {i} accepted"));
                    }
                }
            }
            if fail.is_none() {
                let stride = shapes.first().map(|s| s.0 * s.2).unwrap_or(0);
                'outer: for (i, (&(m, k, n), (a, b))) in shapes.iter().zip(&mats).enumerate() {
                    for r in 0..m {
                        for c in 0..n {
                            let exp: f64 = (0..k).map(|kk| a[r * k + kk] as f64 * b[kk * n + c] as f64).sum();
                            let g = buf[i * stride + r * n + c];
                            if g.to_bits() == SENTINEL || g as f64 != exp {
                                fail = Some(format!("batch member {i} output ({r},{c}) = {g}, expected {exp}"));
                                break 'outer;
                            }
                        }
                    }
                }
            }
            ("ok".to_string(), fail)
        }
    };
    out.case(&req, &ans, fail.as_deref(), true);
}

/// T3 tie: run the real `packing::pack_a_block::<f32, MR>` / `pack_b_block::<f32, NR>` on an
/// index-valued matrix (element (r, c) holds r*cols + c + 1, padding is 0) stored with one of the
/// five layouts, for the block `rows [rs, re) × cols [cs, ce)`, and print the slots in block
/// coordinates plus the offset at which every block element was found.
fn run_pack(out: &mut Out, kind: char, t: usize, mat: (usize, usize), lay: u8, rs: usize, re: usize, cs: usize, ce: usize) {
    let (mr_, mc_) = mat;
    let data: Vec<f32> = (0..mr_ * mc_).map(|i| (i + 1) as f32).collect();
    let (buf, rstr, cstr) = lay_out(&data, mr_, mc_, lay, -1.0);
    let v = view(&buf, mr_, mc_, rstr, cstr);
    let (rows, cols) = (re - rs, ce - cs);
    let req = format!("pack {kind} {t} {rows} {cols} mat={mr_}x{mc_} lay={lay} strides={rstr},{cstr} rs={rs} cs={cs}");
    out.bucket(&format!("pack {kind} t={t}"));
    out.bucket(&format!("pack {kind} lay={lay}"));
    let res = hcommon::catch(|| {
        if kind == 'a' { verif::pack_a_block_f32(t, v, rs..re, cs..ce) } else { verif::pack_b_block_f32(t, v, rs..re, cs..ce) }
    });
    let (packed, size_bytes, stride_bytes) = match res {
        Err(p) => {
            out.case(&req, &format!("panic:{p}"), Some(&format!("pack_{kind}_block panicked: {p}")), true);
            return;
        }
        Ok(None) => {
            out.case(&format!("# {req}"), "no-instantiation", None, false);
            return;
        }
        Ok(Some(x)) => x,
    };
    let slot = |x: f32| -> String {
        if x == 0.0 {
            return "_".into();
        }
        let idx = x as i64 - 1;
        if x.fract() != 0.0 || idx < 0 || idx as usize >= mr_ * mc_ {
            return format!("bad({x})");
        }
        let (r, c) = (idx as usize / mc_, idx as usize % mc_);
        if r < rs || r >= re || c < cs || c >= ce {
            return format!("outside({r}.{c})");
        }
        format!("{}.{}", r - rs, c - cs)
    };
    let slots = hcommon::join(packed.iter().map(|x| slot(*x)), ",");
    let mut offs = vec![];
    for r in rs..re {
        for c in cs..ce {
            let want = (r * mc_ + c + 1) as f32;
            offs.push(match packed.iter().position(|x| *x == want) {
                Some(p) => p.to_string(),
                None => "missing".to_string(),
            });
        }
    }
    // independent oracle: naive loops over (panel, lane, k)
    let mut expect: Vec<f32> = vec![];
    if kind == 'a' {
        for p in 0..rows.div_ceil(t) {
            for j in 0..t {
                for c in 0..cols {
                    let r = p * t + j;
                    expect.push(if r < rows { ((rs + r) * mc_ + cs + c + 1) as f32 } else { 0.0 });
                }
            }
        }
    } else {
        for p in 0..cols.div_ceil(t) {
            for r in 0..rows {
                for j in 0..t {
                    let c = p * t + j;
                    expect.push(if c < cols { ((rs + r) * mc_ + cs + c + 1) as f32 } else { 0.0 });
                }
            }
        }
    }
    let mut fail = None;
    if expect != packed {
        let at = expect.iter().zip(&packed).position(|(a, b)| a != b);
        fail = Some(format!("packed block differs from the panel layout (len {} vs {}, first difference at slot {:?})", packed.len(), expect.len(), at));
    } else if size_bytes != packed.len() * 4 {
        fail = Some("layout size does not match the packed length".to_string());
    }
    let ans = format!("len={} stride={} slots={} off={}", packed.len(), stride_bytes / 4, slots, offs.join(","));
    out.case(&req, &ans, fail.as_deref(), true);
}

/// Stride tie: storage is offset-valued (`storage[i] = i + 1`), the view has the strides of the
/// chosen layout; the packed values are therefore the storage offsets the real packers read.
fn run_packsrc(out: &mut Out, kind: char, t: usize, mat: (usize, usize), lay: u8, rs: usize, re: usize, cs: usize, ce: usize) {
    let (mr_, mc_) = mat;
    let (rstr, cstr) = strides_for(mr_, mc_, lay);
    let len = (mr_ - 1) * rstr + (mc_ - 1) * cstr + 1;
    let buf: Vec<f32> = (0..len + 2).map(|i| (i + 1) as f32).collect();
    let v = view(&buf, mr_, mc_, rstr, cstr);
    let req = format!("packsrc {kind} {t} {rstr} {cstr} {rs} {re} {cs} {ce} mat={mr_}x{mc_} lay={lay}");
    out.bucket(&format!("packsrc {kind} lay={lay}"));
    let res = hcommon::catch(|| {
        if kind == 'a' { verif::pack_a_block_f32(t, v, rs..re, cs..ce) } else { verif::pack_b_block_f32(t, v, rs..re, cs..ce) }
    });
    match res {
        Err(p) => out.case(&req, &format!("panic:{p}"), Some(&format!("pack_{kind}_block panicked: {p}")), true),
        Ok(None) => out.case(&format!("# {req}"), "no-instantiation", None, false),
        Ok(Some((packed, _, _))) => {
            let ans = hcommon::join(packed.iter().map(|x| if *x == 0.0 { "_".to_string() } else { ((*x as i64) - 1).to_string() }), ",");
            // independent oracle: every offset read must be the strided address of a block element
            let mut fail = None;
            for x in &packed {
                if *x != 0.0 {
                    let o = (*x as usize) - 1;
                    let ok = (rs..re).any(|r| (cs..ce).any(|c| r * rstr + c * cstr == o));
                    if !ok {
                        fail = Some(format!("storage offset {o} read, which is not an element of the block"));
                        break;
                    }
                }
            }
            out.case(&req, &ans, fail.as_deref(), true);
        }
    }
}

/// Prepacked block lookup tie: `prepack_a` / `prepack_b` of an index-valued operand with a real
/// kernel, then `PackedMatrixBase::block` (verif hook) for every block of size `bs` and every
/// depth block: span (start, len, stride) in elements, total length and the buffer contents.
fn run_pblock(out: &mut Out, kerns: &[Kern], kind: char, kern: usize, nm: usize, k: usize, bs_mult: usize, lay: u8) {
    let kr = &kerns[kern];
    let t = if kind == 'a' { kr.mr } else { kr.nr };
    let bs = bs_mult * t;
    let req = format!("pblock {kind} {t} {nm} {k} {bs} kern={} lay={lay}", kr.name);
    out.bucket(&format!("pblock {kind} kern={}", kr.name));
    let kc = k.min(256).max(1);
    let n_depth = k.div_ceil(kc);
    out.bucket(&format!("pblock depth-blocks={n_depth} tail={}", k % kc != 0));
    let res = hcommon::catch(|| {
        let (rows, cols) = if kind == 'a' { (nm, k) } else { (k, nm) };
        let data: Vec<f32> = (0..rows * cols).map(|i| (i + 1) as f32).collect();
        let (buf, rstr, cstr) = lay_out(&data, rows, cols, lay, -1.0);
        let v = view(&buf, rows, cols, rstr, cstr);
        let mut spans = vec![];
        let (bytes, total): (Vec<u8>, usize);
        if kind == 'a' {
            let pm = kr.exec.prepack_a(v);
            for i in 0..nm.div_ceil(bs) {
                for idx in 0..n_depth {
                    let (st, len, ps, _) = pm.verif_block_span(i * bs..(i * bs + bs).min(nm), idx);
                    spans.push(format!("{},{},{}", st / 4, len / 4, ps / 4));
                }
            }
            bytes = pm.verif_bytes().to_vec();
            total = bytes.len() / 4;
        } else {
            let pm = kr.exec.prepack_b(v);
            for i in 0..nm.div_ceil(bs) {
                for idx in 0..n_depth {
                    let (st, len, ps, _) = pm.verif_block_span(i * bs..(i * bs + bs).min(nm), idx);
                    spans.push(format!("{},{},{}", st / 4, len / 4, ps / 4));
                }
            }
            bytes = pm.verif_bytes().to_vec();
            total = bytes.len() / 4;
        }
        let vals: Vec<i64> = bytes.chunks_exact(4).map(|c| f32::from_le_bytes([c[0], c[1], c[2], c[3]]) as i64).collect();
        format!("total={total} spans={} buf={}", spans.join(";"), hcommon::join(vals.iter(), ","))
    });
    match res {
        Ok(ans) => out.case(&req, &ans, None, true),
        Err(p) => out.case(&req, &format!("panic:{p}"), Some(&format!("prepack/block panicked: {p}")), true),
    }
}

fn pick_dim(rng: &mut Rng, max: usize, specials: &[usize]) -> usize {
    match rng.below(10) {
        0 => 0,
        1 => 1,
        2 | 3 => {
            let s = *rng.pick(specials);
            let d = rng.range_i64(-1, 1);
            ((s as i64 + d).max(0) as usize).min(max.max(s + 1))
        }
        4 | 5 => rng.usize_below(17),
        _ => rng.usize_below(max + 1),
    }
}

fn main() {
    let args: Args = hcommon::parse_args();
    if std::env::var("H_LOUD").is_err() {
        hcommon::quiet_panics();
    }
    let mut out = Out::new(&args.out);
    let mut rng = Rng::new(args.seed);
    let kerns: Vec<Kern> = verif::f32_gemm_executors()
        .into_iter()
        .enumerate()
        .map(|(i, (name, mr, nr, exec))| Kern { id: i + 1, name, mr, nr, exec })
        .collect();
    out.note(&format!(
        "f32 kernels on this host: {}",
        hcommon::join(kerns.iter().map(|k| format!("{}(mr={},nr={})", k.name, k.mr, k.nr)), ", ")
    ));
    let max_dim = if args.thorough { 300 } else { 150 };
    let n_random = if args.thorough { 30000 } else { 4000 };
    let alphas = [0.0f32, 1.0, -1.0, 0.5];
    let betas = [0.0f32, 1.0, -1.0, 0.5];
    let int_alphas = [0.0f32, 1.0, -1.0, 2.0, -3.0];
    let int_betas = [0.0f32, 0.0, 1.0, -1.0, 2.0];
    let row_specials = [6, 8, 12, 16, 48, 64, 66, 72, 128];
    let col_specials = [4, 16, 32, 64, 96, 128, 144];
    let depth_specials = [4, 8, 16, 64, 128];

    // 1. exhaustive tiny shapes (every kernel): M,N,K in 0..=3 x boundary features.
    for kern in 0..kerns.len() {
        for m in 0..=3 {
            for n in 0..=3 {
                for k in 0..=3 {
                    for (bi, beta) in [0.0f32, 2.0].iter().enumerate() {
                        let bias = match (m + n + k + bi) % 3 {
                            0 => BiasKind::None,
                            1 => BiasKind::Row(n),
                            _ => BiasKind::Col(m),
                        };
                        let cs = Case { kern, threads: 1, m, ka: k, kb: k, n, out_len: m * n, bias, a_quant: None, b_quant: None,
                            a_in: AIn::Unpacked(((m + k) % 5) as u8), b_in: BIn::Unpacked(((n + k) % 5) as u8),
                            alpha: -3.0, beta: *beta, int_mode: true, api: Api::Gemm, tag: "tiny-exhaustive" };
                        run_case(&mut out, &kerns, &mut rng, &cs);
                    }
                }
            }
        }
    }

    // 2. random cases.
    for i in 0..n_random {
        let kern = rng.usize_below(kerns.len());
        let int_mode = rng.chance(1, 2);
        let big = rng.chance(1, 12); // cross block boundaries: K > 256, N > 128 (threads > 1), M > 64
        let (mut m, mut k, mut n);
        if big {
            m = pick_dim(&mut rng, 40, &row_specials);
            n = pick_dim(&mut rng, 40, &col_specials);
            k = pick_dim(&mut rng, 40, &depth_specials);
            match rng.below(4) {
                0 => k = *rng.pick(&[255usize, 256, 257, 300, 511, 512, 513, 520, 600, 770]),
                1 => n = *rng.pick(&[127usize, 128, 129, 255, 256, 257, 300, 1023, 1024, 1025, 1040]),
                2 => m = *rng.pick(&[63usize, 64, 65, 66, 127, 128, 129, 200]),
                _ => {
                    k = *rng.pick(&[257usize, 300, 513]);
                    m = *rng.pick(&[65usize, 70, 129]);
                    n = *rng.pick(&[129usize, 260]);
                }
            }
            if n > 600 {
                m = m.min(9);
                k = k.min(20);
            }
        } else {
            m = pick_dim(&mut rng, max_dim, &row_specials);
            n = pick_dim(&mut rng, max_dim, &col_specials);
            k = pick_dim(&mut rng, max_dim, &depth_specials);
        }
        if rng.chance(1, 6) {
            m = 1; // vector-matrix fast path
        }
        // keep exact (Lean-evaluated) cases affordable
        if int_mode && m * n * (k + 30) > 600_000 {
            if rng.chance(1, 2) { m = m.min(12) } else { n = n.min(20) }
            if m * n * (k + 30) > 600_000 { k = k.min(64) }
        }
        let threads = *rng.pick(&[1usize, 1, 1, 2, 3, 4, 8]);
        let mut cs = Case {
            kern, threads, m, ka: k, kb: k, n, out_len: m * n,
            bias: match rng.below(3) { 0 => BiasKind::None, 1 => BiasKind::Row(n), _ => BiasKind::Col(m) },
            a_quant: if rng.chance(1, 10) { Some(m) } else { None },
            b_quant: if rng.chance(1, 10) { Some(n) } else { None },
            a_in: if rng.chance(1, 5) { AIn::Packed(kern) } else { AIn::Unpacked(rng.below(5) as u8) },
            b_in: match rng.below(8) { 0 => BIn::Packed(kern), 1 => BIn::Im2Col, _ => BIn::Unpacked(rng.below(5) as u8) },
            alpha: if int_mode { *rng.pick(&int_alphas) } else { *rng.pick(&alphas) },
            beta: if int_mode { *rng.pick(&int_betas) } else { *rng.pick(&betas) },
            int_mode,
            api: if rng.chance(1, 6) { Api::Uninit } else { Api::Gemm },
            tag: if big { "random-big" } else { "random" },
        };
        if cs.b_in == BIn::Im2Col && (cs.kb == 0 || cs.n == 0) {
            cs.b_in = BIn::Unpacked(0); // an image with a zero-sized axis cannot be described
        }
        // malformed requests
        if rng.chance(1, 25) {
            cs.tag = "malformed";
            match rng.below(7) {
                5 => cs.a_quant = Some(cs.m + 1 + rng.usize_below(2)),
                6 => cs.b_quant = Some((cs.n + 2).saturating_sub(1 + 2 * rng.usize_below(2))),
                0 => cs.kb = cs.ka + 1 + rng.usize_below(2),
                1 => cs.out_len = (cs.m * cs.n + 1 + rng.usize_below(3)).saturating_sub(rng.usize_below(3) * 2),
                2 => cs.bias = BiasKind::Row(cs.n + 1),
                3 => cs.bias = BiasKind::Col(cs.m.saturating_sub(1) + 2 * (i % 2)),
                _ => {
                    if kerns.len() > 1 {
                        let other = (kern + 1 + rng.usize_below(kerns.len() - 1)) % kerns.len();
                        if rng.chance(1, 2) { cs.a_in = AIn::Packed(other) } else { cs.b_in = BIn::Packed(other) }
                    }
                }
            }
            if cs.b_in == BIn::Im2Col && cs.kb == 0 {
                cs.b_in = BIn::Unpacked(0);
            }
        }
        run_case(&mut out, &kerns, &mut rng, &cs);
    }

    // 2b. packing (T3 tie): every tile size of the kernels on this host plus odd ones.
    let n_pack = if args.thorough { 20000 } else { 3000 };
    for _ in 0..n_pack {
        let kind = if rng.chance(1, 2) { 'a' } else { 'b' };
        let t = if kind == 'a' { *rng.pick(&[1usize, 2, 3, 4, 5, 6, 6, 7, 8, 8]) } else { *rng.pick(&[1usize, 2, 3, 4, 4, 5, 8, 16, 16, 32, 32]) };
        let (rows, cols) = if kind == 'a' {
            (1 + rng.usize_below(3 * t + 2), 1 + rng.usize_below(20))
        } else {
            (1 + rng.usize_below(20), 1 + rng.usize_below(if t >= 16 { 2 * t + 3 } else { 3 * t + 3 }))
        };
        let rs = if rng.chance(1, 2) { 0 } else { rng.usize_below(6) };
        let cs = if rng.chance(1, 2) { 0 } else if kind == 'b' && rng.chance(1, 2) { t * (1 + rng.usize_below(2)) } else { rng.usize_below(7) };
        let mat = (rs + rows + rng.usize_below(3), cs + cols + rng.usize_below(3));
        run_pack(&mut out, kind, t, mat, rng.below(5) as u8, rs, rs + rows, cs, cs + cols);
        if rng.chance(1, 2) {
            run_packsrc(&mut out, kind, t, mat, rng.below(5) as u8, rs, rs + rows, cs, cs + cols);
        }
    }

    // 2c. prepacked block lookup (K around / beyond the depth block so that a short tail block exists).
    let n_pblock = if args.thorough { 400 } else { 80 };
    for _ in 0..n_pblock {
        let kind = if rng.chance(1, 2) { 'a' } else { 'b' };
        let kern = rng.usize_below(kerns.len());
        let t = if kind == 'a' { kerns[kern].mr } else { kerns[kern].nr };
        let nm = 1 + rng.usize_below(3 * t + 2);
        let k = match rng.below(4) {
            0 => 1 + rng.usize_below(40),
            1 => *rng.pick(&[255usize, 256, 257, 258]),
            2 => 257 + rng.usize_below(300),
            _ => *rng.pick(&[511usize, 512, 513, 520, 600]),
        };
        let k = if nm * k > 12000 { k.min(300) } else { k };
        run_pblock(&mut out, &kerns, kind, kern, nm, k, 1 + rng.usize_below(3), rng.below(5) as u8);
    }

    // 3. batched calls.
    let n_batch = if args.thorough { 1500 } else { 250 };
    for _ in 0..n_batch {
        let kern = rng.usize_below(kerns.len());
        let bsz = rng.usize_below(5);
        let base = (pick_dim(&mut rng, 20, &[6, 8]), pick_dim(&mut rng, 20, &[4, 8]), pick_dim(&mut rng, 40, &[16, 32]));
        let mut shapes = vec![base; bsz];
        let mut tag = "uniform";
        if bsz >= 2 && rng.chance(1, 4) {
            let i = rng.usize_below(bsz);
            match rng.below(3) {
                0 => shapes[i].0 += 1,
                1 => shapes[i].2 += 1,
                _ => shapes[i].0 = shapes[i].0.saturating_sub(1),
            }
            tag = "mismatched-member";
        }
        let mut out_len = bsz * base.0 * base.2;
        if rng.chance(1, 10) {
            out_len += 1;
            tag = "wrong-out-len";
        }
        if bsz >= 2 && base.0 * base.2 == 0 {
            tag = "empty-members";
        }
        run_batch(&mut out, &kerns, &mut rng, kern, &shapes, out_len, tag);
    }

    out.finish("trace(gemm_block/gemv kernel calls) == model schedule; f32 result == Int model (integer cases); |result - naive f64| <= (K+8)*1.2e-7*magnitude; all elements written; beta=0 => independent of prior contents; no panic on valid input");
}
