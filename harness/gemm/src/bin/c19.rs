//! C19: accuracy and special-value behaviour of rten-vecmath's vectorised functions.
//!
//! Two kinds of lines.
//! (a) Answered by the Lean model `model_C19` (bit-level / decision logic that IS proved):
//!     `recon <k>`   the two integer-built factors (is, it) of `Exp`, READ FROM THE REAL CODE through
//!                   the cfg(rten_verif) probe in exp.rs (rten_vecmath::verif::trace_exp_factors) while
//!                   evaluating x = k·ln2, k = -260..260; oracle: Exp(x) within 1e-6 of exp(x);
//!     `rrecon <k>`  `ReducedRangeExp`'s `(k+127)<<23`, read from the real code the same way (via Erf);
//!     `kreach`      largest |k| the real range reduction produces for |x| < 104;
//!     `sel exp <v>` / `sel tanh <v>`  value class of the real `Exp` / `Tanh` at special inputs.
//! (b) `#` lines — EXHAUSTIVE / STRIDED EXECUTION, NOT PROOF: sweeps of f32 bit patterns
//!     (quick: every 256th pattern = 2^24 per function, offset derived from the seed; thorough:
//!     all 2^32) through the real ops (dispatch ISA), compared with the documented reference and
//!     bound; PROPFAIL when the bound or a special-value mapping is violated.
//!     Documented bounds (quoted in checks/C19.json): exp ≤ 1 ULP vs f32::exp; sigmoid ≤ 4 ULP vs
//!     `1/(1+(-x).exp())`; tanh ≤ 3 ULP vs f32::tanh; erf |err| ≤ 6.631017e-7 vs libm::erff;
//!     sin |err| ≤ 3e-7, cos |err| ≤ 5e-7 vs f32::sin/cos.  libm is not available to the harness:
//!     the erf reference is an own f64 implementation (series 2/√π·e^{-x²}·Σ 2^n x^{2n+1}/(2n+1)!!,
//!     all terms positive, relative error ~1e-15) rounded to f32, with 6e-8 (half an ULP at 1.0) of
//!     slack for libm::erff's own rounding.  Errors against f64 ground truth are recorded as notes.
use hcommon::{Args, Out, Rng};
use rten_simd::SimdOp;
use rten_simd::SimdUnaryOp;
use rten_vecmath as vm;
use std::mem::MaybeUninit;

fn map_op<Op: SimdUnaryOp<f32>>(op: &Op, xs: &[f32]) -> Vec<f32> {
    let mut out: Vec<MaybeUninit<f32>> = vec![MaybeUninit::new(0.0); xs.len()];
    op.map(xs, &mut out);
    out.iter().map(|x| unsafe { x.assume_init() }).collect()
}

// ------------------------------------------------------------------------------------------
// (a) model-compared lines
// ------------------------------------------------------------------------------------------

fn pow2_exp(b: u32) -> Option<i64> {
    let e = (b >> 23) & 0xff;
    if b >> 31 == 0 && b & 0x7f_ffff == 0 && (1..=254).contains(&e) {
        Some(e as i64 - 127)
    } else {
        None
    }
}
fn show_opt(o: Option<i64>) -> String {
    o.map(|x| x.to_string()).unwrap_or("none".into())
}

/// Decimal string of `m * 2^sh` (arbitrary size).
fn big_dec(m: u64, sh: u32, neg: bool) -> String {
    let mut d: Vec<u32> = vec![]; // base 1e9, little endian
    let mut m = m;
    while m > 0 {
        d.push((m % 1_000_000_000) as u32);
        m /= 1_000_000_000;
    }
    for _ in 0..sh {
        let mut c = 0u64;
        for x in d.iter_mut() {
            let v = *x as u64 * 2 + c;
            *x = (v % 1_000_000_000) as u32;
            c = v / 1_000_000_000;
        }
        if c > 0 {
            d.push(c as u32);
        }
    }
    if d.is_empty() {
        return "0".into();
    }
    let mut s = String::new();
    if neg {
        s.push('-');
    }
    s += &format!("{}", d[d.len() - 1]);
    for x in d.iter().rev().skip(1) {
        s += &format!("{:09}", x);
    }
    s
}

/// `nan|pinf|ninf|q:<x·2^149>`
fn fval(x: f32) -> String {
    if x.is_nan() {
        return "nan".into();
    }
    if x == f32::INFINITY {
        return "pinf".into();
    }
    if x == f32::NEG_INFINITY {
        return "ninf".into();
    }
    let b = x.to_bits();
    let e = (b >> 23) & 0xff;
    let m = (b & 0x7f_ffff) as u64;
    let neg = b >> 31 == 1;
    let (m, sh) = if e == 0 { (m, 0) } else { (m + (1 << 23), e - 1) };
    format!("q:{}", big_dec(m, sh, neg && m != 0))
}

fn model_lines(out: &mut Out, rng: &mut Rng, thorough: bool) {
    let exp = vm::Exp {};
    // The REAL code's integers: a cfg(rten_verif) probe inside Exp::eval / ReducedRangeExp::eval
    // records (k, is, it) resp. (k, k_pow2) per lane; x = k·ln2 steers the range reduction to k.
    let ks: Vec<i32> = (-260..=260).collect();
    let xs: Vec<f32> = ks.iter().map(|&k| (k as f64 * std::f64::consts::LN_2) as f32).collect();
    let (ys, trace) = vm::verif::trace_exp_factors(|| map_op(&exp, &xs));
    for (i, &k) in ks.iter().enumerate() {
        let (kr, is, it) = trace.get(i).copied().unwrap_or((i32::MIN, 0, 0));
        let (is, it) = (is as u32, it as u32);
        let mut fail = None;
        if kr != k {
            fail = Some(format!("range reduction of x={:e} produced k={kr}, expected {k}", xs[i]));
        }
        if (-150..=150).contains(&k) {
            let x = xs[i];
            let y = ys[i] as f64;
            let want = (x as f64).exp();
            let ok = if want > f32::MAX as f64 {
                y.is_infinite()
            } else if want < 1e-45 {
                y == 0.0 || y < 3e-45
            } else if want < 1.2e-38 {
                (y - want).abs() <= 1.5e-45
            } else {
                (y / want - 1.0).abs() < 1e-6
            };
            if !ok {
                fail = Some(format!("Exp({x:e}) = {y:e}, expected about {want:e} (2^{k} reconstruction)"));
            }
        }
        out.bucket("recon");
        out.case(
            &format!("recon {kr}"),
            &format!("is={:08x} it={:08x} e1={} e2={}", is, it, show_opt(pow2_exp(is)), show_opt(pow2_exp(it))),
            fail.as_deref(),
            k != 0,
        );
    }
    // ReducedRangeExp is crate-private; Erf feeds it -(x^2), so x = sqrt(-k ln2) steers it to k.
    let rks: Vec<i32> = (-144..=0).collect();
    let rxs: Vec<f32> = rks.iter().map(|&k| ((-(k as f64)) * std::f64::consts::LN_2).sqrt() as f32).collect();
    let (_, rtrace) = vm::verif::trace_exp_factors(|| map_op(&vm::Erf {}, &rxs));
    for (i, &k) in rks.iter().enumerate() {
        let (kr, p, _) = rtrace.get(i).copied().unwrap_or((i32::MIN, 0, 0));
        let fail = if (kr - k).abs() > 1 { Some(format!("ReducedRangeExp range reduction gave k={kr} for target {k}")) } else { None };
        out.bucket("rrecon");
        out.case(&format!("rrecon {kr}"), &format!("p={:08x} e={}", p as u32, show_opt(pow2_exp(p as u32))), fail.as_deref(), true);
    }
    // reachable k: the REAL range reduction (probe) at the largest |x| below the 104 cutoff
    {
        let below = f32::from_bits(104.0f32.to_bits() - 1);
        let (_, tr) = vm::verif::trace_exp_factors(|| map_op(&exp, &[below, -below]));
        let kmax = tr.iter().take(2).map(|t| (t.0 as i64).abs()).max().unwrap_or(-1);
        out.bucket("kreach");
        out.case("kreach", &kmax.to_string(), None, true);
    }
    // special-value table of Exp
    let mut xs: Vec<f32> = vec![
        f32::NAN, f32::INFINITY, f32::NEG_INFINITY, 0.0, -0.0, 104.0, -104.0, 105.0, -105.0, 1e30, -1e30, f32::MAX, f32::MIN,
        f32::from_bits(104.0f32.to_bits() + 1), -f32::from_bits(104.0f32.to_bits() + 1), 1e-45, -1e-45, 1.0, -1.0, 80.0, -80.0,
        f32::from_bits(0x7f800001), f32::from_bits(0xffc00000), 1000.0, -1000.0, 3.4e38, -3.4e38,
    ];
    let n = if thorough { 4000 } else { 600 };
    for _ in 0..n {
        let x = match rng.below(3) {
            0 => (rng.f32_unit() - 0.5) * 160.0,
            1 => {
                let v = 104.0 + rng.f32_unit() * 1e4;
                if rng.chance(1, 2) {
                    v
                } else {
                    -v
                }
            }
            _ => {
                let b = rng.next_u64() as u32;
                let v = f32::from_bits(b);
                if v.is_nan() || v.abs() <= 80.0 || v.abs() >= 104.0 {
                    v
                } else {
                    1.5
                }
            }
        };
        xs.push(x);
    }
    for &x in &xs {
        let y = map_op(&exp, &[x])[0];
        let cls = if y.is_nan() {
            "nan"
        } else if y == f32::INFINITY {
            "inf"
        } else if y == 0.0 {
            "zero"
        } else {
            "finite"
        };
        // independent oracle: the reference's class
        let r = x.exp();
        let fail = if r.is_nan() != y.is_nan() || (r.is_infinite() && y != r) || (r == 0.0 && y != 0.0 && x < -104.0) {
            Some(format!("Exp({:08x}) = {:08x} but f32::exp gives {:08x}", x.to_bits(), y.to_bits(), r.to_bits()))
        } else {
            None
        };
        out.bucket(&format!("sel_exp_{cls}"));
        out.case(&format!("sel exp {}", fval(x)), cls, fail.as_deref(), x.is_nan() || x.abs() >= 104.0);
    }
    // Tanh at special / representative values (|x| in (7, 9.02) excluded: the exp-based branch
    // rounds to exactly 1.0 there, which the branch model cannot tell from the cutoff branch)
    let tanh = vm::Tanh {};
    let mut ts: Vec<f32> = vec![
        f32::NAN, f32::INFINITY, f32::NEG_INFINITY, 0.0, -0.0, 1e-45, -1e-45, 1e-20, -1e-20, 0.0003, -0.0003, 0.0004, -0.0004, 0.3,
        -0.3, 0.55, -0.55, 1.0, -1.0, 5.0, -5.0, 9.02, -9.02, 9.03, -9.03, 20.0, -20.0, 1e30, -1e30, f32::MAX, f32::MIN,
    ];
    for _ in 0..n {
        let v = (rng.f32_unit() - 0.5) * 14.0;
        ts.push(v);
        let big = 9.02 + rng.f32_unit() * 100.0;
        ts.push(if rng.chance(1, 2) { big } else { -big });
    }
    for &x in &ts {
        let y = map_op(&tanh, &[x])[0];
        let cls = if y.is_nan() {
            "nan"
        } else if y.abs() == 1.0 {
            "one"
        } else if y == 0.0 {
            "zero"
        } else {
            "other"
        };
        let sign = if y.is_nan() { 0 } else { y.to_bits() >> 31 };
        let r = x.tanh();
        let fail = if r.is_nan() != y.is_nan() {
            Some(format!("Tanh({:08x}) = {:08x}, f32::tanh gives {:08x}: NaN mismatch", x.to_bits(), y.to_bits(), r.to_bits()))
        } else if !r.is_nan() && (r == 0.0 || r.abs() == 1.0) && r.to_bits() != y.to_bits() && x.abs() >= 9.02 || (x == 0.0 && r.to_bits() != y.to_bits()) {
            Some(format!(
                "special value: Tanh({:08x}) = {:08x} but f32::tanh gives {:08x} (signed zero / saturation mapping differs)",
                x.to_bits(),
                y.to_bits(),
                r.to_bits()
            ))
        } else {
            None
        };
        out.bucket(&format!("sel_tanh_{cls}"));
        out.case(&format!("sel tanh {} {}", fval(x), x.to_bits() >> 31), &format!("sign={sign} class={cls}"), fail.as_deref(), x == 0.0 || !x.is_finite() || x.abs() >= 9.02);
    }
}

// ------------------------------------------------------------------------------------------
// (b) sweeps
// ------------------------------------------------------------------------------------------

fn ulp_of(x: f32) -> f64 {
    // size of the unit in the last place of `x` (Java Math.ulp conventions, as rten-vecmath's ulp.rs,
    // except ulp(0) = 2^-149 rather than the crate's `f32::MIN`)
    if x == 0.0 {
        return f32::from_bits(1) as f64;
    }
    let b = x.abs().to_bits();
    if b >= 0x7f7f_ffff {
        return 2f64.powi(104);
    }
    (f32::from_bits(b + 1) as f64) - (f32::from_bits(b) as f64)
}

fn erf64(x: f64) -> f64 {
    let a = x.abs();
    if a > 6.5 {
        return x.signum();
    }
    // erf(x) = 2/sqrt(pi) * exp(-x^2) * sum_{n>=0} 2^n x^(2n+1) / (1*3*...*(2n+1))
    let mut term = a;
    let mut sum = a;
    let mut n = 0.0f64;
    loop {
        n += 1.0;
        term *= 2.0 * a * a / (2.0 * n + 1.0);
        sum += term;
        if term < sum * 1e-17 || n > 400.0 {
            break;
        }
    }
    let v = 2.0 / std::f64::consts::PI.sqrt() * (-a * a).exp() * sum;
    if x < 0.0 {
        -v
    } else {
        v
    }
}

#[derive(Clone, Copy)]
enum Bound {
    Ulp(f64),
    Abs(f64),
}

struct Func {
    name: &'static str,
    bound: Bound,
    /// documented reference evaluated the way the crate's tests do (f32)
    doc_ref: fn(f32) -> f32,
    /// f64 ground truth
    truth: fn(f64) -> f64,
    /// signed zeros / exact saturation must match the reference bit-for-bit
    exact_specials: bool,
    run: fn(&[f32]) -> Vec<f32>,
    /// restrict the sweep (sin/cos are only documented up to LARGE_THRESHOLD but are swept fully)
    range: Option<f32>,
}

#[derive(Default, Clone)]
struct BlockResult {
    max_err: f64,
    max_at: u32,
    max_truth_err: f64,
    fail: Option<String>,
    /// error of the point `fail` describes, and how many points of the block fail
    fail_err: f64,
    n_fail: u64,
    n: u64,
}

fn check_block(f: &Func, lo: u32, count: u64, stride: u32) -> BlockResult {
    let mut res = BlockResult::default();
    let chunk = 1usize << 14;
    let mut xs: Vec<f32> = Vec::with_capacity(chunk);
    let mut bits = lo as u64;
    let end = lo as u64 + count * stride as u64;
    while bits < end {
        xs.clear();
        while xs.len() < chunk && bits < end {
            xs.push(f32::from_bits(bits as u32));
            bits += stride as u64;
        }
        let ys = (f.run)(&xs);
        for (&x, &y) in xs.iter().zip(&ys) {
            if let Some(r) = f.range {
                if x.abs() > r {
                    continue;
                }
            }
            res.n += 1;
            let e = (f.doc_ref)(x);
            let mut bad: Option<String> = None;
            let mut bad_err = f64::INFINITY; // class mismatches rank above every numeric excess
            if y.is_nan() != e.is_nan() {
                bad = Some("NaN mismatch".into());
            } else if e.is_nan() {
                continue;
            } else if e.is_infinite() || y.is_infinite() {
                if y != e {
                    bad = Some("infinity mismatch".into());
                }
            } else {
                let diff = (y as f64 - e as f64).abs();
                let (err, limit) = match f.bound {
                    Bound::Ulp(u) => (diff / ulp_of(e), u),
                    Bound::Abs(a) => (diff, a),
                };
                if err > res.max_err {
                    res.max_err = err;
                    res.max_at = x.to_bits();
                }
                if err > limit {
                    bad = Some(format!("error {err:e} exceeds documented bound {limit:e}"));
                    bad_err = err;
                }
                if f.exact_specials && e == 0.0 && y == 0.0 && e.to_bits() != y.to_bits() && x == 0.0 {
                    bad = Some("signed zero differs from the reference".into());
                }
                let t = (f.truth)(x as f64);
                if t.is_finite() && t.abs() <= f32::MAX as f64 {
                    let terr = match f.bound {
                        Bound::Ulp(_) => (y as f64 - t).abs() / ulp_of(t as f32),
                        Bound::Abs(_) => (y as f64 - t).abs(),
                    };
                    if terr > res.max_truth_err {
                        res.max_truth_err = terr;
                    }
                }
            }
            if let Some(b) = bad {
                res.n_fail += 1;
                // keep the WORST failing point of the block (not the first)
                if res.fail.is_none() || bad_err > res.fail_err {
                    res.fail_err = bad_err;
                    res.fail = Some(format!(
                        "{}({:08x} = {:e}) = {:08x} ({:e}), reference {:08x} ({:e}): {}",
                        f.name, x.to_bits(), x, y.to_bits(), y, e.to_bits(), e, b
                    ));
                }
            }
        }
    }
    res
}

fn funcs() -> Vec<Func> {
    vec![
        Func { name: "exp", bound: Bound::Ulp(1.0), doc_ref: |x| x.exp(), truth: |x| x.exp(), exact_specials: true, run: |xs| map_op(&vm::Exp {}, xs), range: None },
        Func {
            name: "sigmoid",
            bound: Bound::Ulp(4.0),
            doc_ref: |x| 1. / (1. + (-x).exp()),
            truth: |x| 1. / (1. + (-x).exp()),
            exact_specials: true,
            run: |xs| map_op(&vm::Sigmoid {}, xs),
            range: None,
        },
        Func { name: "tanh", bound: Bound::Ulp(3.0), doc_ref: |x| x.tanh(), truth: |x| x.tanh(), exact_specials: true, run: |xs| map_op(&vm::Tanh {}, xs), range: None },
        Func {
            name: "erf",
            bound: Bound::Abs(6.631017e-7 + 6e-8),
            doc_ref: |x| erf64(x as f64) as f32,
            truth: erf64,
            exact_specials: false,
            run: |xs| map_op(&vm::Erf {}, xs),
            range: None,
        },
        Func { name: "sin", bound: Bound::Abs(3e-7), doc_ref: |x| x.sin(), truth: |x| x.sin(), exact_specials: false, run: |xs| map_op(&vm::Sin::new(), xs), range: None },
        Func { name: "cos", bound: Bound::Abs(5e-7), doc_ref: |x| x.cos(), truth: |x| x.cos(), exact_specials: false, run: |xs| map_op(&vm::Cos::new(), xs), range: None },
        // tolerances of the crate's own unit tests, which only sample arange(-6, 6, 0.001)
        Func {
            name: "silu",
            bound: Bound::Ulp(4.0),
            doc_ref: |x| x * (1. / (1. + (-x).exp())),
            truth: |x| x / (1. + (-x).exp()),
            exact_specials: false,
            run: |xs| map_op(&vm::Silu {}, xs),
            range: Some(6.0),
        },
        Func {
            name: "gelu",
            bound: Bound::Abs(6.631017e-7 + 6e-8),
            doc_ref: |x| (0.5 * x as f64 * (1. + erf64(x as f64 / std::f64::consts::SQRT_2))) as f32,
            truth: |x| 0.5 * x * (1. + erf64(x / std::f64::consts::SQRT_2)),
            exact_specials: false,
            run: |xs| map_op(&vm::Gelu {}, xs),
            range: Some(6.0),
        },
    ]
}

fn sweeps(out: &mut Out, args: &Args) {
    let stride: u32 = if args.thorough { 1 } else { 256 };
    let offset: u32 = if args.thorough { 0 } else { (args.seed % 256) as u32 };
    let per_block: u64 = (1u64 << 24) / stride as u64;
    let fs = funcs();
    for f in &fs {
        let results: Vec<BlockResult> = {
            let next = std::sync::atomic::AtomicUsize::new(0);
            let slots: Vec<std::sync::Mutex<BlockResult>> = (0..256).map(|_| std::sync::Mutex::new(BlockResult::default())).collect();
            std::thread::scope(|s| {
                for _ in 0..16 {
                    s.spawn(|| loop {
                        let b = next.fetch_add(1, std::sync::atomic::Ordering::Relaxed);
                        if b >= 256 {
                            break;
                        }
                        let lo = ((b as u32) << 24) + offset;
                        let r = check_block(f, lo, per_block, stride);
                        *slots[b].lock().unwrap() = r;
                    });
                }
            });
            slots.into_iter().map(|m| m.into_inner().unwrap()).collect()
        };
        let mut worst = 0.0f64;
        let mut worst_at = 0u32;
        let mut worst_truth = 0.0f64;
        let mut total = 0u64;
        for (b, r) in results.iter().enumerate() {
            total += r.n;
            if r.max_err > worst {
                worst = r.max_err;
                worst_at = r.max_at;
            }
            worst_truth = worst_truth.max(r.max_truth_err);
            out.bucket(&format!("sweep_{}", f.name));
            out.case(
                &format!("# sweep {} block={:02x} stride={} offset={} points={}", f.name, b, stride, offset, r.n),
                &format!("max_err={:.4e} at={:08x}", r.max_err, r.max_at),
                r.fail.as_ref().map(|m| format!("{m} [worst of {} failing points in the block]", r.n_fail)).as_deref(),
                r.n > 0,
            );
        }
        let unit = match f.bound {
            Bound::Ulp(u) => format!("ULP (documented bound {u})"),
            Bound::Abs(a) => format!("absolute (bound used {a:e})"),
        };
        out.note(&format!(
            "{}: {} patterns swept (EXECUTION, not proof); max error vs documented reference {:.4e} {} at x={:08x}; max error vs f64 ground truth {:.4e}",
            f.name, total, worst, unit, worst_at, worst_truth
        ));
    }
}

/// Fixed single-point cases: the worst inputs found by the exhaustive (thorough) sweep, so that
/// the quick tier reproduces the open findings too, plus the band 88.72 < |x| < 104 where `Exp`
/// reaches +inf / 0 by arithmetic rather than through its selects (oracle-only: the select model
/// says nothing about these inputs).
fn fixed_cases(out: &mut Out, rng: &mut Rng) {
    let fs = funcs();
    let by = |n: &str| fs.iter().find(|f| f.name == n).unwrap();
    let fixed: [(&str, u32); 12] = [
        ("tanh", 0x3ef2414f), ("tanh", 0xbef2414f), ("sin", 0x4731b5f6), ("sin", 0xc731b5f6), ("exp", 0x33800000), ("sigmoid", 0xc18518c0),
        ("erf", 0x3d297c20), ("cos", 0x462b60ff), ("tanh", 0x00000000), ("tanh", 0x80000000), ("exp", 0x42d00000), ("exp", 0xc2d00000),
    ];
    for (name, bits) in fixed {
        let f = by(name);
        let r = check_block(f, bits, 1, 1);
        out.bucket("fixed");
        out.case(&format!("# fixed {} x={:08x}", name, bits), &format!("max_err={:.4e} at={:08x}", r.max_err, r.max_at), r.fail.as_deref(), true);
    }
    let f = by("exp");
    let mut band: Vec<f32> = vec![88.72, 88.73, 89.0, 103.99, f32::from_bits(104.0f32.to_bits() - 1), -103.28, -103.5, -103.97, -103.98, -f32::from_bits(104.0f32.to_bits() - 1)];
    for _ in 0..400 {
        band.push(if rng.chance(1, 2) { 88.72 + rng.f32_unit() * 15.28 } else { -103.28 - rng.f32_unit() * 0.72 });
    }
    for x in band {
        let r = check_block(f, x.to_bits(), 1, 1);
        out.bucket("band_exp");
        out.case(&format!("# band exp x={:08x}", x.to_bits()), &format!("max_err={:.4e}", r.max_err), r.fail.as_deref(), true);
    }
}

fn softmax_cases(out: &mut Out, rng: &mut Rng, cases: usize) {
    for ci in 0..cases {
        let cap = if rng.chance(1, 10) { 5000 } else { 70 };
        let n = 1 + rng.usize_below(cap);
        let mode = rng.below(5);
        let x: Vec<f32> = (0..n)
            .map(|_| match mode {
                0 => (rng.f32_unit() - 0.5) * 20.0,
                1 => (rng.f32_unit() - 0.5) * 2000.0,
                2 => 1e30 * (rng.f32_unit() - 0.5),
                3 => {
                    if rng.chance(1, 4) {
                        f32::NEG_INFINITY
                    } else {
                        (rng.f32_unit() - 0.5) * 10.0
                    }
                }
                _ => -80.0 - rng.f32_unit() * 30.0,
            })
            .collect();
        let all_ninf = x.iter().all(|&v| v == f32::NEG_INFINITY);
        let r = hcommon::catch(|| {
            let mut d: Vec<MaybeUninit<f32>> = vec![MaybeUninit::new(0.0); n];
            vm::Softmax::new(&x, &mut d).dispatch().to_vec()
        });
        let mut fail: Option<String> = None;
        match &r {
            Err(m) => fail = Some(format!("panic {m}")),
            Ok(y) => {
                if !all_ninf {
                    let m = x.iter().cloned().fold(f64::NEG_INFINITY, |a, b| a.max(b as f64));
                    let e: Vec<f64> = x.iter().map(|&v| (v as f64 - m).exp()).collect();
                    let s: f64 = e.iter().sum();
                    let sum: f64 = y.iter().map(|&v| v as f64).sum();
                    if y.iter().any(|v| !(*v >= 0.0)) {
                        fail = Some("softmax output negative or NaN".into());
                    } else if (sum - 1.0).abs() > 1e-5 {
                        fail = Some(format!("softmax outputs sum to {sum}, expected 1 within 1e-5"));
                    } else if let Some(i) = (0..n).find(|&i| (y[i] as f64 - e[i] / s).abs() > 2e-6) {
                        fail = Some(format!("softmax[{i}] = {:e}, f64 reference {:e}", y[i], e[i] / s));
                    }
                    // shift invariance (T3c) on moderate inputs where x - c is exact enough
                    if mode == 0 && fail.is_none() {
                        let xs: Vec<f32> = x.iter().map(|v| v - 8.0).collect();
                        let mut d: Vec<MaybeUninit<f32>> = vec![MaybeUninit::new(0.0); n];
                        let y2 = vm::Softmax::new(&xs, &mut d).dispatch().to_vec();
                        if let Some(i) = (0..n).find(|&i| (y[i] - y2[i]).abs() > 2e-6) {
                            fail = Some(format!("softmax not shift invariant at {i}: {:e} vs {:e}", y[i], y2[i]));
                        }
                    }
                } else if !y.iter().all(|v| v.is_nan()) {
                    fail = Some("all -inf input: documented result is NaN".into());
                }
            }
        }
        out.bucket(&format!("softmax_mode{mode}"));
        out.case(&format!("# softmax case={ci} n={n} mode={mode} x0={:08x}", x[0].to_bits()), "-", fail.as_deref(), n > 16);
    }
}

fn main() {
    let args = hcommon::parse_args();
    hcommon::quiet_panics();
    let mut out = Out::new(&args.out);
    let mut rng = Rng::new(args.seed);
    model_lines(&mut out, &mut rng, args.thorough);
    sweeps(&mut out, &args);
    fixed_cases(&mut out, &mut rng);
    softmax_cases(&mut out, &mut rng, if args.thorough { 20000 } else { 3000 });
    out.finish(
        "Exp two-factor reconstruction for k=-260..260 (+ real Exp probed at x=k*ln2), ReducedRangeExp factor k=-140..140, \
         special/boundary/random inputs for the Exp and Tanh select chains; bit-pattern sweeps (quick: every 256th pattern with a \
         seed-derived offset = 2^24 per function; thorough: all 2^32) of exp, sigmoid, tanh, erf, sin, cos (+ silu, gelu on |x|<=6) \
         against the documented references and bounds; fixed worst-case inputs found by the exhaustive sweep and 410 inputs in the band 88.72<|x|<104 (oracle-only); random softmax vectors (5 value regimes incl. -inf and huge magnitudes). \
         The sweeps are exhaustive/strided EXECUTION, not proof.",
    );
}
