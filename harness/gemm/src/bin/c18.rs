//! C18: every rten-simd primitive / rten-vecmath operation run under each available ISA
//! (generic, AVX2, AVX-512) on identical inputs, inside canary-framed, guard-paged buffers.
//!
//! The ISA types are public (`rten_simd::isa::{GenericIsa, Avx2Isa, Avx512Isa}`), so an ISA is
//! forced by calling `SimdOp::eval(isa)` directly from a `#[target_feature]` trampoline that
//! mirrors `rten_simd::dispatch` — no hook into the crate is needed.
//!
//! Request lines (answered by the Lean model `model_C18`, see Driver/C18.lean):
//!   `sched map|iter <v> <n>` / `sched apply <v> <u> <n>`  → observed active lanes per closure call
//!   `fold <kind> <v> <op> <init> <xs>`                    → lanes of the final accumulator of Iter::fold etc.
//!   `emu <direct|avx2x8|avx2x16> <mask bits> <src cells>` → loaded lanes, destination image after the masked store, cells touched
//!   `mask <v> <n>` / `bmask <v> <n>`                       → `first_n_mask(n)` lanes
//!   `writer <len> <ops…>`                                  → SliceWriter state or `panic`
//!   `row|bin|un|lay <ty> <op> …`                           → integer lane results
//! Lines starting with `#` (float primitives, vecmath ops) are not answered by the model; they
//! carry the cross-ISA oracle only.
//! Property oracles (PROPFAIL): ISAs disagree bit-for-bit (NaN payloads identified); integer result
//! differs from the Rust scalar definition; canary bytes around a buffer changed; an in-range
//! output element was not written / written with a wrong value; closure saw non-zero padding.
//! An out-of-bounds masked load/store hits a PROT_NONE page and kills the harness, which
//! `bin/check` reports as a violation with the last request.
use hcommon::{Args, Out, Rng};
use rten_simd::functional::{simd_apply, simd_map};
use rten_simd::isa::{Avx2Isa, Avx512Isa, GenericIsa};
use rten_simd::ops::{
    BitOps, Concat, Extend, FloatOps, GetIntOps, GetNumOps, GetSignedIntOps, IntOps, Interleave,
    MaskOps, NarrowSaturate, NumOps, SignedIntOps, ToFloat,
};
use rten_simd::{Isa, Mask, Simd, SimdIterable, SimdOp, SimdUnaryOp, SliceWriter};
use std::mem::MaybeUninit;

// ---------------------------------------------------------------------------------------------
// Forcing an ISA
// ---------------------------------------------------------------------------------------------

const ISA_NAMES: [&str; 3] = ["generic", "avx2", "avx512"];

#[target_feature(enable = "avx2")]
#[target_feature(enable = "avx")]
#[target_feature(enable = "fma")]
#[target_feature(enable = "f16c")]
unsafe fn tramp_avx2<Op: SimdOp>(isa: Avx2Isa, op: Op) -> Op::Output {
    op.eval(isa)
}

#[target_feature(enable = "avx512f")]
#[target_feature(enable = "avx512vl")]
#[target_feature(enable = "avx512bw")]
#[target_feature(enable = "avx512dq")]
#[target_feature(enable = "f16c")]
unsafe fn tramp_avx512<Op: SimdOp>(isa: Avx512Isa, op: Op) -> Op::Output {
    op.eval(isa)
}

/// Evaluate `op` with ISA number `which` (0 generic, 1 AVX2, 2 AVX-512); `None` if unavailable.
fn run_isa<Op: SimdOp>(which: usize, op: Op) -> Option<Op::Output> {
    match which {
        0 => Some(op.eval(GenericIsa::new())),
        1 => Avx2Isa::new().map(|isa| unsafe { tramp_avx2(isa, op) }),
        _ => Avx512Isa::new().map(|isa| unsafe { tramp_avx512(isa, op) }),
    }
}

fn isa_available(which: usize) -> bool {
    match which {
        0 => true,
        1 => Avx2Isa::new().is_some(),
        _ => Avx512Isa::new().is_some(),
    }
}

// ---------------------------------------------------------------------------------------------
// Guard-paged, canary-filled buffers
// ---------------------------------------------------------------------------------------------

extern "C" {
    fn mmap(addr: *mut u8, len: usize, prot: i32, flags: i32, fd: i32, off: i64) -> *mut u8;
    fn mprotect(addr: *mut u8, len: usize, prot: i32) -> i32;
    fn munmap(addr: *mut u8, len: usize) -> i32;
}
const PAGE: usize = 4096;

// A guard-page hit kills the process; report which case was running (bin/check shows the tail of
// the harness output as the failing input).
static mut CUR: [u8; 256] = [0; 256];
static mut CUR_LEN: usize = 0;
extern "C" {
    fn signal(sig: i32, handler: usize) -> usize;
    fn write(fd: i32, buf: *const u8, n: usize) -> isize;
    fn _exit(code: i32) -> !;
}
extern "C" fn on_segv(_sig: i32) {
    unsafe {
        let msg = b"SIGSEGV: access outside the slice hit a PROT_NONE guard page in case: ";
        write(2, msg.as_ptr(), msg.len());
        write(2, std::ptr::addr_of!(CUR) as *const u8, CUR_LEN);
        write(2, b"\n".as_ptr(), 1);
        _exit(139)
    }
}
fn set_cur(s: &str) {
    unsafe {
        let n = s.len().min(256);
        std::ptr::copy_nonoverlapping(s.as_ptr(), std::ptr::addr_of_mut!(CUR) as *mut u8, n);
        CUR_LEN = n;
    }
}
const CANARY: u8 = 0xA5;

/// `[PROT_NONE page][data pages, filled with CANARY][PROT_NONE page]`.
struct Guard {
    base: *mut u8,
    total: usize,
    data: usize,
}

impl Guard {
    fn new(bytes: usize) -> Guard {
        let data = (bytes / PAGE + 1) * PAGE;
        let total = data + 2 * PAGE;
        unsafe {
            let base = mmap(std::ptr::null_mut(), total, 3, 0x22, -1, 0);
            assert!(!base.is_null() && base as isize != -1, "mmap failed");
            assert_eq!(mprotect(base, PAGE, 0), 0);
            assert_eq!(mprotect(base.add(PAGE + data), PAGE, 0), 0);
            std::ptr::write_bytes(base.add(PAGE), CANARY, data);
            Guard { base, total, data }
        }
    }
    fn refill(&mut self) {
        unsafe { std::ptr::write_bytes(self.base.add(PAGE), CANARY, self.data) }
    }
    /// Byte offset (inside the data region) of a window of `bytes` flush to the end/start.
    fn window(&self, bytes: usize, at_end: bool) -> usize {
        if at_end {
            self.data - bytes
        } else {
            0
        }
    }
    fn ptr(&self, off: usize) -> *mut u8 {
        unsafe { self.base.add(PAGE + off) }
    }
    /// All bytes outside `[off, off+bytes)` still hold the canary.
    fn canaries_intact(&self, off: usize, bytes: usize) -> bool {
        let d = unsafe { std::slice::from_raw_parts(self.base.add(PAGE), self.data) };
        d[..off].iter().all(|&b| b == CANARY) && d[off + bytes..].iter().all(|&b| b == CANARY)
    }
}

impl Drop for Guard {
    fn drop(&mut self) {
        unsafe {
            munmap(self.base, self.total);
        }
    }
}

// ---------------------------------------------------------------------------------------------
// Integer lane types
// ---------------------------------------------------------------------------------------------

trait Ty: GetIntOps + GetNumOps + Copy + PartialEq + std::fmt::Debug + 'static {
    const NAME: &'static str;
    const BITS: u32;
    const SIGNED: bool;
    fn to_i(self) -> i64;
    fn from_i(x: i64) -> Self;
}
macro_rules! impl_ty {
    ($t:ty, $n:expr, $b:expr, $s:expr) => {
        impl Ty for $t {
            const NAME: &'static str = $n;
            const BITS: u32 = $b;
            const SIGNED: bool = $s;
            fn to_i(self) -> i64 {
                self as i64
            }
            fn from_i(x: i64) -> Self {
                x as $t
            }
        }
    };
}
impl_ty!(i8, "i8", 8, true);
impl_ty!(i16, "i16", 16, true);
impl_ty!(i32, "i32", 32, true);
impl_ty!(u8, "u8", 8, false);
impl_ty!(u16, "u16", 16, false);

fn lo_of<T: Ty>() -> i64 {
    if T::SIGNED {
        -(1i64 << (T::BITS - 1))
    } else {
        0
    }
}
fn hi_of<T: Ty>() -> i64 {
    if T::SIGNED {
        (1i64 << (T::BITS - 1)) - 1
    } else {
        (1i64 << T::BITS) - 1
    }
}
/// Independent scalar definition (Rust wrapping arithmetic on i64, then truncation).
fn wrap<T: Ty>(x: i64) -> i64 {
    T::from_i(x).to_i()
}

const BIN_OPS: [&str; 15] = [
    "add", "sub", "mul", "min", "max", "and", "or", "xor", "eq", "gt", "ge", "lt", "le", "sel", "muladd",
];

fn scalar_bin<T: Ty>(op: &str, a: i64, b: i64) -> i64 {
    let m = (1i64 << T::BITS) - 1;
    match op {
        "add" => wrap::<T>(a.wrapping_add(b)),
        "sub" => wrap::<T>(a.wrapping_sub(b)),
        "mul" => wrap::<T>(a.wrapping_mul(b)),
        "min" => a.min(b),
        "max" => a.max(b),
        "and" => wrap::<T>((a & m) & (b & m)),
        "or" => wrap::<T>((a & m) | (b & m)),
        "xor" => wrap::<T>((a & m) ^ (b & m)),
        "eq" => (a == b) as i64,
        "gt" => (a > b) as i64,
        "ge" => (a >= b) as i64,
        "lt" => (a < b) as i64,
        "le" => (a <= b) as i64,
        "sel" => {
            if a & 1 == 1 {
                a
            } else {
                b
            }
        }
        "muladd" => wrap::<T>(wrap::<T>(a.wrapping_mul(b)).wrapping_add(a)),
        _ => unreachable!(),
    }
}

fn push_simd<T: Ty, S: Simd<Elem = T>>(out: &mut Vec<i64>, s: S) {
    out.extend(s.to_array().as_ref().iter().map(|x| x.to_i()));
}
fn push_mask<M: Mask>(out: &mut Vec<i64>, m: M) {
    out.extend(m.to_array().as_ref().iter().map(|&b| b as i64));
}

struct BinOp<'a, T: Ty> {
    op: &'static str,
    a: &'a [T],
    b: &'a [T],
    out: &'a mut Vec<i64>,
}
impl<T: Ty> SimdOp for BinOp<'_, T> {
    type Output = ();
    #[inline(always)]
    fn eval<I: Isa>(self, isa: I) {
        let ops = T::int_ops(isa);
        let v = ops.len();
        let out = self.out;
        for (ca, cb) in self.a.chunks_exact(v).zip(self.b.chunks_exact(v)) {
            let x = ops.load(ca);
            let y = ops.load(cb);
            match self.op {
                "add" => push_simd(out, ops.add(x, y)),
                "sub" => push_simd(out, ops.sub(x, y)),
                "mul" => push_simd(out, ops.mul(x, y)),
                "min" => push_simd(out, ops.min(x, y)),
                "max" => push_simd(out, ops.max(x, y)),
                "and" => push_simd(out, ops.and(x, y)),
                "or" => push_simd(out, ops.or(x, y)),
                "xor" => push_simd(out, ops.xor(x, y)),
                "eq" => push_mask(out, ops.eq(x, y)),
                "gt" => push_mask(out, ops.gt(x, y)),
                "ge" => push_mask(out, ops.ge(x, y)),
                "lt" => push_mask(out, ops.lt(x, y)),
                "le" => push_mask(out, ops.le(x, y)),
                "sel" => {
                    let one = ops.one();
                    let m = ops.eq(ops.and(x, one), one);
                    push_simd(out, ops.select(x, y, m))
                }
                "muladd" => push_simd(out, ops.mul_add(x, y, x)),
                _ => unreachable!(),
            }
        }
    }
}

const SHIFTS: [u32; 9] = [1, 2, 3, 5, 7, 9, 15, 23, 31];

struct UnOp<'a, T: Ty> {
    op: String,
    a: &'a [T],
    out: &'a mut Vec<i64>,
}
impl<T: Ty> SimdOp for UnOp<'_, T> {
    type Output = ();
    #[inline(always)]
    fn eval<I: Isa>(self, isa: I) {
        let ops = T::int_ops(isa);
        let v = ops.len();
        let out = self.out;
        macro_rules! sh {
            ($x:expr, $k:expr, $left:expr) => {
                match ($k, $left) {
                    (1, true) => ops.shift_left::<1>($x),
                    (2, true) => ops.shift_left::<2>($x),
                    (3, true) => ops.shift_left::<3>($x),
                    (5, true) => ops.shift_left::<5>($x),
                    (7, true) => ops.shift_left::<7>($x),
                    (9, true) => ops.shift_left::<9>($x),
                    (15, true) => ops.shift_left::<15>($x),
                    (23, true) => ops.shift_left::<23>($x),
                    (31, true) => ops.shift_left::<31>($x),
                    (1, false) => ops.shift_right::<1>($x),
                    (2, false) => ops.shift_right::<2>($x),
                    (3, false) => ops.shift_right::<3>($x),
                    (5, false) => ops.shift_right::<5>($x),
                    (7, false) => ops.shift_right::<7>($x),
                    (9, false) => ops.shift_right::<9>($x),
                    (15, false) => ops.shift_right::<15>($x),
                    (23, false) => ops.shift_right::<23>($x),
                    (31, false) => ops.shift_right::<31>($x),
                    _ => unreachable!(),
                }
            };
        }
        for ca in self.a.chunks_exact(v) {
            let x = ops.load(ca);
            if self.op == "not" {
                push_simd(out, ops.not(x));
            } else if self.op == "id" {
                // load → store round trip
                let mut buf = vec![T::from_i(0); v];
                ops.store(x, &mut buf);
                out.extend(buf.iter().map(|x| x.to_i()));
            } else if let Some(k) = self.op.strip_prefix("shl") {
                let k: u32 = k.parse().unwrap();
                push_simd(out, sh!(x, k, true));
            } else if let Some(k) = self.op.strip_prefix("shr") {
                let k: u32 = k.parse().unwrap();
                push_simd(out, sh!(x, k, false));
            } else {
                unreachable!()
            }
        }
    }
}

struct SignedUnOp<'a, T: Ty + GetSignedIntOps> {
    op: &'static str,
    a: &'a [T],
    out: &'a mut Vec<i64>,
}
impl<T: Ty + GetSignedIntOps> SimdOp for SignedUnOp<'_, T> {
    type Output = ();
    #[inline(always)]
    fn eval<I: Isa>(self, isa: I) {
        let ops = T::signed_int_ops(isa);
        let v = ops.len();
        for ca in self.a.chunks_exact(v) {
            let x = ops.load(ca);
            match self.op {
                "neg" => push_simd(self.out, ops.neg(x)),
                "abs" => push_simd(self.out, ops.abs(x)),
                _ => unreachable!(),
            }
        }
    }
}

fn scalar_un<T: Ty>(op: &str, a: i64) -> i64 {
    if op == "not" {
        wrap::<T>(!a)
    } else if op == "id" {
        a
    } else if op == "neg" {
        wrap::<T>(a.wrapping_neg())
    } else if op == "abs" {
        if a < 0 {
            wrap::<T>(a.wrapping_neg())
        } else {
            a
        }
    } else if let Some(k) = op.strip_prefix("shl") {
        wrap::<T>(a << k.parse::<u32>().unwrap())
    } else if let Some(k) = op.strip_prefix("shr") {
        a >> k.parse::<u32>().unwrap()
    } else if op == "sat_i16" {
        a.clamp(i16::MIN as i64, i16::MAX as i64)
    } else if op == "sat_u8" {
        a.clamp(0, 255)
    } else {
        unreachable!()
    }
}

/// Narrow-saturate as a lane-wise map: consecutive vector pairs `(low, high)`.
struct NarrowI32<'a> {
    a: &'a [i32],
    out: &'a mut Vec<i64>,
}
impl SimdOp for NarrowI32<'_> {
    type Output = ();
    #[inline(always)]
    fn eval<I: Isa>(self, isa: I) {
        let ops = isa.i32();
        let v = ops.len();
        for c in self.a.chunks_exact(2 * v) {
            let r = ops.narrow_saturate(ops.load(&c[..v]), ops.load(&c[v..]));
            self.out.extend(r.to_array().as_ref().iter().map(|&x| x as i64));
        }
    }
}
struct NarrowI16<'a> {
    a: &'a [i16],
    out: &'a mut Vec<i64>,
}
impl SimdOp for NarrowI16<'_> {
    type Output = ();
    #[inline(always)]
    fn eval<I: Isa>(self, isa: I) {
        let ops = isa.i16();
        let v = ops.len();
        for c in self.a.chunks_exact(2 * v) {
            let r = ops.narrow_saturate(ops.load(&c[..v]), ops.load(&c[v..]));
            self.out.extend(r.to_array().as_ref().iter().map(|&x| x as i64));
        }
    }
}

/// Compare the per-ISA results of one integer case with each other and with the scalar
/// definition; returns (canonical answer, propfail).
fn judge_int(results: &[(usize, Result<Vec<i64>, String>)], expect: &[i64]) -> (String, Option<String>) {
    let mut fail: Option<String> = None;
    let mut canon: Option<String> = None;
    for (which, r) in results {
        let s = match r {
            Ok(v) => hcommon::join(v.iter(), ","),
            Err(m) => format!("panic {m}"),
        };
        match r {
            Ok(v) => {
                if v.as_slice() != expect && fail.is_none() {
                    let pos = v.iter().zip(expect).position(|(a, b)| a != b);
                    fail = Some(match pos {
                        Some(p) => format!(
                            "isa={} differs from scalar definition at lane {}: got {} expected {}",
                            ISA_NAMES[*which], p, v[p], expect[p]
                        ),
                        None => format!(
                            "isa={} produced {} lanes, expected {}",
                            ISA_NAMES[*which],
                            v.len(),
                            expect.len()
                        ),
                    });
                }
            }
            Err(m) => {
                if fail.is_none() {
                    fail = Some(format!("isa={} panicked: {}", ISA_NAMES[*which], m));
                }
            }
        }
        // The canonical answer is the first ISA that deviates from the scalar definition, if
        // any, so that the Lean model sees the deviation too; otherwise the common answer.
        let deviates = !matches!(r, Ok(v) if v.as_slice() == expect);
        if canon.is_none() || (deviates && canon.as_deref() == Some(&hcommon::join(expect.iter(), ","))) {
            canon = Some(s);
        }
    }
    (canon.unwrap_or_default(), fail)
}

fn run_bin<T: Ty>(op: &'static str, a: &[T], b: &[T]) -> Vec<(usize, Result<Vec<i64>, String>)> {
    (0..3)
        .filter(|&w| isa_available(w))
        .map(|w| {
            let r = hcommon::catch(|| {
                let mut out = Vec::with_capacity(a.len());
                run_isa(w, BinOp { op, a, b, out: &mut out });
                out
            });
            (w, r)
        })
        .collect()
}

fn run_un<T: Ty>(op: &str, a: &[T]) -> Vec<(usize, Result<Vec<i64>, String>)> {
    (0..3)
        .filter(|&w| isa_available(w))
        .map(|w| {
            let r = hcommon::catch(|| {
                let mut out = Vec::with_capacity(a.len());
                run_isa(w, UnOp { op: op.to_string(), a, out: &mut out });
                out
            });
            (w, r)
        })
        .collect()
}

fn run_sun<T: Ty + GetSignedIntOps>(op: &'static str, a: &[T]) -> Vec<(usize, Result<Vec<i64>, String>)> {
    (0..3)
        .filter(|&w| isa_available(w))
        .map(|w| {
            let r = hcommon::catch(|| {
                let mut out = Vec::with_capacity(a.len());
                run_isa(w, SignedUnOp { op, a, out: &mut out });
                out
            });
            (w, r)
        })
        .collect()
}

/// Exhaustive 8-bit operand pairs: one request row per left operand.
fn exhaustive8<T: Ty>(out: &mut Out) {
    let dom: Vec<i64> = (lo_of::<T>()..=hi_of::<T>()).collect();
    let mut a = Vec::with_capacity(65536);
    let mut b = Vec::with_capacity(65536);
    for &x in &dom {
        for &y in &dom {
            a.push(T::from_i(x));
            b.push(T::from_i(y));
        }
    }
    for op in BIN_OPS {
        let res = run_bin::<T>(op, &a, &b);
        for (ri, &x) in dom.iter().enumerate() {
            let expect: Vec<i64> = dom.iter().map(|&y| scalar_bin::<T>(op, x, y)).collect();
            let row: Vec<(usize, Result<Vec<i64>, String>)> = res
                .iter()
                .map(|(w, r)| (*w, r.as_ref().map(|v| v[ri * 256..(ri + 1) * 256].to_vec()).map_err(|e| e.clone())))
                .collect();
            let (ans, fail) = judge_int(&row, &expect);
            out.bucket(&format!("row_{}_{}", T::NAME, op));
            out.case(&format!("row {} {} {}", T::NAME, op, x), &ans, fail.as_deref(), true);
        }
    }
}

fn boundary_vals<T: Ty>(rng: &mut Rng, n: usize) -> Vec<T> {
    let lo = lo_of::<T>();
    let hi = hi_of::<T>();
    let special = [lo, lo + 1, -1, 0, 1, 2, hi - 1, hi, hi / 2, hi / 2 + 1, 127, 128, 255, 256, -128, -129, 32767, 32768, -32768, -32769, 65535];
    (0..n)
        .map(|_| {
            let x = match rng.below(4) {
                0 => *rng.pick(&special),
                1 => rng.range_i64(-300, 300),
                _ => rng.next_u64() as i64,
            };
            T::from_i(x)
        })
        .collect()
}

fn list<T: Ty>(xs: &[T]) -> String {
    hcommon::join(xs.iter().map(|x| x.to_i()), ",")
}

fn shifts_for<T: Ty>() -> Vec<u32> {
    SHIFTS.iter().copied().filter(|&k| k < T::BITS).collect()
}

/// Sampled operand vectors (64 lanes so that every ISA sees whole vectors).
fn sampled<T: Ty>(out: &mut Out, rng: &mut Rng, cases: usize) {
    for _ in 0..cases {
        let a = boundary_vals::<T>(rng, 64);
        let b = boundary_vals::<T>(rng, 64);
        for op in BIN_OPS {
            let res = run_bin::<T>(op, &a, &b);
            let expect: Vec<i64> = a.iter().zip(&b).map(|(x, y)| scalar_bin::<T>(op, x.to_i(), y.to_i())).collect();
            let (ans, fail) = judge_int(&res, &expect);
            out.bucket(&format!("bin_{}_{}", T::NAME, op));
            out.case(&format!("bin {} {} {} {}", T::NAME, op, list(&a), list(&b)), &ans, fail.as_deref(), true);
        }
        let mut uops: Vec<String> = vec!["not".into(), "id".into()];
        for k in shifts_for::<T>() {
            uops.push(format!("shl{k}"));
            uops.push(format!("shr{k}"));
        }
        for op in uops {
            let res = run_un::<T>(&op, &a);
            let expect: Vec<i64> = a.iter().map(|x| scalar_un::<T>(&op, x.to_i())).collect();
            let (ans, fail) = judge_int(&res, &expect);
            out.bucket(&format!("un_{}_{}", T::NAME, op));
            out.case(&format!("un {} {} {}", T::NAME, op, list(&a)), &ans, fail.as_deref(), true);
        }
    }
}

fn sampled_signed<T: Ty + GetSignedIntOps>(out: &mut Out, rng: &mut Rng, cases: usize) {
    for _ in 0..cases {
        let a = boundary_vals::<T>(rng, 64);
        for op in ["neg", "abs"] {
            let res = run_sun::<T>(op, &a);
            let expect: Vec<i64> = a.iter().map(|x| scalar_un::<T>(op, x.to_i())).collect();
            let (ans, fail) = judge_int(&res, &expect);
            out.bucket(&format!("un_{}_{}", T::NAME, op));
            out.case(&format!("un {} {} {}", T::NAME, op, list(&a)), &ans, fail.as_deref(), true);
        }
    }
}

/// Unary ops over a complete 8- or 16-bit domain, 256 operands per request.
fn exhaustive_unary<T: Ty + GetSignedIntOps>(out: &mut Out) {
    let dom: Vec<T> = (lo_of::<T>()..=hi_of::<T>()).map(T::from_i).collect();
    let mut jobs: Vec<(String, Vec<(usize, Result<Vec<i64>, String>)>)> = vec![];
    for op in ["neg", "abs"] {
        jobs.push((op.to_string(), run_sun::<T>(op, &dom)));
    }
    let mut uops: Vec<String> = vec!["not".into()];
    for k in shifts_for::<T>() {
        uops.push(format!("shl{k}"));
        uops.push(format!("shr{k}"));
    }
    for op in uops {
        let r = run_un::<T>(&op, &dom);
        jobs.push((op, r));
    }
    for (op, res) in jobs {
        for (ci, chunk) in dom.chunks(256).enumerate() {
            let expect: Vec<i64> = chunk.iter().map(|x| scalar_un::<T>(&op, x.to_i())).collect();
            let row: Vec<(usize, Result<Vec<i64>, String>)> = res
                .iter()
                .map(|(w, r)| (*w, r.as_ref().map(|v| v[ci * 256..ci * 256 + chunk.len()].to_vec()).map_err(|e| e.clone())))
                .collect();
            let (ans, fail) = judge_int(&row, &expect);
            out.bucket(&format!("unx_{}_{}", T::NAME, op));
            out.case(&format!("un {} {} {}", T::NAME, op, list(chunk)), &ans, fail.as_deref(), true);
        }
    }
}

fn narrow_cases(out: &mut Out, rng: &mut Rng, thorough: bool) {
    // i16 → u8 over the complete i16 domain.
    let dom: Vec<i16> = (i16::MIN..=i16::MAX).collect();
    let res: Vec<(usize, Result<Vec<i64>, String>)> = (0..3)
        .filter(|&w| isa_available(w))
        .map(|w| {
            (
                w,
                hcommon::catch(|| {
                    let mut o = vec![];
                    run_isa(w, NarrowI16 { a: &dom, out: &mut o });
                    o
                }),
            )
        })
        .collect();
    for (ci, chunk) in dom.chunks(256).enumerate() {
        let expect: Vec<i64> = chunk.iter().map(|&x| scalar_un::<i16>("sat_u8", x as i64)).collect();
        let row: Vec<_> = res
            .iter()
            .map(|(w, r)| (*w, r.as_ref().map(|v| v[ci * 256..(ci + 1) * 256].to_vec()).map_err(|e| e.clone())))
            .collect();
        let (ans, fail) = judge_int(&row, &expect);
        out.bucket("unx_i16_sat_u8");
        out.case(&format!("un i16 sat_u8 {}", list(chunk)), &ans, fail.as_deref(), true);
    }
    // i32 → i16 sampled.
    let n = if thorough { 4000 } else { 400 };
    for _ in 0..n {
        let a = boundary_vals::<i32>(rng, 128);
        let res: Vec<(usize, Result<Vec<i64>, String>)> = (0..3)
            .filter(|&w| isa_available(w))
            .map(|w| {
                (
                    w,
                    hcommon::catch(|| {
                        let mut o = vec![];
                        run_isa(w, NarrowI32 { a: &a, out: &mut o });
                        o
                    }),
                )
            })
            .collect();
        let expect: Vec<i64> = a.iter().map(|&x| scalar_un::<i32>("sat_i16", x as i64)).collect();
        let (ans, fail) = judge_int(&res, &expect);
        out.bucket("un_i32_sat_i16");
        out.case(&format!("un i32 sat_i16 {}", list(&a)), &ans, fail.as_deref(), true);
    }
}

// ---------------------------------------------------------------------------------------------
// Whole-vector (layout) ops: one vector per ISA, the width is part of the case
// ---------------------------------------------------------------------------------------------

struct LayOp<'a> {
    ty: &'static str,
    op: &'static str,
    /// raw operand lanes (as i64) — `v` lanes are taken from each
    a: &'a [i64],
    b: &'a [i64],
    /// filled with (a lanes used, b lanes used, result)
    res: &'a mut (Vec<i64>, Vec<i64>, Vec<i64>),
}

macro_rules! lay_body {
    ($self:ident, $ops:expr, $t:ty, $body:expr) => {{
        let ops = $ops;
        let v = ops.len();
        let av: Vec<$t> = $self.a[..v].iter().map(|&x| x as $t).collect();
        let bv: Vec<$t> = $self.b[..v].iter().map(|&x| x as $t).collect();
        let x = ops.load(&av);
        let y = ops.load(&bv);
        let f = $body;
        let r: Vec<i64> = f(ops, x, y);
        $self.res.0 = av.iter().map(|&x| x as i64).collect();
        $self.res.1 = bv.iter().map(|&x| x as i64).collect();
        $self.res.2 = r;
    }};
}
fn arr<S: Simd>(s: S) -> Vec<i64>
where
    S::Elem: Into<i64>,
{
    s.to_array().as_ref().iter().map(|&x| x.into()).collect()
}

impl SimdOp for LayOp<'_> {
    type Output = ();
    #[inline(always)]
    fn eval<I: Isa>(self, isa: I) {
        match (self.ty, self.op) {
            ("i8", "interleave_low") => lay_body!(self, isa.i8(), i8, |o: _, x, y| arr(Interleave::interleave_low(o, x, y))),
            ("i8", "interleave_high") => lay_body!(self, isa.i8(), i8, |o: _, x, y| arr(Interleave::interleave_high(o, x, y))),
            ("u8", "interleave_low") => lay_body!(self, isa.u8(), u8, |o: _, x, y| arr(Interleave::interleave_low(o, x, y))),
            ("u8", "interleave_high") => lay_body!(self, isa.u8(), u8, |o: _, x, y| arr(Interleave::interleave_high(o, x, y))),
            ("i16", "interleave_low") => lay_body!(self, isa.i16(), i16, |o: _, x, y| arr(Interleave::interleave_low(o, x, y))),
            ("i16", "interleave_high") => lay_body!(self, isa.i16(), i16, |o: _, x, y| arr(Interleave::interleave_high(o, x, y))),
            ("i32", "concat_low") => lay_body!(self, isa.i32(), i32, |o: _, x, y| arr(Concat::concat_low(o, x, y))),
            ("i32", "concat_high") => lay_body!(self, isa.i32(), i32, |o: _, x, y| arr(Concat::concat_high(o, x, y))),
            ("i8", "extend_low") => lay_body!(self, isa.i8(), i8, |o: _, x, _y| arr::<I::I16>(Extend::extend_low(o, x))),
            ("i8", "extend_high") => lay_body!(self, isa.i8(), i8, |o: _, x, _y| arr::<I::I16>(Extend::extend_high(o, x))),
            ("u8", "extend_low") => lay_body!(self, isa.u8(), u8, |o: _, x, _y| arr::<I::U16>(Extend::extend_low(o, x))),
            ("u8", "extend_high") => lay_body!(self, isa.u8(), u8, |o: _, x, _y| arr::<I::U16>(Extend::extend_high(o, x))),
            ("i16", "extend_low") => lay_body!(self, isa.i16(), i16, |o: _, x, _y| arr::<I::I32>(Extend::extend_low(o, x))),
            ("i16", "extend_high") => lay_body!(self, isa.i16(), i16, |o: _, x, _y| arr::<I::I32>(Extend::extend_high(o, x))),
            ("i32", "narrow_sat") => lay_body!(self, isa.i32(), i32, |o: _, x, y| arr::<I::I16>(NarrowSaturate::narrow_saturate(o, x, y))),
            ("i16", "narrow_sat") => lay_body!(self, isa.i16(), i16, |o: _, x, y| arr::<I::U8>(NarrowSaturate::narrow_saturate(o, x, y))),
            ("i8", "sum") => lay_body!(self, isa.i8(), i8, |o: _, x, _y| vec![NumOps::sum(o, x) as i64]),
            ("u8", "sum") => lay_body!(self, isa.u8(), u8, |o: _, x, _y| vec![NumOps::sum(o, x) as i64]),
            ("i16", "sum") => lay_body!(self, isa.i16(), i16, |o: _, x, _y| vec![NumOps::sum(o, x) as i64]),
            ("u16", "sum") => lay_body!(self, isa.u16(), u16, |o: _, x, _y| vec![NumOps::sum(o, x) as i64]),
            ("i32", "sum") => lay_body!(self, isa.i32(), i32, |o: _, x, _y| vec![NumOps::sum(o, x) as i64]),
            _ => unreachable!(),
        }
    }
}

const LAY_CASES: [(&str, &str, bool); 21] = [
    ("i8", "interleave_low", true),
    ("i8", "interleave_high", true),
    ("u8", "interleave_low", true),
    ("u8", "interleave_high", true),
    ("i16", "interleave_low", true),
    ("i16", "interleave_high", true),
    ("i32", "concat_low", true),
    ("i32", "concat_high", true),
    ("i8", "extend_low", false),
    ("i8", "extend_high", false),
    ("u8", "extend_low", false),
    ("u8", "extend_high", false),
    ("i16", "extend_low", false),
    ("i16", "extend_high", false),
    ("i32", "narrow_sat", true),
    ("i16", "narrow_sat", true),
    ("i8", "sum", false),
    ("u8", "sum", false),
    ("i16", "sum", false),
    ("u16", "sum", false),
    ("i32", "sum", false),
];

/// Independent Rust definition of the layout ops.
fn scalar_lay(ty: &str, op: &str, a: &[i64], b: &[i64]) -> Vec<i64> {
    let h = a.len() / 2;
    match op {
        "interleave_low" => (0..a.len()).map(|i| if i % 2 == 0 { a[i / 2] } else { b[i / 2] }).collect(),
        "interleave_high" => (0..a.len()).map(|i| if i % 2 == 0 { a[h + i / 2] } else { b[h + i / 2] }).collect(),
        "concat_low" => a[..h].iter().chain(&b[..h]).copied().collect(),
        "concat_high" => a[h..].iter().chain(&b[h..]).copied().collect(),
        "extend_low" => a[..h].to_vec(),
        "extend_high" => a[h..].to_vec(),
        "narrow_sat" => {
            let (lo, hi) = if ty == "i32" { (-32768, 32767) } else { (0, 255) };
            a.iter().chain(b).map(|&x| x.clamp(lo, hi)).collect()
        }
        "sum" => {
            let s: i64 = a.iter().fold(0i64, |s, &x| s.wrapping_add(x));
            vec![match ty {
                "i8" => s as i8 as i64,
                "u8" => s as u8 as i64,
                "i16" => s as i16 as i64,
                "u16" => s as u16 as i64,
                _ => s as i32 as i64,
            }]
        }
        _ => unreachable!(),
    }
}

fn layout_cases(out: &mut Out, rng: &mut Rng, per: usize) {
    for (ty, op, binary) in LAY_CASES {
        for w in 0..3 {
            if !isa_available(w) {
                continue;
            }
            for _ in 0..per {
                let a: Vec<i64> = (0..64)
                    .map(|_| if rng.chance(1, 3) { *rng.pick(&[i32::MIN as i64, -32769, -32768, -129, -128, -1, 0, 1, 127, 128, 255, 256, 32767, 32768, i32::MAX as i64]) } else { rng.next_u64() as i32 as i64 >> rng.below(28) })
                    .collect();
                let b: Vec<i64> = (0..64).map(|_| rng.next_u64() as i32 as i64 >> rng.below(28)).collect();
                let mut res = (vec![], vec![], vec![]);
                let r = hcommon::catch(|| {
                    run_isa(w, LayOp { ty, op, a: &a, b: &b, res: &mut res });
                });
                // operands as the typed lanes the ISA actually loaded
                let v = match (ty, w) {
                    ("i8" | "u8", _) => 16 << w,
                    ("i16" | "u16", _) => 8 << w,
                    _ => 4 << w,
                };
                let cast = |x: i64| -> i64 {
                    match ty {
                        "i8" => x as i8 as i64,
                        "u8" => x as u8 as i64,
                        "i16" => x as i16 as i64,
                        "u16" => x as u16 as i64,
                        _ => x as i32 as i64,
                    }
                };
                let av: Vec<i64> = a[..v].iter().map(|&x| cast(x)).collect();
                let bv: Vec<i64> = b[..v].iter().map(|&x| cast(x)).collect();
                let expect = scalar_lay(ty, op, &av, &bv);
                let req = if binary {
                    format!("lay {} {} {} {} isa={}", ty, op, hcommon::join(av.iter(), ","), hcommon::join(bv.iter(), ","), ISA_NAMES[w])
                } else {
                    format!("lay {} {} {} isa={}", ty, op, hcommon::join(av.iter(), ","), ISA_NAMES[w])
                };
                let one = vec![(w, r.map(|_| res.2.clone()))];
                let (ans, fail) = judge_int(&one, &expect);
                out.bucket(&format!("lay_{}_{}_{}", ty, op, ISA_NAMES[w]));
                out.case(&req, &ans, fail.as_deref(), true);
            }
        }
    }
}

// ---------------------------------------------------------------------------------------------
// Loop schedules and memory bounds
// ---------------------------------------------------------------------------------------------

trait MemTy: GetNumOps + Copy + PartialEq + Default + std::fmt::Debug + 'static {
    const NAME: &'static str;
    fn pat(i: usize) -> Self;
    fn plus1(self) -> Self;
    fn is_zero(self) -> bool;
    fn wsum(xs: &[Self]) -> Self;
}
macro_rules! impl_memty_int {
    ($t:ty, $n:expr) => {
        impl MemTy for $t {
            const NAME: &'static str = $n;
            fn pat(i: usize) -> Self {
                (i % 100 + 1) as $t
            }
            fn plus1(self) -> Self {
                self.wrapping_add(1)
            }
            fn is_zero(self) -> bool {
                self == 0
            }
            fn wsum(xs: &[Self]) -> Self {
                xs.iter().fold(0, |s, &x| s.wrapping_add(x))
            }
        }
    };
}
impl_memty_int!(i8, "i8");
impl_memty_int!(u8, "u8");
impl_memty_int!(i16, "i16");
impl_memty_int!(u16, "u16");
impl_memty_int!(i32, "i32");
impl MemTy for f32 {
    const NAME: &'static str = "f32";
    fn pat(i: usize) -> Self {
        (i % 100 + 1) as f32
    }
    fn plus1(self) -> Self {
        self + 1.0
    }
    fn is_zero(self) -> bool {
        self == 0.0
    }
    fn wsum(xs: &[Self]) -> Self {
        xs.iter().fold(0.0, |s, &x| s + x)
    }
}

#[derive(Clone, Copy, PartialEq, Debug)]
enum Loop {
    MapInPlace,
    MapSrcDst,
    Apply1,
    Apply2,
    Apply4,
    IterFold,
    IterPad,
    FoldUnroll4,
    Writer,
}

struct Observed {
    /// active (non-padding) lanes of each closure call
    chunks: Vec<usize>,
    /// problems seen inside the closure
    bad: Option<String>,
    /// reduction result (iter loops)
    acc: Option<String>,
    v: usize,
}

struct MemOp<'a, T: MemTy> {
    kind: Loop,
    src: &'a [T],
    dst: &'a mut [MaybeUninit<T>],
    obs: &'a mut Observed,
}

/// Record one closure call: lanes must be `src[off..off+k]` followed by zeros only.
#[inline(always)]
fn observe<T: MemTy, S: Simd<Elem = T>>(obs: &mut Observed, src: &[T], off: &mut usize, x: S) {
    let arr = x.to_array();
    let lanes = arr.as_ref();
    let remaining = src.len().saturating_sub(*off);
    let k = lanes.len().min(remaining);
    for (i, &l) in lanes.iter().enumerate() {
        if i < k {
            if l != src[*off + i] && obs.bad.is_none() {
                obs.bad = Some(format!("call at offset {} lane {} holds {:?}, slice has {:?}", *off, i, l, src[*off + i]));
            }
        } else if !l.is_zero() && obs.bad.is_none() {
            obs.bad = Some(format!("padding lane {} of call at offset {} is {:?}, not zero", i, *off, l));
        }
    }
    obs.chunks.push(k);
    *off += lanes.len();
}

impl<T: MemTy> SimdOp for MemOp<'_, T> {
    type Output = ();
    #[inline(always)]
    fn eval<I: Isa>(self, isa: I) {
        let ops = T::num_ops(isa);
        let obs = self.obs;
        obs.v = ops.len();
        let src = self.src;
        let mut off = 0usize;
        // For the in-place loops `dst` already holds a copy of `src`.
        match self.kind {
            Loop::MapSrcDst => {
                simd_map(ops, (src, self.dst), |x| {
                    observe(obs, src, &mut off, x);
                    ops.add(x, ops.one())
                });
            }
            Loop::MapInPlace | Loop::Apply1 | Loop::Apply2 | Loop::Apply4 => {
                let d: &mut [T] = unsafe { std::mem::transmute::<&mut [MaybeUninit<T>], &mut [T]>(self.dst) };
                let f = |x| {
                    observe(obs, src, &mut off, x);
                    ops.add(x, ops.one())
                };
                match self.kind {
                    Loop::MapInPlace => {
                        simd_map(ops, d, f);
                    }
                    Loop::Apply1 => {
                        simd_apply::<_, _, _, 1>(ops, d, f);
                    }
                    Loop::Apply2 => {
                        simd_apply::<_, _, _, 2>(ops, d, f);
                    }
                    _ => {
                        simd_apply::<_, _, _, 4>(ops, d, f);
                    }
                }
            }
            Loop::IterFold => {
                let acc = src.simd_iter(ops).fold(ops.zero(), |acc, x| {
                    observe(obs, src, &mut off, x);
                    ops.add(acc, x)
                });
                obs.acc = Some(format!("{:?}", T::wsum(acc.to_array().as_ref())));
            }
            Loop::IterPad => {
                let mut acc = ops.zero();
                for x in src.simd_iter_pad(ops) {
                    observe(obs, src, &mut off, x);
                    acc = ops.add(acc, x);
                }
                obs.acc = Some(format!("{:?}", T::wsum(acc.to_array().as_ref())));
            }
            Loop::FoldUnroll4 => {
                let acc = src.simd_iter(ops).fold_unroll::<4>(
                    ops.zero(),
                    |acc, x| {
                        observe(obs, src, &mut off, x);
                        ops.add(acc, x)
                    },
                    |a, b| ops.add(a, b),
                );
                obs.acc = Some(format!("{:?}", T::wsum(acc.to_array().as_ref())));
            }
            Loop::Writer => {
                // The MemCopy pattern of writer.rs / vecmath: whole vectors, then scalars.
                let v = ops.len();
                let mut w = SliceWriter::new(self.dst);
                let mut chunks = src.chunks_exact(v);
                for c in chunks.by_ref() {
                    let x = ops.load(c);
                    observe(obs, src, &mut off, x);
                    w.write_vec(ops, ops.add(x, ops.one()));
                }
                for &x in chunks.remainder() {
                    w.write_scalar(x.plus1());
                }
                let done = w.into_mut_slice().len();
                obs.acc = Some(format!("{done}"));
            }
        }
    }
}

fn lanes_of<T>(w: usize) -> usize {
    (16 << w) / std::mem::size_of::<T>()
}

fn mem_cases<T: MemTy>(out: &mut Out, gsrc: &mut Guard, gdst: &mut Guard) {
    let kinds = [
        Loop::MapInPlace,
        Loop::MapSrcDst,
        Loop::Apply1,
        Loop::Apply2,
        Loop::Apply4,
        Loop::IterFold,
        Loop::IterPad,
        Loop::FoldUnroll4,
        Loop::Writer,
    ];
    let sz = std::mem::size_of::<T>();
    for w in 0..3 {
        if !isa_available(w) {
            continue;
        }
        let v = lanes_of::<T>(w);
        for kind in kinds {
            // unrolled loops need more than 4 vectors to reach every phase
            let nmax = match kind {
                Loop::Apply4 | Loop::FoldUnroll4 => 9 * v + 3,
                Loop::Apply2 => 5 * v + 3,
                _ => 4 * v + 3,
            };
            for n in 0..=nmax {
                for at_end in [true, false] {
                    gsrc.refill();
                    gdst.refill();
                    let so = gsrc.window(n * sz, at_end);
                    let dofs = gdst.window(n * sz, at_end);
                    let src: &mut [T] = unsafe { std::slice::from_raw_parts_mut(gsrc.ptr(so) as *mut T, n) };
                    for (i, s) in src.iter_mut().enumerate() {
                        *s = T::pat(i);
                    }
                    let src: &[T] = src;
                    let dst: &mut [MaybeUninit<T>] =
                        unsafe { std::slice::from_raw_parts_mut(gdst.ptr(dofs) as *mut MaybeUninit<T>, n) };
                    let in_place = matches!(kind, Loop::MapInPlace | Loop::Apply1 | Loop::Apply2 | Loop::Apply4);
                    if in_place {
                        for (i, d) in dst.iter_mut().enumerate() {
                            d.write(T::pat(i));
                        }
                    }
                    let writes = !matches!(kind, Loop::IterFold | Loop::IterPad | Loop::FoldUnroll4);
                    let mut obs = Observed { chunks: vec![], bad: None, acc: None, v };
                    set_cur(&format!("loop={kind:?} ty={} isa={} v={v} n={n} place={}", T::NAME, ISA_NAMES[w], if at_end { "end" } else { "start" }));
                    let r = hcommon::catch(|| {
                        run_isa(w, MemOp { kind, src, dst: &mut *dst, obs: &mut obs });
                    });
                    let (model_kind, extra) = match kind {
                        Loop::MapInPlace | Loop::MapSrcDst => ("map", String::new()),
                        Loop::Apply1 => ("apply", " 1".to_string()),
                        Loop::Apply2 => ("apply", " 2".to_string()),
                        Loop::Apply4 | Loop::FoldUnroll4 => ("apply", " 4".to_string()),
                        Loop::IterFold | Loop::IterPad => ("iter", String::new()),
                        Loop::Writer => ("map", String::new()),
                    };
                    let req = if model_kind == "apply" {
                        format!("sched apply {v}{extra} {n} loop={kind:?} ty={} isa={} place={}", T::NAME, ISA_NAMES[w], if at_end { "end" } else { "start" })
                    } else {
                        format!("sched {model_kind} {v} {n} loop={kind:?} ty={} isa={} place={}", T::NAME, ISA_NAMES[w], if at_end { "end" } else { "start" })
                    };
                    let mut fail: Option<String> = None;
                    let ans = match r {
                        Err(m) => format!("panic {m}"),
                        Ok(()) => {
                            if obs.v != v {
                                fail = Some(format!("vector width {} differs from expected {}", obs.v, v));
                            }
                            if let Some(b) = obs.bad.take() {
                                fail = Some(b);
                            }
                            if !gsrc.canaries_intact(so, n * sz) {
                                fail = Some("bytes outside the source slice were modified".into());
                            }
                            if !gdst.canaries_intact(dofs, n * sz) {
                                fail = Some("bytes outside the destination slice were modified".into());
                            }
                            if src.iter().enumerate().any(|(i, &s)| s != T::pat(i)) {
                                fail = Some("source slice was modified".into());
                            }
                            if writes {
                                let d: &[T] = unsafe { std::slice::from_raw_parts(gdst.ptr(dofs) as *const T, n) };
                                if let Some(i) = (0..n).find(|&i| d[i] != T::pat(i).plus1()) {
                                    fail = Some(format!(
                                        "output element {} is {:?}, expected {:?} (not written exactly once)",
                                        i,
                                        d[i],
                                        T::pat(i).plus1()
                                    ));
                                }
                                if kind == Loop::Writer && obs.acc.as_deref() != Some(&format!("{n}")) {
                                    fail = Some(format!("SliceWriter initialised {:?} of {} elements", obs.acc, n));
                                }
                            } else {
                                let want = format!("{:?}", T::wsum(src));
                                if obs.acc.as_deref() != Some(&want) {
                                    fail = Some(format!("reduction over the slice gave {:?}, expected {}", obs.acc, want));
                                }
                            }
                            // SliceWriter handles the tail with scalars: the model's masked tail
                            // chunk is not a vector access there.
                            let mut chunks = obs.chunks.clone();
                            if kind == Loop::Writer && n % v != 0 {
                                chunks.push(n % v);
                            }
                            format!("chunks={}", hcommon::join(chunks.iter(), ","))
                        }
                    };
                    out.bucket(&format!("sched_{:?}_{}", kind, ISA_NAMES[w]));
                    out.bucket(&format!("sched_ty_{}", T::NAME));
                    out.case(&req, &ans, fail.as_deref(), n > v && n % v != 0);
                }
            }
        }
    }
}

struct MaskOp<'a, T: MemTy> {
    n: usize,
    res: &'a mut Vec<bool>,
    _p: std::marker::PhantomData<T>,
}
impl<T: MemTy> SimdOp for MaskOp<'_, T> {
    type Output = ();
    #[inline(always)]
    fn eval<I: Isa>(self, isa: I) {
        let ops = T::num_ops(isa);
        let m = ops.first_n_mask(self.n);
        self.res.extend(m.to_array().as_ref().iter().copied());
    }
}

fn mask_cases<T: MemTy>(out: &mut Out) {
    for w in 0..3 {
        if !isa_available(w) {
            continue;
        }
        let v = lanes_of::<T>(w);
        for n in 0..=v {
            let mut res = vec![];
            let r = hcommon::catch(|| {
                run_isa(w, MaskOp::<T> { n, res: &mut res, _p: std::marker::PhantomData });
            });
            let ans = match r {
                Ok(()) => res.iter().map(|&b| if b { '1' } else { '0' }).collect::<String>(),
                Err(m) => format!("panic {m}"),
            };
            let fail = if res.iter().enumerate().any(|(i, &b)| b != (i < n)) || res.len() != v {
                Some("mask bit i is not (i < n)")
            } else {
                None
            };
            // AVX-512 builds its masks with the bit loop; the other ISAs with a lane array.
            let kind = if w == 2 { "bmask" } else { "mask" };
            out.bucket(&format!("mask_{}", ISA_NAMES[w]));
            out.case(&format!("{kind} {v} {n} ty={} isa={}", T::NAME, ISA_NAMES[w]), &ans, fail, n > 0 && n < v);
        }
    }
}

/// Random SliceWriter call sequences (including ones that run out of space).
struct WriterOp<'a> {
    ops: &'a [(u8, usize)],
    dst: &'a mut [MaybeUninit<f32>],
    done: &'a mut usize,
}
impl SimdOp for WriterOp<'_> {
    type Output = ();
    #[inline(always)]
    fn eval<I: Isa>(self, isa: I) {
        let ops = isa.f32();
        let mut w = SliceWriter::new(self.dst);
        for &(k, _) in self.ops {
            match k {
                0 => w.write_scalar(1.0),
                1 => w.write_vec(ops, ops.splat(1.0)),
                2 => w.write_vecs(ops, [ops.splat(1.0), ops.splat(1.0)]),
                _ => w.write_vecs(ops, [ops.splat(1.0), ops.splat(1.0), ops.splat(1.0)]),
            }
        }
        *self.done = w.into_mut_slice().len();
    }
}

fn writer_cases(out: &mut Out, rng: &mut Rng, gdst: &mut Guard, cases: usize) {
    for _ in 0..cases {
        let w = rng.usize_below(3);
        if !isa_available(w) {
            continue;
        }
        let v = lanes_of::<f32>(w);
        let len = rng.usize_below(5 * v + 2);
        let nops = rng.usize_below(8);
        let ops: Vec<(u8, usize)> = (0..nops).map(|_| (rng.below(4) as u8, 0)).collect();
        let at_end = rng.chance(1, 2);
        gdst.refill();
        let dofs = gdst.window(len * 4, at_end);
        let dst: &mut [MaybeUninit<f32>] = unsafe { std::slice::from_raw_parts_mut(gdst.ptr(dofs) as *mut MaybeUninit<f32>, len) };
        let mut done = 0usize;
        let r = hcommon::catch(|| {
            run_isa(w, WriterOp { ops: &ops, dst: &mut *dst, done: &mut done });
        });
        let toks: Vec<String> = ops
            .iter()
            .map(|&(k, _)| match k {
                0 => "s".to_string(),
                1 => format!("v{v}"),
                2 => format!("m{v}x2"),
                _ => format!("m{v}x3"),
            })
            .collect();
        let req = format!("writer {} {} isa={}", len, toks.join(" "), ISA_NAMES[w]);
        let mut fail = None;
        if !gdst.canaries_intact(dofs, len * 4) {
            fail = Some("SliceWriter wrote outside its buffer".to_string());
        }
        let ans = match r {
            Ok(()) => {
                let bytes = unsafe { std::slice::from_raw_parts(gdst.ptr(dofs), len * 4) };
                let written: Vec<usize> = (0..len).filter(|&i| bytes[i * 4..i * 4 + 4] != [CANARY; 4]).collect();
                let exact = written == (0..done).collect::<Vec<_>>();
                if !exact {
                    fail = Some(format!("initialised prefix is {} but written indices are {:?}", done, written));
                }
                format!("ninit={} writes={} exact={}", done, written.len(), exact as u8)
            }
            Err(_) => "panic".to_string(),
        };
        out.bucket(if ans == "panic" { "writer_panic" } else { "writer_ok" });
        out.case(&req, &ans, fail.as_deref(), nops >= 2);
    }
}

// ---------------------------------------------------------------------------------------------
// Float primitives and rten-vecmath operations: cross-ISA oracle only ('#' requests)
// ---------------------------------------------------------------------------------------------

fn fbits(x: f32) -> u32 {
    if x.is_nan() {
        0x7fc0_0000
    } else {
        x.to_bits()
    }
}

const F_OPS: [&str; 27] = [
    "add", "sub", "mul", "div", "min", "max", "abs", "neg", "round", "trunc_i", "round_i", "recip", "eq", "gt", "ge", "lt", "le",
    "and", "or", "xor", "not", "sel", "muladd", "mulsub", "clamp", "poly", "i2f",
];
/// Ops whose result is specified exactly (IEEE basic operations, bit ops): every ISA must agree
/// bit-for-bit with the others and with the Rust scalar expression.
fn f_exact(op: &str) -> bool {
    !matches!(op, "muladd" | "mulsub" | "poly")
}

struct FOp<'a> {
    op: &'static str,
    a: &'a [f32],
    b: &'a [f32],
    out: &'a mut Vec<u32>,
}
impl SimdOp for FOp<'_> {
    type Output = ();
    #[inline(always)]
    fn eval<I: Isa>(self, isa: I) {
        let ops = isa.f32();
        let iops = isa.i32();
        let v = ops.len();
        let out = self.out;
        let pf = |out: &mut Vec<u32>, s: I::F32| out.extend(s.to_array().as_ref().iter().map(|&x| fbits(x)));
        let pi = |out: &mut Vec<u32>, s: I::I32| out.extend(s.to_array().as_ref().iter().map(|&x| x as u32));
        let pm = |out: &mut Vec<u32>, m: I::M32| out.extend(m.to_array().as_ref().iter().map(|&b| b as u32));
        for (ca, cb) in self.a.chunks_exact(v).zip(self.b.chunks_exact(v)) {
            let x = ops.load(ca);
            let y = ops.load(cb);
            match self.op {
                "add" => pf(out, ops.add(x, y)),
                "sub" => pf(out, ops.sub(x, y)),
                "mul" => pf(out, ops.mul(x, y)),
                "div" => pf(out, ops.div(x, y)),
                "min" => pf(out, ops.min(x, y)),
                "max" => pf(out, ops.max(x, y)),
                "abs" => pf(out, ops.abs(x)),
                "neg" => pf(out, ops.neg(x)),
                "round" => pf(out, ops.round_ties_even(x)),
                "trunc_i" => pi(out, ops.to_int_trunc(x)),
                "round_i" => pi(out, ops.to_int_round(x)),
                "recip" => pf(out, ops.reciprocal(x)),
                "eq" => pm(out, ops.eq(x, y)),
                "gt" => pm(out, ops.gt(x, y)),
                "ge" => pm(out, ops.ge(x, y)),
                "lt" => pm(out, ops.lt(x, y)),
                "le" => pm(out, ops.le(x, y)),
                "and" => out.extend(ops.and(x, y).to_array().as_ref().iter().map(|x| x.to_bits())),
                "or" => out.extend(ops.or(x, y).to_array().as_ref().iter().map(|x| x.to_bits())),
                "xor" => out.extend(ops.xor(x, y).to_array().as_ref().iter().map(|x| x.to_bits())),
                "not" => out.extend(ops.not(x).to_array().as_ref().iter().map(|x| x.to_bits())),
                "sel" => out.extend(ops.select(x, y, ops.gt(x, y)).to_array().as_ref().iter().map(|x| x.to_bits())),
                "muladd" => pf(out, ops.mul_add(x, y, x)),
                "mulsub" => pf(out, ops.mul_sub_from(x, y, x)),
                "clamp" => pf(out, ops.clamp(x, ops.splat(-1.5), ops.splat(2.5))),
                "poly" => pf(out, ops.poly_eval(x, &[y, x, y])),
                "i2f" => {
                    let xi: I::I32 = x.reinterpret_cast();
                    pf(out, iops.to_float(xi))
                }
                _ => unreachable!(),
            }
        }
    }
}

fn scalar_f(op: &str, x: f32, y: f32, fused: bool) -> Option<u32> {
    let b = |v: bool| v as u32;
    Some(match op {
        // `mul_add` "may use one or two roundings" (ops.rs): the generic ISA is the two-rounding
        // expression, the FMA ISAs are the fused one; each must match its own definition exactly.
        "muladd" if fused => fbits(x.mul_add(y, x)),
        "muladd" => fbits(x * y + x),
        "mulsub" if fused => fbits((-x).mul_add(y, x)),
        "mulsub" => fbits(x - x * y),
        "poly" if fused => fbits(y.mul_add(x, x).mul_add(x, y) * x),
        "poly" => fbits(((y * x + x) * x + y) * x),
        "add" => fbits(x + y),
        "sub" => fbits(x - y),
        "mul" => fbits(x * y),
        "div" => fbits(x / y),
        "abs" => fbits(x.abs()),
        "neg" => fbits(-x),
        "round" => fbits(x.round_ties_even()),
        "recip" => fbits(1.0 / x),
        "eq" => b(x == y),
        "gt" => b(x > y),
        "ge" => b(x >= y),
        "lt" => b(x < y),
        "le" => b(x <= y),
        "and" => x.to_bits() & y.to_bits(),
        "or" => x.to_bits() | y.to_bits(),
        "xor" => x.to_bits() ^ y.to_bits(),
        "not" => !x.to_bits(),
        "sel" => {
            if x > y {
                x.to_bits()
            } else {
                y.to_bits()
            }
        }
        "i2f" => fbits(x.to_bits() as i32 as f32),
        // min/max/clamp with NaN or ±0 operands and out-of-range conversions have no single
        // scalar definition in the crate docs: only the cross-ISA comparison applies.
        "min" if !x.is_nan() && !y.is_nan() && !(x == 0.0 && y == 0.0) => fbits(x.min(y)),
        "max" if !x.is_nan() && !y.is_nan() && !(x == 0.0 && y == 0.0) => fbits(x.max(y)),
        "trunc_i" if x.abs() < 2147483520.0 => x as i32 as u32,
        "round_i" if x.abs() < 2147483520.0 => x.round_ties_even() as i32 as u32,
        _ => return None,
    })
}

fn special_f32(rng: &mut Rng) -> f32 {
    const S: [u32; 24] = [
        0x0000_0000, 0x8000_0000, 0x7f80_0000, 0xff80_0000, 0x7fc0_0000, 0xffc0_0000, 0x7f80_0001, 0x7fff_ffff, 0x0000_0001, 0x8000_0001,
        0x007f_ffff, 0x0080_0000, 0x7f7f_ffff, 0xff7f_ffff, 0x3f80_0000, 0xbf80_0000, 0x3f00_0000, 0x3fc0_0000, 0x4020_0000, 0xc020_0000,
        0x4f00_0000, 0xcf00_0000, 0x4b00_0000, 0x4b00_0001,
    ];
    match rng.below(5) {
        0 => f32::from_bits(*rng.pick(&S)),
        1 => f32::from_bits(rng.next_u64() as u32),
        2 => (rng.f32_unit() - 0.5) * 20.0,
        3 => (rng.range_i64(-40, 40) as f32) * 0.5,
        _ => (rng.f32_unit() - 0.5) * 400.0,
    }
}

fn ulp_dist(a: u32, b: u32) -> u64 {
    // distance in representable values (sign-magnitude → ordered integers)
    let k = |x: u32| -> i64 {
        if x & 0x8000_0000 != 0 {
            -((x & 0x7fff_ffff) as i64)
        } else {
            x as i64
        }
    };
    (k(a) - k(b)).unsigned_abs()
}

fn hex_list(xs: &[f32]) -> String {
    hcommon::join(xs.iter().map(|x| format!("{:08x}", x.to_bits())), ",")
}

fn float_prim_cases(out: &mut Out, rng: &mut Rng, cases: usize) {
    for ci in 0..cases {
        let a: Vec<f32> = (0..64).map(|_| special_f32(rng)).collect();
        let b: Vec<f32> = (0..64).map(|_| special_f32(rng)).collect();
        for op in F_OPS {
            let res: Vec<(usize, Result<Vec<u32>, String>)> = (0..3)
                .filter(|&w| isa_available(w))
                .map(|w| {
                    (
                        w,
                        hcommon::catch(|| {
                            let mut o = vec![];
                            run_isa(w, FOp { op, a: &a, b: &b, out: &mut o });
                            o
                        }),
                    )
                })
                .collect();
            // Every failing sub-check of the case is collected (not only the first). Lane mismatches
            // between the generic ISA and an AVX ISA that fall under one of the two OPEN findings
            // (the harness evaluates the finding's operand predicate itself) are kept apart, and in
            // those lanes each ISA is still checked against its own documented/observed semantics,
            // so that a different violation in the same case is reported as a new failure.
            let known_kind = |x: f32, y: f32| -> Option<&'static str> {
                match op {
                    "min" | "max" if x.is_nan() || y.is_nan() || (x == 0.0 && y == 0.0 && x.to_bits() != y.to_bits()) => Some("minmax-nan-zero"),
                    "trunc_i" | "round_i" if !(x.abs() < 2147483648.0) => Some("to-int-out-of-range"),
                    _ => None,
                }
            };
            // per-ISA semantics inside the known-divergence lanes
            let isa_def = |w: usize, x: f32, y: f32| -> Option<Vec<u32>> {
                match (op, w) {
                    ("min", 0) | ("max", 0) => Some(vec![fbits(x), fbits(y)]), // Rust f32::min/max: one of the operands
                    ("min", _) => Some(vec![fbits(if x < y { x } else { y })]), // vminps: second operand unless x < y
                    ("max", _) => Some(vec![fbits(if x > y { x } else { y })]),
                    ("trunc_i", 0) => Some(vec![x as i32 as u32]),
                    ("round_i", 0) => Some(vec![x.round_ties_even() as i32 as u32]),
                    ("trunc_i", _) | ("round_i", _) => Some(vec![0x8000_0000]),
                    _ => None,
                }
            };
            let mut other: Vec<String> = vec![];
            let mut known: Vec<(&'static str, String)> = vec![];
            let ok_res: Vec<(usize, &Vec<u32>)> = res.iter().filter_map(|(w, r)| r.as_ref().ok().map(|v| (*w, v))).collect();
            for (w, r) in &res {
                if let Err(m) = r {
                    other.push(format!("isa={} panicked: {}", ISA_NAMES[*w], m));
                }
            }
            for &(w, v) in &ok_res {
                for i in 0..64 {
                    if let Some(e) = scalar_f(op, a[i], b[i], w != 0) {
                        if v[i] != e {
                            other.push(format!(
                                "isa={} f32 {}({:08x},{:08x}) = {:08x}, scalar definition gives {:08x}",
                                ISA_NAMES[w], op, a[i].to_bits(), b[i].to_bits(), v[i], e
                            ));
                        }
                    } else if known_kind(a[i], b[i]).is_some() {
                        if let Some(allowed) = isa_def(w, a[i], b[i]) {
                            if !allowed.contains(&v[i]) {
                                other.push(format!(
                                    "isa={} f32 {}({:08x},{:08x}) = {:08x}, this ISA's own semantics give {:08x?}",
                                    ISA_NAMES[w], op, a[i].to_bits(), b[i].to_bits(), v[i], allowed
                                ));
                            }
                        }
                    }
                }
            }
            for pair in ok_res.windows(2) {
                let (w0, v0) = pair[0];
                let (w1, v1) = pair[1];
                for i in 0..64 {
                    // FMA-dependent ops: generic (two roundings) vs the FMA ISAs differ by rounding
                    // only and are checked against their own scalar expression above.
                    if (!f_exact(op) && w0 == 0) || v0[i] == v1[i] {
                        continue;
                    }
                    let msg = format!(
                        "f32 {}({:08x},{:08x}): isa={} gives {:08x}, isa={} gives {:08x}",
                        op, a[i].to_bits(), b[i].to_bits(), ISA_NAMES[w0], v0[i], ISA_NAMES[w1], v1[i]
                    );
                    match known_kind(a[i], b[i]) {
                        Some(k) if w0 == 0 => known.push((k, msg)),
                        _ => other.push(msg),
                    }
                }
            }
            let fail: Option<String> = if !other.is_empty() {
                let shown: Vec<String> = other.iter().take(4).cloned().collect();
                Some(format!("{} failing sub-checks: {} (+{} lanes of known generic-vs-AVX divergence)", other.len(), shown.join(" | "), known.len()))
            } else if let Some((k, m)) = known.first() {
                Some(format!("known-divergence[{}] lanes={} first: {}", k, known.len(), m))
            } else {
                None
            };
            out.bucket(&format!("f32_{}", op));
            out.case(&format!("# f32 {} case={} a={} b={}", op, ci, hex_list(&a), hex_list(&b)), "-", fail.as_deref(), true);
        }
    }
}

/// `SimdUnaryOp::map` with a forced ISA (same body as rten-simd's private `SimdMapOp`).
struct MapWith<'a, Op: SimdUnaryOp<f32>> {
    op: &'a Op,
    src: &'a [f32],
    dst: &'a mut [MaybeUninit<f32>],
}
impl<Op: SimdUnaryOp<f32>> SimdOp for MapWith<'_, Op> {
    type Output = ();
    #[inline(always)]
    fn eval<I: Isa>(self, isa: I) {
        simd_map(
            isa.f32(),
            (self.src, self.dst),
            #[inline(always)]
            |x| self.op.eval(isa, x),
        );
    }
}

fn run_unary<Op: SimdUnaryOp<f32>>(w: usize, op: &Op, src: &[f32]) -> Result<Vec<f32>, String> {
    hcommon::catch(|| {
        let mut dst: Vec<MaybeUninit<f32>> = vec![MaybeUninit::new(f32::from_bits(0xA5A5A5A5)); src.len()];
        run_isa(w, MapWith { op, src, dst: &mut dst });
        dst.iter().map(|x| unsafe { x.assume_init() }).collect()
    })
}

/// Compare per-ISA float outputs: AVX2 vs AVX-512 bit-for-bit; generic vs the FMA ISAs within
/// `tol_ulps` (the generic ISA evaluates `mul_add` with two roundings, documented in ops.rs).
fn judge_float(res: &[(usize, Result<Vec<f32>, String>)], tol_ulps: u64, abs_tol: f32) -> Option<String> {
    let mut fail = None;
    for (w, r) in res {
        if let Err(m) = r {
            fail = fail.or(Some(format!("isa={} panicked: {}", ISA_NAMES[*w], m)));
        }
    }
    let get = |w: usize| res.iter().find(|(x, _)| *x == w).and_then(|(_, r)| r.as_ref().ok());
    if let (Some(a), Some(b)) = (get(1), get(2)) {
        if let Some(i) = (0..a.len().min(b.len())).find(|&i| fbits(a[i]) != fbits(b[i])) {
            fail = fail.or(Some(format!("element {}: avx2 gives {:08x}, avx512 gives {:08x}", i, a[i].to_bits(), b[i].to_bits())));
        }
        if a.len() != b.len() {
            fail = fail.or(Some("avx2 and avx512 output lengths differ".into()));
        }
    }
    if let (Some(g), Some(b)) = (get(0), get(2).or(get(1))) {
        if g.len() != b.len() {
            fail = fail.or(Some("generic and SIMD output lengths differ".into()));
        }
        for i in 0..g.len().min(b.len()) {
            let same_class = g[i].is_nan() == b[i].is_nan() && g[i].is_infinite() == b[i].is_infinite();
            let close = fbits(g[i]) == fbits(b[i])
                || (same_class && g[i].is_finite() && (ulp_dist(g[i].to_bits(), b[i].to_bits()) <= tol_ulps || (g[i] - b[i]).abs() <= abs_tol));
            if !close && fail.is_none() {
                fail = Some(format!(
                    "element {}: generic gives {:08x} ({:e}), avx gives {:08x} ({:e})",
                    i, g[i].to_bits(), g[i], b[i].to_bits(), b[i]
                ));
            }
        }
    }
    fail
}

fn vecmath_inputs(rng: &mut Rng, n: usize, wide: bool) -> Vec<f32> {
    (0..n)
        .map(|_| {
            if wide {
                special_f32(rng)
            } else {
                (rng.f32_unit() - 0.5) * 16.0
            }
        })
        .collect()
}

fn vecmath_cases(out: &mut Out, rng: &mut Rng, cases: usize) {
    use rten_vecmath as vm;
    for ci in 0..cases {
        let n = rng.usize_below(70);
        let wide = rng.chance(1, 2);
        let x = vecmath_inputs(rng, n, wide);
        macro_rules! unary {
            ($name:expr, $op:expr, $tol:expr, $abs:expr) => {{
                let op = $op;
                let res: Vec<(usize, Result<Vec<f32>, String>)> =
                    (0..3).filter(|&w| isa_available(w)).map(|w| (w, run_unary(w, &op, &x))).collect();
                let fail = judge_float(&res, $tol, $abs);
                out.bucket(&format!("vm_{}", $name));
                out.case(&format!("# vecmath {} case={} n={} x={}", $name, ci, n, hex_list(&x)), "-", fail.as_deref(), n > 16);
            }};
        }
        unary!("exp", vm::Exp {}, 2, 0.0);
        unary!("sigmoid", vm::Sigmoid {}, 8, 0.0);
        unary!("tanh", vm::Tanh {}, 6, 0.0);
        unary!("erf", vm::Erf {}, 0, 2e-6);
        unary!("gelu", vm::Gelu {}, 0, 2e-6);
        unary!("approx_gelu", vm::ApproxGelu {}, 8, 2e-6);
        unary!("silu", vm::Silu {}, 8, 1e-6);
        unary!("swish", vm::Swish { alpha: 1.7 }, 8, 1e-6);
        unary!("elu", vm::Elu { alpha: 0.5 }, 4, 1e-6);
        unary!("leaky_relu", vm::LeakyRelu { alpha: 0.1 }, 0, 0.0);
        // Sin/Cos switch to the scalar std function per *vector* when any lane is ≥ 48000, so
        // the result for a lane may depend on its neighbours and on the vector width; only
        // moderate inputs are compared here.
        let xs: Vec<f32> = x.iter().map(|&v| if v.is_finite() && v.abs() < 40000.0 { v } else { 0.5 }).collect();
        {
            let x = &xs;
            let res: Vec<(usize, Result<Vec<f32>, String>)> =
                (0..3).filter(|&w| isa_available(w)).map(|w| (w, run_unary(w, &vm::Sin::new(), x))).collect();
            let fail = judge_float(&res, 0, 1e-6);
            out.bucket("vm_sin");
            out.case(&format!("# vecmath sin case={} n={} x={}", ci, n, hex_list(x)), "-", fail.as_deref(), n > 16);
            let res: Vec<(usize, Result<Vec<f32>, String>)> =
                (0..3).filter(|&w| isa_available(w)).map(|w| (w, run_unary(w, &vm::Cos::new(), x))).collect();
            let fail = judge_float(&res, 0, 1e-6);
            out.bucket("vm_cos");
            out.case(&format!("# vecmath cos case={} n={} x={}", ci, n, hex_list(x)), "-", fail.as_deref(), n > 16);
        }
        // Reductions / normalisations on moderate inputs (the reduction order depends on the
        // vector width, so generic vs SIMD and AVX2 vs AVX-512 are compared with a tolerance).
        let xm = vecmath_inputs(rng, n, false);
        macro_rules! slice_op {
            ($name:expr, $mk:expr, $abs:expr) => {{
                let res: Vec<(usize, Result<Vec<f32>, String>)> = (0..3)
                    .filter(|&w| isa_available(w))
                    .map(|w| {
                        (
                            w,
                            hcommon::catch(|| {
                                let mut dst: Vec<MaybeUninit<f32>> = vec![MaybeUninit::new(0.0); xm.len()];
                                let f = $mk;
                                f(w, &xm[..], &mut dst[..])
                            }),
                        )
                    })
                    .collect();
                let mut fail = None;
                for (w, r) in &res {
                    if let Err(m) = r {
                        fail = fail.or(Some(format!("isa={} panicked: {}", ISA_NAMES[*w], m)));
                    }
                }
                let oks: Vec<(usize, &Vec<f32>)> = res.iter().filter_map(|(w, r)| r.as_ref().ok().map(|v| (*w, v))).collect();
                for pair in oks.windows(2) {
                    let (w0, a) = pair[0];
                    let (w1, b) = pair[1];
                    if a.len() != b.len() {
                        fail = fail.or(Some(format!("{} and {} output lengths differ", ISA_NAMES[w0], ISA_NAMES[w1])));
                    }
                    for i in 0..a.len().min(b.len()) {
                        let ok = fbits(a[i]) == fbits(b[i]) || (a[i].is_finite() && b[i].is_finite() && (a[i] - b[i]).abs() <= $abs * (1.0 + a[i].abs()));
                        if !ok && fail.is_none() {
                            fail = Some(format!("element {}: {} gives {:e}, {} gives {:e}", i, ISA_NAMES[w0], a[i], ISA_NAMES[w1], b[i]));
                        }
                    }
                }
                out.bucket(&format!("vm_{}", $name));
                out.case(&format!("# vecmath {} case={} n={} x={}", $name, ci, n, hex_list(&xm)), "-", fail.as_deref(), n > 16);
            }};
        }
        if n > 0 {
            slice_op!(
                "softmax",
                |w, s: &[f32], d: &mut [MaybeUninit<f32>]| run_isa(w, vm::Softmax::new(s, d)).map(|o| o.to_vec()).unwrap_or_default(),
                1e-6
            );
            slice_op!(
                "log_softmax",
                |w, s: &[f32], d: &mut [MaybeUninit<f32>]| run_isa(w, vm::LogSoftmax::new(s, d)).map(|o| o.to_vec()).unwrap_or_default(),
                4e-6
            );
        }
        slice_op!("sum", |w, s: &[f32], _d: &mut [MaybeUninit<f32>]| vec![run_isa(w, vm::Sum::new(s)).unwrap_or(0.0)], 1e-5);
        slice_op!("sum_square", |w, s: &[f32], _d: &mut [MaybeUninit<f32>]| vec![run_isa(w, vm::SumSquare::new(s)).unwrap_or(0.0)], 1e-5);
        slice_op!(
            "min_max",
            |w, s: &[f32], _d: &mut [MaybeUninit<f32>]| {
                let (a, b) = run_isa(w, vm::MinMax::new(s)).unwrap_or((0.0, 0.0));
                vec![a, b]
            },
            0.0
        );
        // Quantize f32 → u8 (to_int_round + two saturating narrows + SliceWriter).
        {
            let zp = rng.below(256) as u8;
            let inv_scale = 1.0 + rng.f32_unit() * 30.0;
            let res: Vec<(usize, Result<Vec<u8>, String>)> = (0..3)
                .filter(|&w| isa_available(w))
                .map(|w| {
                    (
                        w,
                        hcommon::catch(|| {
                            let mut dst: Vec<MaybeUninit<u8>> = vec![MaybeUninit::new(0); xm.len()];
                            run_isa(w, vm::Quantize::new(&xm, &mut dst, inv_scale, zp)).map(|o| o.to_vec()).unwrap_or_default()
                        }),
                    )
                })
                .collect();
            let expect: Vec<u8> = xm
                .iter()
                .map(|&x| ((x * inv_scale).round_ties_even() as i32 + zp as i32).clamp(0, 255) as u8)
                .collect();
            let mut fail = None;
            for (w, r) in &res {
                match r {
                    Err(m) => fail = fail.or(Some(format!("isa={} panicked: {}", ISA_NAMES[*w], m))),
                    Ok(v) => {
                        if *v != expect && fail.is_none() {
                            fail = Some(format!("isa={} quantize differs from scalar definition", ISA_NAMES[*w]));
                        }
                    }
                }
            }
            out.bucket("vm_quantize");
            out.case(
                &format!("# vecmath quantize case={} n={} zp={} inv_scale={:08x} x={}", ci, n, zp, inv_scale.to_bits(), hex_list(&xm)),
                "-",
                fail.as_deref(),
                n > 16,
            );
        }
    }
}


// ---------------------------------------------------------------------------------------------
// Fold skeletons: Iter::fold / fold_unroll / fold_n / fold_n_unroll and the vecmath reductions
// ---------------------------------------------------------------------------------------------

trait FoldTy: GetNumOps + Copy + PartialOrd + PartialEq + std::fmt::Debug + 'static {
    const NAME: &'static str;
    const MAXV: Self;
    const MINV: Self;
    fn from_i(x: i64) -> Self;
    fn add(self, o: Self) -> Self;
    fn show(self) -> String;
}
impl FoldTy for i32 {
    const NAME: &'static str = "i32";
    const MAXV: i32 = i32::MAX;
    const MINV: i32 = i32::MIN;
    fn from_i(x: i64) -> i32 {
        x as i32
    }
    fn add(self, o: i32) -> i32 {
        self.wrapping_add(o)
    }
    fn show(self) -> String {
        self.to_string()
    }
}
impl FoldTy for f32 {
    const NAME: &'static str = "f32";
    const MAXV: f32 = f32::MAX;
    const MINV: f32 = f32::MIN;
    fn from_i(x: i64) -> f32 {
        x as f32 * 0.5
    }
    fn add(self, o: f32) -> f32 {
        self + o
    }
    fn show(self) -> String {
        format!("{:?}", self)
    }
}
fn smin<T: FoldTy>(a: T, b: T) -> T {
    if b < a {
        b
    } else {
        a
    }
}
fn smax<T: FoldTy>(a: T, b: T) -> T {
    if b > a {
        b
    } else {
        a
    }
}
fn sop<T: FoldTy>(op: &str, a: T, b: T) -> T {
    match op {
        "sum" => a.add(b),
        "min" => smin(a, b),
        _ => smax(a, b),
    }
}

struct FoldCase<'a, T: FoldTy> {
    kind: &'static str,
    op: &'static str,
    xs: &'a [T],
    init: T,
    /// final accumulator register(s): one for fold/unroll, two (min, max) for the `n` kinds
    regs: &'a mut Vec<Vec<T>>,
}
impl<T: FoldTy> SimdOp for FoldCase<'_, T> {
    type Output = ();
    #[inline(always)]
    fn eval<I: Isa>(self, isa: I) {
        let ops = T::num_ops(isa);
        let op = self.op;
        let init = ops.splat(self.init);
        let f = |a, x| match op {
            "sum" => ops.add(a, x),
            "min" => ops.min(a, x),
            _ => ops.max(a, x),
        };
        let mm0 = [ops.splat(T::MAXV), ops.splat(T::MINV)];
        let step = |[mn, mx]: [_; 2], x| [ops.min(mn, x), ops.max(mx, x)];
        let merge = |[a, b]: [_; 2], [c, d]: [_; 2]| [ops.min(a, c), ops.max(b, d)];
        let it = self.xs.simd_iter(ops);
        let regs = self.regs;
        let mut push = |s: <T as rten_simd::ops::GetSimd>::Simd<I>| regs.push(s.to_array().as_ref().to_vec());
        match self.kind {
            "fold" => push(it.fold(init, f)),
            "unroll2" => push(it.fold_unroll::<2>(init, f, f)),
            "unroll4" => push(it.fold_unroll::<4>(init, f, f)),
            "foldn" => {
                let [a, b] = it.fold_n(mm0, step);
                push(a);
                push(b);
            }
            "nunroll2" => {
                let [a, b] = it.fold_n_unroll::<2, 2>(mm0, step, merge);
                push(a);
                push(b);
            }
            _ => {
                let [a, b] = it.fold_n_unroll::<2, 4>(mm0, step, merge);
                push(a);
                push(b);
            }
        }
    }
}

fn fold_data<T: FoldTy>(rng: &mut Rng, n: usize, regime: usize) -> Vec<T> {
    (0..n)
        .map(|_| {
            let m = 1 + rng.below(100) as i64;
            T::from_i(match regime {
                0 => m,
                1 => -m,
                _ => {
                    if rng.chance(1, 2) {
                        m
                    } else {
                        -m
                    }
                }
            })
        })
        .collect()
}

fn fold_cases<T: FoldTy>(out: &mut Out, rng: &mut Rng, model: bool) {
    const REG: [&str; 3] = ["pos", "neg", "mixed"];
    for w in 0..3 {
        if !isa_available(w) {
            continue;
        }
        let v = lanes_of::<T>(w);
        for kind in ["fold", "unroll2", "unroll4", "foldn", "nunroll2", "nunroll4"] {
            let pair = kind.contains('n') && kind != "unroll2" && kind != "unroll4" && kind != "fold";
            let ops: &[&str] = if pair { &["minmax"] } else { &["sum", "min", "max"] };
            let nmax = if kind.ends_with('4') { 9 * v + 3 } else if kind.ends_with('2') { 5 * v + 3 } else { 4 * v + 3 };
            for &op in ops {
                for regime in 0..3 {
                    for n in 0..=nmax {
                        let xs = fold_data::<T>(rng, n, regime);
                        // neutral start value; the plain fold is also run from a non-neutral one
                        let init = match op {
                            "sum" => T::from_i(if kind == "fold" && n % 2 == 1 { 14 } else { 0 }),
                            "min" => {
                                if kind == "fold" && n % 2 == 1 {
                                    T::from_i(-40)
                                } else {
                                    T::MAXV
                                }
                            }
                            _ => {
                                if kind == "fold" && n % 2 == 1 {
                                    T::from_i(40)
                                } else {
                                    T::MINV
                                }
                            }
                        };
                        let mut regs: Vec<Vec<T>> = vec![];
                        let r = hcommon::catch(|| {
                            run_isa(w, FoldCase { kind, op, xs: &xs, init, regs: &mut regs });
                        });
                        let mut fail: Option<String> = None;
                        let ans = match r {
                            Err(m) => {
                                fail = Some(format!("panic {m}"));
                                format!("panic {m}")
                            }
                            Ok(()) => {
                                // scalar reference: horizontal reduction must equal the plain fold over
                                // exactly the slice elements (and the start value, once per lane)
                                if pair {
                                    let mn = regs[0].iter().fold(T::MAXV, |a, &b| smin(a, b));
                                    let mx = regs[1].iter().fold(T::MINV, |a, &b| smax(a, b));
                                    let emn = xs.iter().fold(T::MAXV, |a, &b| smin(a, b));
                                    let emx = xs.iter().fold(T::MINV, |a, &b| smax(a, b));
                                    if mn != emn || mx != emx {
                                        fail = Some(format!(
                                            "{kind} (min,max) over {n} {} elements gives ({:?},{:?}), scalar fold gives ({:?},{:?})",
                                            REG[regime], mn, mx, emn, emx
                                        ));
                                    }
                                } else if kind == "fold" {
                                    // exact per-lane reference
                                    let mut lanes = vec![init; v];
                                    for (i, &x) in xs.iter().enumerate() {
                                        lanes[i % v] = sop(op, lanes[i % v], x);
                                    }
                                    if regs[0] != lanes {
                                        fail = Some(format!(
                                            "fold {op} over {n} {} elements: lanes {:?}, scalar lane fold gives {:?}",
                                            REG[regime], regs[0], lanes
                                        ));
                                    }
                                } else {
                                    let neutral = match op {
                                        "sum" => T::from_i(0),
                                        "min" => T::MAXV,
                                        _ => T::MINV,
                                    };
                                    let got = regs[0].iter().fold(neutral, |a, &b| sop(op, a, b));
                                    let want = xs.iter().fold(neutral, |a, &b| sop(op, a, b));
                                    if got != want {
                                        fail = Some(format!(
                                            "{kind} {op} over {n} {} elements reduces to {:?}, scalar fold gives {:?}",
                                            REG[regime], got, want
                                        ));
                                    }
                                }
                                regs.iter().map(|r| hcommon::join(r.iter().map(|x| x.show()), ",")).collect::<Vec<_>>().join(";")
                            }
                        };
                        let xs_s = if xs.is_empty() { "e".to_string() } else { hcommon::join(xs.iter().map(|x| x.show()), ",") };
                        let req = format!(
                            "{}fold {} {} {} {} {} ty={} isa={} data={}",
                            if model { "" } else { "# " },
                            kind,
                            v,
                            if pair { "min" } else { op },
                            init.show(),
                            xs_s,
                            T::NAME,
                            ISA_NAMES[w],
                            REG[regime]
                        );
                        out.bucket(&format!("fold_{}_{}_{}", kind, T::NAME, ISA_NAMES[w]));
                        out.case(&req, &ans, fail.as_deref(), n > v && n % v != 0);
                    }
                }
            }
        }
    }
}


// ---------------------------------------------------------------------------------------------
// Masked load/store with ARBITRARY masks (hardware masked ops, AVX2's movemask-driven scalar
// fallback for 8/16-bit lanes, the generic ISA's loops) and the real `dispatch`
// ---------------------------------------------------------------------------------------------

struct EmuOp<'a, T: MemTy> {
    bits: &'a [bool],
    src: *const T,
    dst: *mut T,
    loaded: &'a mut Vec<T>,
}
impl<T: MemTy> SimdOp for EmuOp<'_, T> {
    type Output = ();
    #[inline(always)]
    fn eval<I: Isa>(self, isa: I) {
        let ops = T::num_ops(isa);
        let v = ops.len();
        // lane mask from a comparison, as client code obtains arbitrary masks
        let sel: Vec<T> = (0..v).map(|i| if self.bits.get(i).copied().unwrap_or(false) { T::pat(0) } else { T::default() }).collect();
        let mask = ops.gt(ops.load(&sel), ops.zero());
        let x = unsafe { ops.load_ptr_mask(self.src, mask) };
        self.loaded.extend(x.to_array().as_ref().iter().copied());
        let y = ops.add(x, ops.one());
        unsafe { ops.store_ptr_mask(y, self.dst, mask) };
    }
}

fn emu_cases<T: MemTy>(out: &mut Out, rng: &mut Rng, gsrc: &mut Guard, gdst: &mut Guard, per_len: usize) {
    let sz = std::mem::size_of::<T>();
    for w in 0..3 {
        if !isa_available(w) {
            continue;
        }
        let v = lanes_of::<T>(w);
        let kind = match (w, sz) {
            (1, 1) => "avx2x8",
            (1, 2) => "avx2x16",
            _ => "direct",
        };
        for len in 0..=v {
            for rep in 0..per_len {
                let at_end = rep % 2 == 0;
                // arbitrary mask inside the slice, off beyond it (those lanes lie in the guard page
                // when the slice is flush to the end of the region)
                let bits: Vec<bool> = (0..v).map(|i| i < len && (rep == 0 || rng.chance(1, 2))).collect();
                gsrc.refill();
                gdst.refill();
                let so = gsrc.window(len * sz, at_end);
                let dofs = gdst.window(len * sz, at_end);
                let src: &mut [T] = unsafe { std::slice::from_raw_parts_mut(gsrc.ptr(so) as *mut T, len) };
                for (i, s) in src.iter_mut().enumerate() {
                    *s = T::pat(i);
                }
                let bs: String = bits.iter().map(|&b| if b { '1' } else { '0' }).collect();
                set_cur(&format!("emu {kind} {bs} ty={} isa={} len={len} place={}", T::NAME, ISA_NAMES[w], if at_end { "end" } else { "start" }));
                let mut loaded: Vec<T> = vec![];
                let r = hcommon::catch(|| {
                    run_isa(w, EmuOp::<T> { bits: &bits, src: gsrc.ptr(so) as *const T, dst: gdst.ptr(dofs) as *mut T, loaded: &mut loaded });
                });
                let mut fail: Option<String> = None;
                let ans = match r {
                    Err(m) => format!("panic {m}"),
                    Ok(()) => {
                        let dbytes = unsafe { std::slice::from_raw_parts(gdst.ptr(dofs), len * sz) };
                        let d: &[T] = unsafe { std::slice::from_raw_parts(gdst.ptr(dofs) as *const T, len) };
                        let got_load: Vec<bool> = (0..v).map(|i| !loaded[i].is_zero()).collect();
                        let got_store: Vec<bool> = (0..v).map(|i| i < len && dbytes[i * sz..(i + 1) * sz].iter().any(|&b| b != CANARY)).collect();
                        if got_load != got_store {
                            fail = Some(format!("lanes loaded {:?} differ from lanes stored {:?}", got_load, got_store));
                        }
                        if got_load != bits {
                            fail = Some("accessed lanes differ from the mask".into());
                        }
                        for i in 0..len {
                            if bits[i] && (loaded[i] != T::pat(i) || d[i] != T::pat(i).plus1()) {
                                fail = Some(format!("lane {i}: loaded {:?} stored {:?}, expected {:?} / {:?}", loaded[i], d[i], T::pat(i), T::pat(i).plus1()));
                            }
                        }
                        if !gsrc.canaries_intact(so, len * sz) || !gdst.canaries_intact(dofs, len * sz) {
                            fail = Some("bytes outside the slice were modified".into());
                        }
                        let as_i = |x: T| -> i64 { format!("{:?}", x).parse::<f64>().unwrap_or(-7.0) as i64 };
                        let load_s = hcommon::join(loaded.iter().map(|&x| as_i(x)), ",");
                        let store_s = hcommon::join((0..len).map(|i| if got_store[i] { as_i(d[i]) } else { -1 }), ",");
                        let idx_s = hcommon::join((0..v).filter(|&i| got_load[i]), ",");
                        format!("load={load_s} store={store_s} idx={idx_s}")
                    }
                };
                out.bucket(&format!("emu_{}_{}", kind, ISA_NAMES[w]));
                let src_s = if len == 0 { "e".to_string() } else { hcommon::join((0..len).map(|i| i % 100 + 1), ",") };
                out.case(&format!("emu {kind} {bs} {src_s} ty={} isa={} len={len}", T::NAME, ISA_NAMES[w]), &ans, fail.as_deref(), len > 0 && len < v);
            }
        }
    }
}

/// The real `rten_simd` dispatch (dispatch.rs:30): which ISA does it pick, and is it supported?
struct WhichIsa;
impl SimdOp for WhichIsa {
    type Output = (&'static str, usize);
    fn eval<I: Isa>(self, isa: I) -> Self::Output {
        (std::any::type_name::<I>(), isa.f32().len())
    }
}

fn dispatch_case(out: &mut Out) {
    let (name, lanes) = WhichIsa.dispatch();
    let has512 = is_x86_feature_detected!("avx512f")
        && is_x86_feature_detected!("avx512vl")
        && is_x86_feature_detected!("avx512bw")
        && is_x86_feature_detected!("avx512dq");
    let has2 = is_x86_feature_detected!("avx2") && is_x86_feature_detected!("fma") && is_x86_feature_detected!("f16c");
    let (chosen, want_lanes) = if name.contains("Avx512") {
        ("avx512", 16)
    } else if name.contains("Avx2") {
        ("avx2", 8)
    } else {
        ("generic", 4)
    };
    let best = if has512 { "avx512" } else if has2 { "avx2" } else { "generic" };
    let mut fail = None;
    if (chosen == "avx512" && !has512) || (chosen == "avx2" && !has2) {
        fail = Some(format!("dispatch chose {name} but the CPU does not report its features"));
    } else if chosen != best {
        fail = Some(format!("dispatch chose {chosen} although {best} is supported (not the widest ISA)"));
    } else if lanes != want_lanes {
        fail = Some(format!("{name} reports {lanes} f32 lanes, expected {want_lanes}"));
    }
    // The forced-ISA trampolines of this harness must agree with what dispatch enables.
    out.note(&format!("rten_simd::dispatch picked {name} ({lanes} f32 lanes); cpu: avx512={has512} avx2+fma+f16c={has2}"));
    out.bucket("dispatch");
    out.case(&format!("# dispatch cpu_avx512={has512} cpu_avx2={has2}"), chosen, fail.as_deref(), true);
}

/// rten-vecmath reductions under every ISA, every length 0..=4v+3, sign regimes for which the
/// zero padding of the tail vector is not neutral.
fn vecmath_reductions(out: &mut Out, rng: &mut Rng) {
    use rten_vecmath as vm;
    const REG: [&str; 3] = ["pos", "neg", "mixed"];
    for w in 0..3 {
        if !isa_available(w) {
            continue;
        }
        let v = lanes_of::<f32>(w);
        for regime in 0..3 {
            for n in 0..=(9 * v + 3) {
                let xs = fold_data::<f32>(rng, n, regime);
                let mut fails: Vec<String> = vec![];
                let mut chk = |name: &str, got: Result<Vec<f32>, String>, want: Vec<f32>, tol: f32| match got {
                    Err(m) => fails.push(format!("{name}: isa={} panicked: {m}", ISA_NAMES[w])),
                    Ok(g) => {
                        let ok = g.len() == want.len()
                            && g.iter().zip(&want).all(|(a, b)| fbits(*a) == fbits(*b) || (a - b).abs() <= tol * (1.0 + b.abs()));
                        if !ok {
                            fails.push(format!("{name} over {n} {} elements under {}: {:?}, scalar reference {:?}", REG[regime], ISA_NAMES[w], g, want));
                        }
                    }
                };
                let mn = xs.iter().fold(f32::INFINITY, |a, &b| a.min(b));
                let mx = xs.iter().fold(f32::NEG_INFINITY, |a, &b| a.max(b));
                chk(
                    "MinMax",
                    hcommon::catch(|| {
                        let (a, b) = run_isa(w, vm::MinMax::new(&xs)).unwrap();
                        vec![a, b]
                    }),
                    vec![mn, mx],
                    0.0,
                );
                chk("MaxNum", hcommon::catch(|| vec![run_isa(w, vm::MaxNum::new(&xs[..])).unwrap()]), vec![mx], 0.0);
                chk("MinNum", hcommon::catch(|| vec![run_isa(w, vm::MinNum::new(&xs[..])).unwrap()]), vec![mn], 0.0);
                let s: f64 = xs.iter().map(|&x| x as f64).sum();
                let sq: f64 = xs.iter().map(|&x| (x as f64) * (x as f64)).sum();
                let sa: f64 = xs.iter().map(|&x| (x as f64).abs()).sum();
                chk("Sum", hcommon::catch(|| vec![run_isa(w, vm::Sum::new(&xs)).unwrap()]), vec![s as f32], 1e-6);
                chk("SumSquare", hcommon::catch(|| vec![run_isa(w, vm::SumSquare::new(&xs)).unwrap()]), vec![sq as f32], 1e-6);
                chk("SumAbs", hcommon::catch(|| vec![run_isa(w, vm::SumAbs::new(&xs)).unwrap()]), vec![sa as f32], 1e-6);
                if n > 0 {
                    // inputs around -100: a zero leaking into the max pass makes every exp underflow
                    let xsm: Vec<f32> = xs.iter().map(|&x| if regime == 1 { x * 0.2 - 95.0 } else { x * 0.1 }).collect();
                    let m = xsm.iter().fold(f64::NEG_INFINITY, |a, &b| a.max(b as f64));
                    let e: Vec<f64> = xsm.iter().map(|&x| (x as f64 - m).exp()).collect();
                    let es: f64 = e.iter().sum();
                    let want: Vec<f32> = e.iter().map(|&x| (x / es) as f32).collect();
                    let got = hcommon::catch(|| {
                        let mut d: Vec<MaybeUninit<f32>> = vec![MaybeUninit::new(0.0); xsm.len()];
                        run_isa(w, vm::Softmax::new(&xsm, &mut d)).unwrap().to_vec()
                    });
                    match got {
                        Err(mm) => fails.push(format!("Softmax panicked: {mm}")),
                        Ok(g) => {
                            if let Some(i) = (0..n).find(|&i| !((g[i] - want[i]).abs() <= 3e-6)) {
                                fails.push(format!("Softmax over {n} {} elements under {}: out[{i}] = {:e}, reference {:e}", REG[regime], ISA_NAMES[w], g[i], want[i]));
                            }
                        }
                    }
                }
                out.bucket(&format!("vmred_{}_{}", ISA_NAMES[w], REG[regime]));
                out.case(
                    &format!("# vecmath reductions n={n} isa={} data={} x={}", ISA_NAMES[w], REG[regime], hcommon::join(xs.iter().map(|x| format!("{x:?}")), ",")),
                    "-",
                    fails.first().map(|s| s.as_str()),
                    n > v && n % v != 0,
                );
            }
        }
    }
}

fn main() {
    let args = hcommon::parse_args();
    hcommon::quiet_panics();
    run(&args)
}

fn run(args: &Args) {
    let mut out = Out::new(&args.out);
    let mut rng = Rng::new(args.seed);
    let avail: Vec<&str> = (0..3).filter(|&w| isa_available(w)).map(|w| ISA_NAMES[w]).collect();
    out.note(&format!("ISAs exercised on this host: {}", avail.join(", ")));
    let t = args.thorough;

    // (1) integer lanes against the scalar definition
    exhaustive8::<i8>(&mut out);
    exhaustive8::<u8>(&mut out);
    exhaustive_unary::<i8>(&mut out);
    exhaustive_unary::<i16>(&mut out);
    narrow_cases(&mut out, &mut rng, t);
    let ns = if t { 1500 } else { 150 };
    sampled::<i8>(&mut out, &mut rng, ns / 3);
    sampled::<u8>(&mut out, &mut rng, ns / 3);
    sampled::<i16>(&mut out, &mut rng, ns);
    sampled::<u16>(&mut out, &mut rng, ns);
    sampled::<i32>(&mut out, &mut rng, ns);
    sampled_signed::<i8>(&mut out, &mut rng, ns / 3);
    sampled_signed::<i16>(&mut out, &mut rng, ns);
    sampled_signed::<i32>(&mut out, &mut rng, ns);
    layout_cases(&mut out, &mut rng, if t { 200 } else { 25 });

    // (2) loop schedules, masks, memory bounds
    unsafe {
        signal(11, on_segv as usize);
    }
    let mut gsrc = Guard::new(1 << 14);
    let mut gdst = Guard::new(1 << 14);
    mem_cases::<f32>(&mut out, &mut gsrc, &mut gdst);
    mem_cases::<i32>(&mut out, &mut gsrc, &mut gdst);
    mem_cases::<i16>(&mut out, &mut gsrc, &mut gdst);
    mem_cases::<u16>(&mut out, &mut gsrc, &mut gdst);
    mem_cases::<i8>(&mut out, &mut gsrc, &mut gdst);
    mem_cases::<u8>(&mut out, &mut gsrc, &mut gdst);
    mask_cases::<f32>(&mut out);
    mask_cases::<i32>(&mut out);
    mask_cases::<i16>(&mut out);
    mask_cases::<u16>(&mut out);
    mask_cases::<i8>(&mut out);
    mask_cases::<u8>(&mut out);
    writer_cases(&mut out, &mut rng, &mut gdst, if t { 20000 } else { 2000 });
    let pl = if t { 24 } else { 6 };
    emu_cases::<f32>(&mut out, &mut rng, &mut gsrc, &mut gdst, pl);
    emu_cases::<i32>(&mut out, &mut rng, &mut gsrc, &mut gdst, pl);
    emu_cases::<i16>(&mut out, &mut rng, &mut gsrc, &mut gdst, pl);
    emu_cases::<u16>(&mut out, &mut rng, &mut gsrc, &mut gdst, pl);
    emu_cases::<i8>(&mut out, &mut rng, &mut gsrc, &mut gdst, pl);
    emu_cases::<u8>(&mut out, &mut rng, &mut gsrc, &mut gdst, pl);
    dispatch_case(&mut out);
    fold_cases::<i32>(&mut out, &mut rng, true);
    fold_cases::<f32>(&mut out, &mut rng, false);
    vecmath_reductions(&mut out, &mut rng);

    // (3) float primitives and vecmath ops across ISAs
    float_prim_cases(&mut out, &mut rng, if t { 3000 } else { 300 });
    vecmath_cases(&mut out, &mut rng, if t { 6000 } else { 600 });

    out.finish(
        "exhaustive i8/u8 operand pairs for 15 binary lane ops; complete i8/i16 domains for unary ops and i16->u8 narrowing; \
         boundary-biased 64-lane samples for i16/u16/i32; one-vector layout ops per ISA; every loop (simd_map in-place/src-dst, \
         simd_apply<1|2|4>, Iter::fold, simd_iter_pad, fold_unroll<4>, SliceWriter copy) for 6 element types, every length \
         0..=4v+3 (9v+3 for unroll 4), buffer flush to the end and to the start of a guard-paged region; first_n_mask for every n<=v; masked load/store with arbitrary comparison-produced masks for every slice length <= v (masked-off lanes inside the guard page) for 6 element types under every ISA, answered by the Lean movemask/fallback-loop model; the real rten_simd::dispatch (chosen ISA supported and widest); \
         random SliceWriter call sequences; Iter::fold / fold_unroll<2|4> / fold_n / fold_n_unroll<2,2|4> (sum, min, max, min+max; i32 against the Lean fold model, f32 against the scalar fold) and rten-vecmath MinMax/MaxNum/MinNum/Sum/SumSquare/SumAbs/Softmax under every ISA for every length 0..=4v+3 (9v+3 for unroll 4) with all-positive, all-negative and mixed data; f32 primitives and rten-vecmath ops on special-value-biased vectors under every ISA; \
         non-trivial = has a masked tail after at least one full vector / at least one whole vector of data",
    );
}
