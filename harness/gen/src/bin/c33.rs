//! C33: `rten_generate::sampler::{ArgMax, Multinomial}` on the real crate.
//!
//! Request lines (see `lean/RtenVerif/Driver/C33.lean`):
//!  `am <id>:<score> …`                      ArgMax::sample            → `id=<k>` | `panic`
//!  `mn t=<num> p=<nums> c=<nums>`           private `multinomial()`   → `some <i>` | `none`
//!  `ms t=<num> p=<nums> c=<nums> ids=<csv>` Multinomial::sample       → `id=<k>` | `panic`
//! `<num>` = `<m>@<e>` (= m·2^e, the exact value of an f32).  `t` is the RNG draw, observed by
//! running a copy of `fastrand::Rng` with the same seed next to the sampler; `p` the softmax
//! output computed by the same routine the sampler uses; `c` the f32 running sums.
//! Lines starting with `#` (NaN probabilities: all −inf, NaN or +inf logits) are not compared.
//!
//! Independent oracle (PROPFAIL) on the implementation's answer:
//!  * ArgMax (NaN-free): the id is a candidate and its score is ≥ every score;
//!  * multinomial/Multinomial (NaN-free, some probability > 0): the chosen id is a candidate
//!    and the probability at the chosen position is > 0;
//!  * same seed + same inputs ⇒ same id sequence (fresh sampler, and a clone taken mid-stream).
use hcommon::{Args, Out, Rng};
use rten_generate::sampler::{ArgMax, Multinomial, Sampler};
use rten_generate::verif::{fastrand, multinomial, poison_scratch, softmax_probs, softmax_probs_stale_dst};
use rten_generate::Logits;

const NEG_INF: f32 = f32::NEG_INFINITY;

/// Order-preserving integer image of a non-NaN f32 (−0.0 and +0.0 both map to 0).
fn key(x: f32) -> i64 {
    if x == 0.0 {
        return 0;
    }
    let b = x.to_bits() as i32;
    (if b < 0 { i32::MIN.wrapping_sub(b) } else { b }) as i64
}

fn score_str(x: f32) -> String {
    if x.is_nan() {
        "nan".into()
    } else {
        key(x).to_string()
    }
}

/// Exact `<m>@<e>` form of a finite f32.
fn num(x: f32) -> String {
    let b = x.to_bits();
    let sign = if b >> 31 == 1 { -1i64 } else { 1 };
    let exp = ((b >> 23) & 0xff) as i64;
    let mant = (b & 0x7f_ffff) as i64;
    if exp == 0 {
        format!("{}@-149", sign * mant)
    } else {
        format!("{}@{}", sign * (mant | 1 << 23), exp - 150)
    }
}

fn nums(xs: &[f32]) -> String {
    hcommon::join(xs.iter().map(|x| num(*x)), ",")
}

fn running_sums(probs: &[f32]) -> Vec<f32> {
    let mut cum = 0f32;
    probs
        .iter()
        .map(|p| {
            cum += *p;
            cum
        })
        .collect()
}

fn make_logits(scores: &[f32], ids: Option<&[u32]>) -> Logits {
    match ids {
        Some(ids) => Logits::sparse(scores.to_vec(), ids.to_vec()),
        None => Logits::dense(scores.to_vec()),
    }
}

// ------------------------------------------------------------------ ArgMax

fn argmax_case(out: &mut Out, scores: &[f32], ids: Option<&[u32]>) {
    let idv: Vec<u32> = ids.map(|v| v.to_vec()).unwrap_or_else(|| (0..scores.len() as u32).collect());
    let req = format!(
        "am {}",
        hcommon::join(idv.iter().zip(scores).map(|(i, s)| format!("{i}:{}", score_str(*s))), " ")
    );
    let res = hcommon::catch(|| ArgMax::new().sample(&make_logits(scores, ids)));
    let has_nan = scores.iter().any(|x| x.is_nan());
    let mut fail = None;
    let ans = match res {
        Ok(id) => {
            if !has_nan {
                match idv.iter().position(|i| *i == id) {
                    None => fail = Some(format!("ArgMax returned id {id} which is not a candidate")),
                    Some(p) => {
                        if scores.iter().any(|s| *s > scores[p]) {
                            fail = Some(format!("ArgMax returned id {id} (score {}) but a larger score exists", scores[p]));
                        }
                    }
                }
            }
            format!("id={id}")
        }
        Err(_) => {
            if !scores.is_empty() {
                fail = Some("ArgMax panicked on non-empty logits".into());
            }
            "panic".to_string()
        }
    };
    out.bucket("argmax");
    if has_nan {
        out.bucket("argmax_with_nan");
    }
    if scores.iter().any(|x| *x == NEG_INF) {
        out.bucket("argmax_with_neg_inf");
    }
    if scores.len() == 1 {
        out.bucket("argmax_singleton");
    }
    if ids.is_some() {
        out.bucket("argmax_sparse");
    }
    let maxv = scores.iter().copied().filter(|x| !x.is_nan()).fold(NEG_INF, f32::max);
    let ties = scores.iter().filter(|x| **x == maxv).count() > 1;
    if ties {
        out.bucket("argmax_tied_maximum");
    }
    out.case(&req, &ans, fail.as_deref(), scores.len() >= 2 && !has_nan);
}

// ------------------------------------------------------------------ multinomial loop (hook)

fn mn_case(out: &mut Out, seed: u64, probs: &[f32]) {
    let mut mirror = fastrand::Rng::with_seed(seed);
    let target = mirror.f32();
    let cums = running_sums(probs);
    let req = format!("mn t={} p={} c={}", num(target), nums(probs), nums(&cums));
    let mut rng = fastrand::Rng::with_seed(seed);
    let res = hcommon::catch(|| multinomial(&mut rng, probs));
    let mut fail = None;
    let ans = match res {
        Ok(Some(i)) => {
            if i >= probs.len() {
                fail = Some(format!("index {i} out of range"));
            } else if !(probs[i] > 0.0) {
                fail = Some(format!("multinomial returned index {i} whose probability is {}", probs[i]));
            }
            format!("some {i}")
        }
        Ok(None) => "none".to_string(),
        Err(m) => format!("panic {m}"),
    };
    if rng.get_seed() != mirror.get_seed() {
        fail = Some("multinomial did not consume exactly one RNG draw".into());
    }
    out.bucket("multinomial_loop");
    if ans == "none" {
        out.bucket("multinomial_loop_no_positive_candidate");
    }
    if !cums.is_empty() && !(target < *cums.last().unwrap()) {
        out.bucket("multinomial_loop_walk_off_the_end");
    }
    if probs.first() == Some(&0.0) {
        out.bucket("multinomial_leading_zero_probability");
    }
    out.case(&req, &ans, fail.as_deref(), probs.len() >= 2);
}

// ------------------------------------------------------------------ Multinomial::sample

/// Samples `inputs` in sequence from one seeded sampler; one request line per sample.
fn ms_sequence(out: &mut Out, seed: u64, inputs: &[(Vec<f32>, Option<Vec<u32>>)], tag: &str) {
    let sampler = Multinomial::with_seed(seed);
    let mut mirror = fastrand::Rng::with_seed(seed);
    let mut produced: Vec<Option<u32>> = vec![];
    let mut seq_steps: Vec<Option<String>> = vec![];
    for (scores, ids) in inputs {
        let idv: Vec<u32> = ids.clone().unwrap_or_else(|| (0..scores.len() as u32).collect());
        let logits = make_logits(scores, ids.as_deref());
        let res = hcommon::catch(|| sampler.sample(&logits));
        if scores.is_empty() {
            // assertion fires before the RNG is used
            let ans = if res.is_err() { "panic".to_string() } else { format!("id={}", res.unwrap()) };
            out.bucket("multinomial_empty");
            out.case("ms t=0@0 p= c= ids=", &ans, None, false);
            produced.push(None);
            seq_steps.push(Some("t=- p= c= ids=".to_string()));
            continue;
        }
        let target = mirror.f32();
        let probs = softmax_probs(scores);
        let cums = running_sums(&probs);
        let nan = probs.iter().any(|p| !p.is_finite());
        let any_pos = probs.iter().any(|p| *p > 0.0);
        let mut req = format!(
            "ms t={} p={} c={} ids={}",
            num(target),
            if nan { "nan".into() } else { nums(&probs) },
            if nan { "nan".into() } else { nums(&cums) },
            hcommon::join(idv.iter(), ",")
        );
        if nan {
            // NaN probabilities (all −inf logits, or a NaN / +inf logit): compared with the
            // model's `sampleNaN` (first candidate); the logits are appended as a comment word.
            req = format!("ms t={} p=nan c=nan ids={}", num(target), hcommon::join(idv.iter(), ","));
        } else {
            req += &format!(
                " l={}",
                hcommon::join(scores.iter().map(|x| if *x == NEG_INF { "ninf".to_string() } else { key(*x).to_string() }), ",")
            );
        }
        // The softmax facts the theorems assume, evaluated here on the real vecmath output
        // (independently of the model driver, which evaluates them on the exact values).
        let facts = if nan { None } else { Some(softmax_facts(scores, &probs)) };
        // T3's hypothesis: softmax overwrites its destination without reading it.
        let garbage: Vec<f32> = (0..scores.len() + 3)
            .map(|i| [f32::NAN, f32::INFINITY, 1e30, -5.0, 0.25][i % 5])
            .collect();
        let stale = softmax_probs_stale_dst(scores, &garbage);
        let dst_independent = stale.len() == probs.len()
            && stale.iter().zip(&probs).all(|(a, b)| a.to_bits() == b.to_bits());
        seq_steps.push(if nan {
            None
        } else {
            Some(format!("t={} p={} c={} ids={}", num(target), nums(&probs), nums(&cums), hcommon::join(idv.iter(), ",")))
        });
        let walk = if !nan && target < *cums.last().unwrap() { "hit" } else { "end" };
        let mut fail = None;
        let ans = match res {
            Ok(id) => {
                produced.push(Some(id));
                if !nan && any_pos {
                    // ids are pairwise distinct in every generated case
                    match idv.iter().position(|i| *i == id) {
                        None => fail = Some(format!("sampled id {id} is not a candidate")),
                        Some(p) => {
                            if !(probs[p] > 0.0) {
                                fail = Some(format!(
                                    "seed {seed}: sampled id {id} has probability {} (logit {}); draw={target}, sum of probabilities={}",
                                    probs[p],
                                    scores[p],
                                    cums.last().unwrap()
                                ));
                            }
                        }
                    }
                }
                if nan { format!("id={id}") } else { format!("id={id} walk={walk} asm=ok") }
            }
            Err(m) => {
                produced.push(None);
                fail = Some(format!("Multinomial::sample panicked on non-empty logits: {m}"));
                "panic".to_string()
            }
        };
        out.bucket("multinomial_sample");
        out.bucket(tag);
        if dst_independent {
            out.bucket("softmax_ignores_stale_destination");
        } else {
            out.bucket("ASSUMPTION_VIOLATED_softmax_reads_destination");
            fail = Some(format!("assumption of T3 violated: softmax output depends on stale destination contents for logits {:?}", &scores[..scores.len().min(8)]));
        }
        match &facts {
            Some(Ok(())) => out.bucket("softmax_facts_hold"),
            Some(Err(which)) => {
                out.bucket(&format!("ASSUMPTION_VIOLATED_softmax_{which}"));
                out.note(&format!("softmax fact `{which}` violated by the vecmath output for logits {:?}", &scores[..scores.len().min(12)]));
            }
            None => {}
        }
        if !nan && walk == "end" {
            out.bucket("multinomial_walk_off_the_end");
            let last_pos = probs.iter().rposition(|p| *p > 0.0);
            if last_pos.map(|p| p + 1 < probs.len()).unwrap_or(false) {
                out.bucket("multinomial_walk_off_the_end_with_zero_probability_tail");
            }
        }
        if nan {
            out.bucket("multinomial_nan_probabilities");
        }
        if scores.iter().any(|x| *x == NEG_INF) {
            out.bucket("multinomial_with_neg_inf");
        }
        if scores.len() == 1 {
            out.bucket("multinomial_singleton");
        }
        if ids.is_some() {
            out.bucket("multinomial_sparse");
        }
        if !nan && target > *cums.last().unwrap() {
            out.bucket("multinomial_draw_above_float_sum");
        }
        if target == 0.0 {
            out.bucket("multinomial_draw_zero");
        }
        out.case(&req, &ans, fail.as_deref(), scores.len() >= 2 && !nan);
    }
    // Repeatability: a fresh sampler with the same seed, and a clone taken half way.
    let again = Multinomial::with_seed(seed);
    let mut cloned: Option<Multinomial> = None;
    let half = inputs.len() / 2;
    let mut bad = None;
    for (k, (scores, ids)) in inputs.iter().enumerate() {
        if k == half {
            cloned = Some(again.clone());
        }
        let logits = make_logits(scores, ids.as_deref());
        // whatever an earlier use left in the scratch buffer must not matter
        let junk: Vec<f32> = (0..scores.len() + 5).map(|i| [f32::NAN, 7.5, f32::INFINITY, -1.0][(i + k) % 4]).collect();
        poison_scratch(&again, &junk);
        let a = hcommon::catch(|| again.sample(&logits)).ok();
        if a != produced[k] {
            bad = Some(format!("seed {seed}: sample {k} differs between two samplers with the same seed ({:?} vs {:?})", produced[k], a));
        }
    }
    if let Some(c) = cloned {
        for (k, (scores, ids)) in inputs.iter().enumerate().skip(half) {
            let logits = make_logits(scores, ids.as_deref());
            let a = hcommon::catch(|| c.sample(&logits)).ok();
            if a != produced[k] {
                bad = Some(format!("seed {seed}: sample {k} differs for a clone taken after {half} samples"));
            }
        }
    }
    out.bucket("repeatability_checked_sequences_with_poisoned_scratch");
    // the same sequence through the model's `sampleSeq`
    if !inputs.is_empty() && seq_steps.iter().all(|s| s.is_some()) && seq_steps.iter().map(|s| s.as_ref().unwrap().len()).sum::<usize>() < 60_000 {
        let req = format!("seq {}", hcommon::join(seq_steps.iter().map(|s| s.clone().unwrap()), " | "));
        let ans = format!(
            "ids={}",
            hcommon::join(produced.iter().map(|p| p.map(|x| x.to_string()).unwrap_or("panic".into())), ",")
        );
        out.bucket("sequence_through_model_sampleSeq");
        out.case(&req, &ans, None, inputs.len() >= 2);
    }
    out.case(
        &format!("# repeat seed={seed} n={}", inputs.len()),
        if bad.is_some() { "differs" } else { "same" },
        bad.as_deref(),
        inputs.len() >= 2,
    );
}

/// non-negative / −inf ↦ 0 / sums to 1 within 2^-16 / monotone in the logit
fn softmax_facts(scores: &[f32], probs: &[f32]) -> Result<(), &'static str> {
    if probs.iter().any(|p| *p < 0.0) {
        return Err("negative");
    }
    if scores.iter().zip(probs).any(|(s, p)| *s == NEG_INF && *p != 0.0) {
        return Err("excluded-positive");
    }
    let total: f64 = probs.iter().map(|p| *p as f64).sum();
    if (total - 1.0).abs() > 1.0 / 65536.0 {
        return Err("sum");
    }
    let mut v: Vec<(f32, f32)> = scores.iter().copied().zip(probs.iter().copied()).filter(|(s, _)| *s != NEG_INF).collect();
    v.sort_by(|a, b| a.0.partial_cmp(&b.0).unwrap().then(a.1.partial_cmp(&b.1).unwrap()));
    if v.windows(2).any(|w| w[0].1 > w[1].1) {
        return Err("not-monotone");
    }
    Ok(())
}

fn distinct_ids(rng: &mut Rng, n: usize) -> Vec<u32> {
    let mut v: Vec<u32> = vec![];
    while v.len() < n {
        let x = if rng.chance(1, 50) { u32::MAX - rng.below(3) as u32 } else { rng.below(5000) as u32 };
        if !v.contains(&x) {
            v.push(x);
        }
    }
    if rng.chance(1, 2) {
        v.sort();
    }
    v
}

fn random_logits(rng: &mut Rng, n: usize) -> Vec<f32> {
    let style = rng.below(4);
    (0..n)
        .map(|_| {
            if rng.chance(1, 5) {
                NEG_INF
            } else {
                match style {
                    0 => rng.range_i64(-3, 3) as f32,             // many ties
                    1 => (rng.f32_unit() - 0.5) * 20.0,
                    2 => (rng.f32_unit() - 0.5) * 200.0,          // peaked: many underflow to 0
                    _ => rng.range_i64(-1, 1) as f32 * 0.5,
                }
            }
        })
        .collect()
}

fn main() {
    let args = hcommon::parse_args();
    hcommon::quiet_panics();
    run(&args)
}

fn run(args: &Args) {
    let mut out = Out::new(&args.out);
    let mut rng = Rng::new(args.seed);
    let thorough = args.thorough;

    // ---- A. ArgMax: exhaustive small score lists over an alphabet with −inf, ±0, ties, +inf, NaN
    let alpha = [NEG_INF, -1.5, -0.0, 0.0, 2.0, f32::INFINITY, f32::NAN];
    let maxlen = if thorough { 6 } else { 5 };
    argmax_case(&mut out, &[], None);
    for len in 1..=maxlen {
        let total = alpha.len().pow(len as u32);
        for mut code in 0..total {
            let mut v = vec![];
            for _ in 0..len {
                v.push(alpha[code % alpha.len()]);
                code /= alpha.len();
            }
            argmax_case(&mut out, &v, None);
        }
    }
    let n = if thorough { 200_000 } else { 20_000 };
    for _ in 0..n {
        let cap = if rng.chance(1, 10) { 300 } else { 12 };
        let len = 1 + rng.usize_below(cap);
        let mut v = random_logits(&mut rng, len);
        if rng.chance(1, 20) {
            let k = rng.usize_below(len);
            v[k] = f32::NAN;
        }
        if rng.chance(1, 10) {
            v = vec![NEG_INF; len];
        }
        if rng.chance(1, 2) {
            let ids = distinct_ids(&mut rng, len);
            argmax_case(&mut out, &v, Some(&ids));
        } else {
            argmax_case(&mut out, &v, None);
        }
    }

    // ---- B. the private multinomial loop on exact dyadic probabilities (multiples of 1/64,
    //         sums exact in f32), including leading zeros and totals below/above 1
    let n = if thorough { 300_000 } else { 30_000 };
    for _ in 0..n {
        let len = rng.usize_below(7);
        let total_target = *rng.pick(&[64u64, 64, 64, 48, 16, 80, 0]);
        let mut w = vec![0u64; len];
        if len > 0 {
            for _ in 0..total_target {
                let k = rng.usize_below(len);
                if !(k == 0 && rng.chance(1, 2)) {
                    w[k] += 1;
                }
            }
            if rng.chance(1, 3) {
                w[0] = 0;
            }
        }
        let probs: Vec<f32> = w.iter().map(|x| *x as f32 / 64.0).collect();
        mn_case(&mut out, rng.next_u64(), &probs);
    }

    // ---- C. Multinomial::sample: exhaustive small logit sets × seeds, then random
    let alpha = [NEG_INF, -2.0, 0.0, 0.0, 3.0];
    let maxlen = if thorough { 5 } else { 4 };
    for len in 1..=maxlen {
        let total = alpha.len().pow(len as u32);
        for mut code in 0..total {
            let mut v = vec![];
            for _ in 0..len {
                v.push(alpha[code % alpha.len()]);
                code /= alpha.len();
            }
            let seqlen = if thorough { 4 } else { 2 };
            let inputs: Vec<_> = (0..seqlen).map(|_| (v.clone(), None)).collect();
            ms_sequence(&mut out, rng.next_u64(), &inputs, "multinomial_exhaustive_small");
        }
    }
    ms_sequence(&mut out, 1, &[(vec![], None), (vec![0.0, 1.0], None), (vec![], None), (vec![0.0, 1.0], None)], "multinomial_directed");
    ms_sequence(&mut out, 1234, &[(vec![0.1, f32::NAN, 0.5], None), (vec![0.1, f32::INFINITY, 0.5], None), (vec![0., NEG_INF, 100.0], None)], "multinomial_directed");
    let n = if thorough { 60_000 } else { 6_000 };
    for _ in 0..n {
        let seqlen = 1 + rng.usize_below(6);
        let mut inputs = vec![];
        for _ in 0..seqlen {
            let cap = if rng.chance(1, 15) { 400 } else { 10 };
            let len = 1 + rng.usize_below(cap);
            let mut v = random_logits(&mut rng, len);
            if rng.chance(1, 25) {
                v = vec![NEG_INF; len];
            }
            if rng.chance(1, 3) {
                v[0] = NEG_INF;
            }
            let ids = if rng.chance(1, 2) { Some(distinct_ids(&mut rng, len)) } else { None };
            inputs.push((v, ids));
        }
        ms_sequence(&mut out, rng.next_u64(), &inputs, "multinomial_random");
    }

    // ---- D. seed searches for the two regions the proof of the legacy loop excludes
    // ---- E. off-the-end walks: "scripted" draws just below 1 (the seeds with the highest first
    //         draw among a block of consecutive seeds) against logit vectors whose softmax output
    //         sums, in f32, to less than 1; −inf logits at the front, in the middle and at the tail
    let block: u64 = if thorough { 400_000_000 } else { 40_000_000 };
    let estart = rng.next_u64();
    let mut high: Vec<(f32, u64)> = vec![];
    let mut floor = 1.0f32 - 1.0 / 65536.0;
    for i in 0..block {
        let sd = estart.wrapping_add(i);
        let d = fastrand::Rng::with_seed(sd).f32();
        if d >= floor {
            high.push((d, sd));
            if high.len() > 4096 {
                high.sort_by(|a, b| b.0.partial_cmp(&a.0).unwrap());
                high.truncate(256);
                floor = high.last().unwrap().0;
            }
        }
    }
    high.sort_by(|a, b| b.0.partial_cmp(&a.0).unwrap());
    high.truncate(256);
    out.note(&format!(
        "family E: {} high-draw seeds from a block of {block}; highest first draw {:?}, lowest kept {:?}",
        high.len(),
        high.first().map(|h| h.0),
        high.last().map(|h| h.0)
    ));
    let want_e = if thorough { 20_000 } else { 2_000 };
    let mut got_e = 0;
    let mut tried = 0u64;
    while got_e < want_e && tried < 4_000_000 && !high.is_empty() {
        tried += 1;
        let cap = if rng.chance(1, 4) { 120 } else { 24 };
        let n = 2 + rng.usize_below(cap);
        let mut v: Vec<f32> = (0..n).map(|_| rng.range_i64(-12, 12) as f32 * 0.25).collect();
        match rng.below(4) {
            0 => v[0] = NEG_INF,
            1 => {
                let k = 1 + rng.usize_below(n.min(4));
                for x in v[n - k.min(n - 1)..].iter_mut() {
                    *x = NEG_INF;
                }
            }
            2 => {
                for x in v.iter_mut() {
                    if rng.chance(1, 4) {
                        *x = NEG_INF;
                    }
                }
            }
            _ => {}
        }
        if v.iter().all(|x| *x == NEG_INF) {
            v[n / 2] = 0.0;
        }
        let probs = softmax_probs(&v);
        let total = *running_sums(&probs).last().unwrap();
        if !(total < 1.0) {
            continue;
        }
        // a seed whose draw lies in the gap [total, 1)
        let cands: Vec<&(f32, u64)> = high.iter().filter(|h| h.0 >= total).collect();
        if cands.is_empty() {
            continue;
        }
        let (_, sd) = **rng.pick(&cands);
        let ids = if rng.chance(1, 2) { Some(distinct_ids(&mut rng, n)) } else { None };
        ms_sequence(&mut out, sd, &[(v, ids)], "multinomial_scripted_draw_in_rounding_gap");
        got_e += 1;
    }
    out.note(&format!("family E: {got_e} off-the-end cases from {tried} candidate logit vectors"));
    // D1-directed: WyRand (fastrand) outputs 0 when `seed + 0x2d358dccaa6c78a5` is 0 or equals the
    // second WyRand constant, so these two seeds make the first `rng.f32()` exactly 0.0 with every
    // fastrand 2.x (23-bit draws in 2.3.0 as well as 63-bit draws in 2.5.0).
    for s in [
        0u64.wrapping_sub(0x2d35_8dcc_aa6c_78a5),
        0x8bb8_4b93_962e_acc9u64.wrapping_sub(0x2d35_8dcc_aa6c_78a5),
    ] {
        let draw = fastrand::Rng::with_seed(s).f32();
        out.note(&format!("directed seed {s}: first rng.f32() = {draw}"));
        ms_sequence(&mut out, s, &[(vec![NEG_INF, 0.0], None)], "multinomial_directed_draw_zero");
        ms_sequence(&mut out, s, &[(vec![NEG_INF, NEG_INF, 1.0, 2.0], Some(vec![17, 3, 9, 4]))], "multinomial_directed_draw_zero");
        let mut rng0 = fastrand::Rng::with_seed(s);
        let _ = rng0; // (the private loop is exercised through `mn_case` with the same seed)
        mn_case(&mut out, s, &[0.0, 0.25, 0.75]);
    }
    // D1: a seed whose first draw is exactly 0.0, with logits [-inf, 0]
    let start = rng.next_u64();
    let budget: u64 = if thorough { 200_000_000 } else { 30_000_000 };
    let mut found0 = None;
    for i in 0..budget {
        let s = start.wrapping_add(i);
        if fastrand::Rng::with_seed(s).f32() == 0.0 {
            found0 = Some((s, i));
            break;
        }
    }
    match found0 {
        Some((s, i)) => {
            out.note(&format!("seed search D1: Multinomial::with_seed({s}) draws rng.f32() == 0.0 first (found after {i} seeds)"));
            ms_sequence(&mut out, s, &[(vec![NEG_INF, 0.0], None)], "multinomial_seed_search_draw_zero");
            ms_sequence(&mut out, s, &[(vec![NEG_INF, NEG_INF, 1.0, 2.0], Some(vec![17, 3, 9, 4]))], "multinomial_seed_search_draw_zero");
        }
        None => out.note(&format!("seed search D1: no seed with first draw 0.0 among {budget} seeds from {start}")),
    }
    // D2: a draw above the f32 running sum of the softmax output (sum rounds below 1),
    //     with a leading −inf logit so that index 0 has probability 0
    let mut reached = 0;
    for n in [1000usize, 3000, 5000, 20000] {
        let mut v = vec![0.0f32; n];
        v[0] = NEG_INF;
        let probs = softmax_probs(&v);
        let total = *running_sums(&probs).last().unwrap();
        let mut found = None;
        if total < 1.0 {
            for i in 0..20_000_000u64 {
                let s = start.wrapping_add(i);
                if fastrand::Rng::with_seed(s).f32() >= total {
                    found = Some((s, i));
                    break;
                }
            }
        }
        match found {
            Some((s, i)) => {
                reached += 1;
                out.note(&format!("seed search D2: n={n} uniform logits after a leading -inf: f32 sum of probabilities = {total}; seed {s} draws above it (found after {i} seeds)"));
                ms_sequence(&mut out, s, &[(v.clone(), None)], "multinomial_seed_search_draw_above_sum");
            }
            None => out.note(&format!("seed search D2: n={n}: f32 sum of probabilities = {total}; no draw above it found")),
        }
    }
    out.note(&format!("seed search D2 reached {reached} of 4 configurations"));
    // D2-small: short logit vectors whose softmax output sums (in f32) to at most 1 - 2^-23
    let mut small = 0;
    let tries = if thorough { 2_000_000 } else { 200_000 };
    for _ in 0..tries {
        if small >= 3 {
            break;
        }
        let n = 3 + rng.usize_below(10);
        let mut v: Vec<f32> = (0..n).map(|_| rng.range_i64(-8, 8) as f32 * 0.25).collect();
        v[0] = NEG_INF;
        let probs = softmax_probs(&v);
        let total = *running_sums(&probs).last().unwrap();
        if !(total <= 1.0 - 1.0 / 8388608.0) {
            continue;
        }
        let mut found = None;
        for i in 0..200_000_000u64 {
            let s = start.wrapping_add(i);
            if fastrand::Rng::with_seed(s).f32() >= total {
                found = Some((s, i));
                break;
            }
        }
        if let Some((s, i)) = found {
            small += 1;
            out.note(&format!("seed search D2-small: logits {:?}: f32 sum of probabilities = {total}; seed {s} draws above it (found after {i} seeds)", v));
            ms_sequence(&mut out, s, &[(v.clone(), None)], "multinomial_seed_search_draw_above_sum");
        }
    }
    out.note(&format!("seed search D2-small reached {small} short logit vectors"));
    out.finish("ArgMax: exhaustive score lists (len<=5/6 over {-inf,-1.5,-0,+0,2,+inf,NaN}) + random dense/sparse up to 300; multinomial loop on exact dyadic probabilities; Multinomial::sample on exhaustive small and random logit sets (dense/sparse, -inf, ties, singletons, all -inf, up to 400) in seeded sequences with the RNG draw mirrored; seed searches for draw == 0 and draw > float sum");
}
