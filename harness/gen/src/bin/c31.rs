//! C31: logit filters (`TopK`/`SimdTopK`, `TopP`, `Sort`, `token_id_filter`, `Temperature`,
//! `Chain`) of the real `rten-generate` crate against the Lean model `RtenVerif.Model.Filter`.
//!
//! Scores travel as decimal f32 bit patterns, candidates as `id:bits`, the empty list as `-`.
//! Request lines (answer = kept candidates in output order | `panic` | model may say `skip`):
//!   `cmp <a> <b>`                         answer `<lt|eq|gt> <0|1>` (total_cmp, IEEE `a > b`)
//!   `topk <d|s> <k> | <items>`            `TopK::new(k)`
//!   `topk@<isa> <d|s> <k> | <items>`      the private `SimdTopK` kernel with ISA generic/avx2/avx512 (hook)
//!   `topp <d|s> <pbits> | <items>`        `TopP::new(p).normalize(false)`
//!   `sort <d|s> | <items>`                `Sort::new()`
//!   `# toppn <d|s> <pbits> | <items>`     `TopP::new(p).normalize(true)` (oracle-only)
//!   `chain <d|s> <spec,spec,…> | <items>` `Chain` (specs: k<k> p<pbits> s m<m>.<r> g<c> T<temperature bits>;
//!                                         `e` = empty chain)
//! A line starting with `# ` is not compared with the model: it either carries a PROPFAIL
//! (the property's own oracle failed on the implementation's output — kept on a separate line
//! so that the plain line is still diffed against the model) or is an oracle-only case outside
//! the model's exact domain (softmax-normalised TopP, inexact f32 sums). Temperatures that are
//! not 1.0 or an exactly scaling power of two are answered `skip` by the model; NaN / negative
//! temperatures must panic (`assert!(temperature >= 0.)`), which is an expected outcome.
//!
//! Independent oracles evaluated on the implementation's output:
//!  * TopK: exactly min(k,n) entries, sorted descending by total order, a sub-multiset of the
//!    input, and its score multiset equals the min(k,n) largest of the input by total order
//!    (failure tags: `(nan)` / `(signed-zero)` only when the output is exactly the scalar IEEE-`>`
//!    reference run — input with a NaN, resp. NaN-free and numerically the top-k — `(order)` for
//!    anything else);
//!  * TopP: non-empty for non-empty input, sub-multiset, score multiset equals the shortest
//!    prefix of the descending-sorted input whose exact (f64) sum reaches max(p, MIN_POSITIVE);
//!  * Sort: stable descending permutation;
//!  * Chain: equal to applying the individually constructed filters one after the other;
//!  * no panic anywhere.
use hcommon::{Args, Out, Rng};
use rten_generate::filter::{token_id_filter, Chain, LogitsFilter, Sort, Temperature, TopK, TopP};
use rten_generate::Logits;
use std::collections::HashMap;

type Item = (u32, u32); // (token id, score bits)

const P0: u32 = 0x0000_0000;
const N0: u32 = 0x8000_0000;
const ONE: u32 = 0x3f80_0000;
const PINF: u32 = 0x7f80_0000;
const NINF: u32 = 0xff80_0000;
const QNAN: u32 = 0x7fc0_0000;
const NQNAN: u32 = 0xffc0_0000;
const SPECIALS: [u32; 18] = [
    P0, N0, ONE, 0xbf80_0000, 0x4000_0000, 0xc000_0000, PINF, NINF, QNAN, NQNAN, 0x7f80_0001, 0xffff_ffff,
    0x0000_0001, 0x8000_0001, 0x007f_ffff, 0x0080_0000, 0x7f7f_ffff, 0xff7f_ffff,
];

/// total_cmp key computed from the bit pattern (independent of `f32::total_cmp`).
fn tkey(b: u32) -> i64 {
    if b < 0x8000_0000 {
        b as i64
    } else {
        -1 - (b & 0x7fff_ffff) as i64
    }
}
/// numeric key (sign * magnitude), valid for non-NaN.
fn nkey(b: u32) -> i64 {
    if b < 0x8000_0000 {
        b as i64
    } else {
        -((b & 0x7fff_ffff) as i64)
    }
}
fn is_nan(b: u32) -> bool {
    (b & 0x7fff_ffff) > 0x7f80_0000
}
fn is_finite(b: u32) -> bool {
    (b & 0x7fff_ffff) < 0x7f80_0000
}

fn show_items(xs: &[Item]) -> String {
    if xs.is_empty() {
        "-".to_string()
    } else {
        hcommon::join(xs.iter().map(|(i, b)| format!("{i}:{b}")), " ")
    }
}

fn is_dense(xs: &[Item]) -> bool {
    xs.iter().enumerate().all(|(i, (id, _))| *id as usize == i)
}

fn to_logits(xs: &[Item]) -> Logits {
    let vals: Vec<f32> = xs.iter().map(|(_, b)| f32::from_bits(*b)).collect();
    if is_dense(xs) {
        Logits::dense(vals)
    } else {
        Logits::sparse(vals, xs.iter().map(|(i, _)| *i).collect())
    }
}

fn from_logits(l: &Logits) -> Vec<Item> {
    l.indices().iter().zip(l.logits()).map(|(i, v)| (*i, v.to_bits())).collect()
}

#[derive(Clone, Debug)]
enum Spec {
    TopK(usize),
    TopP(u32),
    Sort,
    IdMod(u32, u32),
    IdGe(u32),
    Temp(i32),
    /// outside the model: `TopP::new(p).normalize(true)`
    TopPNorm(u32),
    /// outside the model: arbitrary temperature (bits)
    TempAny(u32),
}

impl Spec {
    fn show(&self) -> String {
        match self {
            Spec::TopK(k) => format!("k{k}"),
            Spec::TopP(p) => format!("p{p}"),
            Spec::Sort => "s".into(),
            Spec::IdMod(m, r) => format!("m{m}.{r}"),
            Spec::IdGe(c) => format!("g{c}"),
            Spec::Temp(j) => format!("T{}", 2f32.powi(*j).to_bits()),
            Spec::TopPNorm(p) => format!("P{p}"),
            Spec::TempAny(t) => format!("T{t}"),
        }
    }
    /// Does constructing this filter trip `assert!(temperature >= 0.)`?
    fn invalid_temperature(&self) -> bool {
        match self {
            Spec::TempAny(t) => !(f32::from_bits(*t) >= 0.0),
            _ => false,
        }
    }
    fn modelled(&self) -> bool {
        !matches!(self, Spec::TopPNorm(_))
    }
    fn apply(&self, l: Logits, prev: &[u32]) -> Logits {
        match *self {
            Spec::TopK(k) => TopK::new(k).filter(l, prev),
            Spec::TopP(p) => TopP::new(f32::from_bits(p)).normalize(false).filter(l, prev),
            Spec::TopPNorm(p) => TopP::new(f32::from_bits(p)).normalize(true).filter(l, prev),
            Spec::Sort => Sort::new().filter(l, prev),
            Spec::IdMod(m, r) => token_id_filter(move |id| id % m == r).filter(l, prev),
            Spec::IdGe(c) => token_id_filter(move |id| id >= c).filter(l, prev),
            Spec::Temp(j) => Temperature::new(2f32.powi(j)).filter(l, prev),
            Spec::TempAny(t) => Temperature::new(f32::from_bits(t)).filter(l, prev),
        }
    }
    fn push(&self, c: Chain) -> Chain {
        match *self {
            Spec::TopK(k) => c.top_k(k),
            Spec::TopP(p) => c.append(TopP::new(f32::from_bits(p)).normalize(false)),
            Spec::TopPNorm(p) => c.append(TopP::new(f32::from_bits(p)).normalize(true)),
            Spec::Sort => c.append(Sort::new()),
            Spec::IdMod(m, r) => c.append(token_id_filter(move |id| id % m == r)),
            Spec::IdGe(c0) => c.append(token_id_filter(move |id| id >= c0)),
            Spec::Temp(j) => c.temperature(2f32.powi(j)),
            Spec::TempAny(t) => c.temperature(f32::from_bits(t)),
        }
    }
}

fn multiset(xs: &[Item]) -> HashMap<Item, i64> {
    let mut m = HashMap::new();
    for x in xs {
        *m.entry(*x).or_insert(0) += 1;
    }
    m
}

fn sub_multiset(out: &[Item], input: &[Item]) -> bool {
    let mut m = multiset(input);
    for x in out {
        let e = m.entry(*x).or_insert(0);
        *e -= 1;
        if *e < 0 {
            return false;
        }
    }
    true
}

/// Property oracle for one TopK application.
fn oracle_topk(k: usize, input: &[Item], out: &[Item]) -> Option<String> {
    let n = input.len();
    let m = k.min(n);
    if out.len() != m {
        return Some(format!("topk:len got {} want min(k,n)={}", out.len(), m));
    }
    if out.windows(2).any(|w| tkey(w[0].1) < tkey(w[1].1)) {
        return Some("topk:not-sorted descending by total order".into());
    }
    if !sub_multiset(out, input) {
        return Some("topk:not-submultiset of the input candidates".into());
    }
    let mut keys: Vec<i64> = input.iter().map(|x| tkey(x.1)).collect();
    keys.sort_by(|a, b| b.cmp(a));
    keys.truncate(m);
    let got: Vec<i64> = out.iter().map(|x| tkey(x.1)).collect();
    if got != keys {
        // The two known deviations are tagged only when the output is EXACTLY what the documented
        // comparison semantics give (running top-k updated with the IEEE test `logit > kth`, which is
        // false for NaN operands and for +0.0 vs -0.0); anything else — e.g. a misranked finite value
        // in an input that merely contains a NaN — is a plain `(order)` failure.
        let has_nan = input.iter().any(|x| is_nan(x.1));
        let why = if out == ref_topk_ieee(k, input).as_slice() {
            if has_nan {
                "(nan) output equals the IEEE-> reference run;"
            } else {
                let mut nk: Vec<i64> = input.iter().map(|x| nkey(x.1)).collect();
                nk.sort_by(|a, b| b.cmp(a));
                nk.truncate(m);
                let mut gn: Vec<i64> = out.iter().map(|x| nkey(x.1)).collect();
                gn.sort_by(|a, b| b.cmp(a));
                if gn == nk {
                    "(signed-zero) output equals the IEEE-> reference run and is numerically the top-k;"
                } else {
                    "(order)"
                }
            }
        } else {
            "(order)"
        };
        return Some(format!(
            "topk:not-k-largest {why} kept scores are not the min(k,n) largest by total order: kept [{}]",
            hcommon::join(out.iter().map(|x| format!("{:e}", f32::from_bits(x.1))), ",")
        ));
    }
    None
}

/// Scalar reference for the documented update rule: sorted first k, then each further candidate
/// replaces the k-th entry iff `logit > kth_logit` in IEEE arithmetic (stable re-sort by total order).
fn ref_topk_ieee(k: usize, input: &[Item]) -> Vec<Item> {
    let k = k.min(input.len());
    let mut top = ref_sort(&input[..k]);
    if k == 0 {
        return top;
    }
    for x in &input[k..] {
        let kth = f32::from_bits(top[k - 1].1);
        if f32::from_bits(x.1) > kth {
            top.pop();
            let mut pos = top.len();
            while pos > 0 && tkey(top[pos - 1].1) < tkey(x.1) {
                pos -= 1;
            }
            top.insert(pos, *x);
        }
    }
    top
}

/// Stable descending sort by total order, written out (insertion sort).
fn ref_sort(input: &[Item]) -> Vec<Item> {
    let mut v: Vec<Item> = Vec::with_capacity(input.len());
    for x in input {
        // after all elements with key >= key x
        let mut pos = v.len();
        while pos > 0 && tkey(v[pos - 1].1) < tkey(x.1) {
            pos -= 1;
        }
        v.insert(pos, *x);
    }
    v
}

fn oracle_sort(input: &[Item], out: &[Item]) -> Option<String> {
    if out != ref_sort(input).as_slice() {
        return Some("sort:not the stable descending permutation".into());
    }
    None
}

/// f64 value of a finite f32 pattern (exact).
fn val64(b: u32) -> f64 {
    f32::from_bits(b) as f64
}

/// Are all f32 partial sums of the descending-sorted values exact (equal to the f64 sums, which
/// are exact for the harness's dyadic inputs)?  ±inf / NaN entries follow the IEEE rules in both
/// precisions, so they are fine as long as the finite partial sums are exact.
fn sums_exact(sorted: &[Item]) -> bool {
    let mut c32 = 0f32;
    let mut c64 = 0f64;
    for x in sorted {
        c32 += f32::from_bits(x.1);
        c64 += val64(x.1);
        if c64.is_nan() {
            // NaN stays NaN in both precisions
            if !c32.is_nan() {
                return false;
            }
            continue;
        }
        if !(c32 as f64 == c64) {
            return false; // rounding, or f32 overflow to inf
        }
        if c64.is_infinite() {
            continue;
        }
        // the f64 sum itself must be exact: all operands are multiples of 2^-40 below 2^12
        if c64.abs() >= 4096.0 || (c64 * (1u64 << 40) as f64).fract() != 0.0 {
            return false;
        }
    }
    true
}

/// Property oracle for TopP without normalisation on inputs with exact sums (any p, scores may
/// be ±inf / NaN): shortest descending prefix at which the IEEE test `cum < thr` fails.
fn oracle_topp(pbits: u32, input: &[Item], out: &[Item]) -> Option<String> {
    if !input.is_empty() && out.is_empty() {
        return Some("topp:empty output for non-empty input".into());
    }
    if !sub_multiset(out, input) {
        return Some("topp:not-submultiset of the input candidates".into());
    }
    let sorted = ref_sort(input);
    let thr = val64(pbits).max(f32::MIN_POSITIVE as f64);
    let mut cum = 0f64;
    let mut kmin = sorted.len();
    for (i, x) in sorted.iter().enumerate() {
        cum += val64(x.1);
        if !(cum < thr) {
            kmin = i + 1;
            break;
        }
    }
    let want: Vec<i64> = sorted[..kmin].iter().map(|x| tkey(x.1)).collect();
    let mut got: Vec<i64> = out.iter().map(|x| tkey(x.1)).collect();
    got.sort_by(|a, b| b.cmp(a));
    if got != want {
        // known deviation only: p == 1.0 returns the input itself, unchanged
        if pbits == ONE && out == input {
            return Some(format!(
                "topp:p1-keeps-everything kept {} of {} candidates (input returned unchanged), shortest descending prefix reaching the threshold has {}",
                out.len(),
                input.len(),
                kmin
            ));
        }
        return Some(format!(
            "topp:not-minimal-prefix kept {} of {} candidates, shortest descending prefix reaching the threshold has {}",
            out.len(),
            input.len(),
            kmin
        ));
    }
    None
}

/// Weak oracle for cases outside the exact domain (non-finite or inexact sums, softmax).
fn oracle_topp_weak(input: &[Item], out: &[Item]) -> Option<String> {
    if !input.is_empty() && out.is_empty() {
        return Some("topp:empty output for non-empty input".into());
    }
    if out.len() > input.len() {
        return Some("topp:more outputs than inputs".into());
    }
    None
}

/// Oracle for softmax-normalised TopP (ids distinct).  f32 softmax vs f64 reference: the kept
/// count must lie between the counts for thresholds `thr - eps` and `thr + eps`.
fn oracle_toppn(pbits: u32, input: &[Item], out: &[Item]) -> Option<String> {
    if !input.is_empty() && out.is_empty() {
        return Some("topp:empty output for non-empty input".into());
    }
    if pbits == ONE {
        return (out != input).then(|| "topp-norm:p=1 must return the input unchanged".to_string());
    }
    if input.is_empty() || !is_finite(pbits) || input.iter().any(|x| !is_finite(x.1)) {
        return (out.len() > input.len()).then(|| "topp:more outputs than inputs".to_string());
    }
    let logit_of: HashMap<u32, f64> = input.iter().map(|x| (x.0, val64(x.1))).collect();
    if out.iter().any(|x| !logit_of.contains_key(&x.0)) {
        return Some("topp-norm:unknown id in output".into());
    }
    let mut ids: Vec<u32> = out.iter().map(|x| x.0).collect();
    ids.sort();
    if ids.windows(2).any(|w| w[0] == w[1]) {
        return Some("topp-norm:duplicate id in output".into());
    }
    if out.windows(2).any(|w| tkey(w[0].1) < tkey(w[1].1)) {
        return Some("topp-norm:output probabilities not sorted descending".into());
    }
    // kept candidates are the highest logits
    let min_kept = out.iter().map(|x| logit_of[&x.0]).fold(f64::INFINITY, f64::min);
    let kept: std::collections::HashSet<u32> = ids.iter().copied().collect();
    let max_excl = input.iter().filter(|x| !kept.contains(&x.0)).map(|x| val64(x.1)).fold(f64::NEG_INFINITY, f64::max);
    // (f32 softmax cannot separate logits closer than about one ulp of the largest magnitude)
    let maxabs = input.iter().map(|x| val64(x.1).abs()).fold(0.0, f64::max);
    if max_excl > min_kept + 3e-7 * maxabs + 2e-7 {
        return Some(format!("topp-norm:not-highest an excluded logit {max_excl} exceeds a kept one {min_kept}"));
    }
    // count band
    let mx = input.iter().map(|x| val64(x.1)).fold(f64::NEG_INFINITY, f64::max);
    let mut probs: Vec<f64> = input.iter().map(|x| (val64(x.1) - mx).exp()).collect();
    let sum: f64 = probs.iter().sum();
    for q in probs.iter_mut() {
        *q /= sum;
    }
    probs.sort_by(|a, b| b.partial_cmp(a).unwrap());
    let thr = val64(pbits).max(f32::MIN_POSITIVE as f64);
    let eps = 2e-5 * (input.len() as f64 + 4.0);
    let count = |t: f64| -> usize {
        let mut c = 0f64;
        for (i, q) in probs.iter().enumerate() {
            c += q;
            if c >= t {
                return i + 1;
            }
        }
        probs.len()
    };
    let lo = count((thr - eps).max(f64::MIN_POSITIVE));
    let hi = count(thr + eps);
    if out.len() < lo || out.len() > hi {
        return Some(format!("topp-norm:not-minimal-prefix kept {} candidates, f64 softmax reference allows {lo}..={hi}", out.len()));
    }
    None
}

fn oracle_step(spec: &Spec, input: &[Item], out: &[Item]) -> Option<String> {
    match spec {
        Spec::TopK(k) => oracle_topk(*k, input, out),
        Spec::Sort => oracle_sort(input, out),
        Spec::TopP(p) => {
            if sums_exact(&ref_sort(input)) {
                oracle_topp(*p, input, out)
            } else {
                oracle_topp_weak(input, out)
            }
        }
        Spec::TopPNorm(_) => {
            // softmax changes the scores; ids must still be a sub-multiset
            let mut ids: HashMap<u32, i64> = HashMap::new();
            for x in input {
                *ids.entry(x.0).or_insert(0) += 1;
            }
            for x in out {
                let e = ids.entry(x.0).or_insert(0);
                *e -= 1;
                if *e < 0 {
                    return Some("topp-norm:ids not a sub-multiset".into());
                }
            }
            if !input.is_empty() && out.is_empty() && input.iter().all(|x| is_finite(x.1)) {
                return Some("topp:empty output for non-empty input".into());
            }
            None
        }
        Spec::IdMod(m, r) => {
            let want: Vec<Item> = input.iter().copied().filter(|x| x.0 % m == *r).collect();
            (want != out).then(|| "token_id_filter:wrong candidates".to_string())
        }
        Spec::IdGe(c) => {
            let want: Vec<Item> = input.iter().copied().filter(|x| x.0 >= *c).collect();
            (want != out).then(|| "token_id_filter:wrong candidates".to_string())
        }
        Spec::Temp(_) | Spec::TempAny(_) => {
            let ok = input.len() == out.len() && input.iter().zip(out).all(|(a, b)| a.0 == b.0);
            (!ok).then(|| "temperature:changed the candidate ids".to_string())
        }
    }
}

struct Ctx {
    out: Out,
    prev: Vec<u32>,
}

impl Ctx {
    /// Record a case: plain line (compared with the model unless `modelled` is false), plus a
    /// separate `# ` line carrying the PROPFAIL if the oracle failed.
    fn emit(&mut self, req: &str, ans: &str, fail: Option<String>, modelled: bool, nontrivial: bool) {
        if modelled {
            self.out.case(req, ans, None, nontrivial);
            if let Some(f) = fail {
                self.out.case(&format!("# {req}"), ans, Some(&f), false);
            }
        } else {
            self.out.case(&format!("# {req}"), ans, fail.as_deref(), nontrivial);
        }
    }

    fn classify(&mut self, kind: &str, xs: &[Item]) {
        let n = xs.len();
        self.out.bucket(&format!("kind_{kind}"));
        self.out.bucket(if is_dense(xs) { "input_dense" } else { "input_sparse" });
        self.out.bucket(match n {
            0 => "n_0",
            1..=6 => "n_1-6",
            7..=9 => "n_7-9",
            10..=14 => "n_10-14",
            15..=17 => "n_15-17",
            18..=30 => "n_18-30",
            31..=33 => "n_31-33",
            _ => "n_34+",
        });
        if xs.iter().any(|x| is_nan(x.1)) {
            self.out.bucket("has_nan");
        }
        if xs.iter().any(|x| x.1 == PINF || x.1 == NINF) {
            self.out.bucket("has_inf");
        }
        if xs.iter().any(|x| x.1 == P0) && xs.iter().any(|x| x.1 == N0) {
            self.out.bucket("has_both_zeros");
        }
        let mut bs: Vec<u32> = xs.iter().map(|x| x.1).collect();
        bs.sort();
        if bs.windows(2).any(|w| w[0] == w[1]) {
            self.out.bucket("has_ties");
        }
    }

    fn topk(&mut self, k: usize, xs: &[Item]) {
        let m = if is_dense(xs) { "d" } else { "s" };
        let req = format!("topk {m} {k} | {}", show_items(xs));
        let prev = self.prev.clone();
        let res = hcommon::catch(|| from_logits(&TopK::new(k).filter(to_logits(xs), &prev)));
        self.classify("topk", xs);
        let n = xs.len();
        self.out.bucket(if k == 0 {
            "topk_k=0"
        } else if k < n {
            "topk_k<n"
        } else if k == n {
            "topk_k=n"
        } else {
            "topk_k>n"
        });
        let (ans, fail) = match res {
            Ok(o) => {
                let f = oracle_topk(k, xs, &o);
                (show_items(&o), f)
            }
            Err(msg) => {
                self.out.bucket("outcome_panic");
                ("panic".to_string(), Some(format!("panic: {msg}")))
            }
        };
        self.emit(&req, &ans, fail, true, n >= 2 && k >= 1);
    }

    /// The private `SimdTopK` kernel run with an explicitly chosen ISA through the
    /// `rten_generate::verif::simd_topk_with_isa` hook (same model answer as `topk`).
    fn topk_isa(&mut self, isa: &str, k: usize, xs: &[Item]) {
        let m = if is_dense(xs) { "d" } else { "s" };
        let req = format!("topk@{isa} {m} {k} | {}", show_items(xs));
        let vals: Vec<f32> = xs.iter().map(|x| f32::from_bits(x.1)).collect();
        let ids: Vec<u32> = xs.iter().map(|x| x.0).collect();
        let res = hcommon::catch(|| rten_generate::verif::simd_topk_with_isa(isa, k, &vals, &ids));
        let (ans, fail) = match res {
            Ok(None) => return, // ISA not available on this machine
            Ok(Some(o)) => {
                let o: Vec<Item> = o.into_iter().map(|(i, v)| (i, v.to_bits())).collect();
                let f = oracle_topk(k, xs, &o);
                (show_items(&o), f)
            }
            Err(msg) => ("panic".to_string(), Some(format!("panic: {msg}"))),
        };
        self.out.bucket(&format!("kind_topk@{isa}"));
        self.emit(&req, &ans, fail, true, xs.len() >= 2 && k >= 1);
    }

    fn topk_all_isas(&mut self, k: usize, xs: &[Item]) {
        self.topk(k, xs);
        for isa in ["generic", "avx2", "avx512"] {
            self.topk_isa(isa, k, xs);
        }
    }

    fn topp(&mut self, p: u32, xs: &[Item]) {
        let m = if is_dense(xs) { "d" } else { "s" };
        let req = format!("topp {m} {p} | {}", show_items(xs));
        let prev = self.prev.clone();
        let spec = Spec::TopP(p);
        let res = hcommon::catch(|| from_logits(&spec.apply(to_logits(xs), &prev)));
        self.classify("topp", xs);
        let finite = xs.iter().all(|x| is_finite(x.1));
        let exact = sums_exact(&ref_sort(xs));
        self.out.bucket(if exact { "topp_exact_sums" } else { "topp_inexact_sums(oracle-only)" });
        if !finite {
            self.out.bucket(if exact { "topp_nonfinite_scores(compared)" } else { "topp_nonfinite_scores(oracle-only)" });
        }
        self.out.bucket(if p == ONE {
            "topp_p=1"
        } else if !is_finite(p) || val64(p) > 1.0 || (val64(p) < 0.0) {
            "topp_p_outside_[0,1]"
        } else if val64(p) == 0.0 {
            "topp_p=0"
        } else {
            "topp_0<p<1"
        });
        let (ans, fail) = match res {
            Ok(o) => {
                let f = oracle_step(&spec, xs, &o);
                if o.len() == xs.len() {
                    self.out.bucket("topp_kept_all");
                } else if o.len() == 1 {
                    self.out.bucket("topp_kept_one");
                } else {
                    self.out.bucket("topp_kept_some");
                }
                (show_items(&o), f)
            }
            Err(msg) => {
                self.out.bucket("outcome_panic");
                ("panic".to_string(), Some(format!("panic: {msg}")))
            }
        };
        // inexact finite sums: the Lean model would compute the exact sum, so do not compare
        self.emit(&req, &ans, fail, exact, xs.len() >= 2);
    }

    /// `TopP::new(p).normalize(true)` (softmax inside): outside the Lean model, checked against
    /// an f64 softmax with a tolerance band on the threshold.  `xs` must have distinct ids.
    fn toppn(&mut self, p: u32, xs: &[Item]) {
        let m = if is_dense(xs) { "d" } else { "s" };
        let req = format!("toppn {m} {p} | {}", show_items(xs));
        let prev = self.prev.clone();
        let spec = Spec::TopPNorm(p);
        let res = hcommon::catch(|| from_logits(&spec.apply(to_logits(xs), &prev)));
        self.classify("toppn(oracle-only)", xs);
        let (ans, fail) = match res {
            Ok(o) => (show_items(&o), oracle_toppn(p, xs, &o)),
            Err(msg) => {
                self.out.bucket("outcome_panic");
                ("panic".to_string(), Some(format!("panic: {msg}")))
            }
        };
        self.emit(&req, &ans, fail, false, xs.len() >= 2);
    }

    fn sort(&mut self, xs: &[Item]) {
        let m = if is_dense(xs) { "d" } else { "s" };
        let req = format!("sort {m} | {}", show_items(xs));
        let prev = self.prev.clone();
        let res = hcommon::catch(|| from_logits(&Sort::new().filter(to_logits(xs), &prev)));
        self.classify("sort", xs);
        let (ans, fail) = match res {
            Ok(o) => {
                let f = oracle_sort(xs, &o);
                (show_items(&o), f)
            }
            Err(msg) => ("panic".to_string(), Some(format!("panic: {msg}"))),
        };
        self.emit(&req, &ans, fail, true, xs.len() >= 2);
    }

    fn chain(&mut self, specs: &[Spec], xs: &[Item]) {
        let m = if is_dense(xs) { "d" } else { "s" };
        let sp = if specs.is_empty() { "e".to_string() } else { hcommon::join(specs.iter().map(|s| s.show()), ",") };
        let req = format!("chain {m} {sp} | {}", show_items(xs));
        let prev = self.prev.clone();
        // the real Chain
        let res = hcommon::catch(|| {
            let mut c = Chain::new();
            for s in specs {
                c = s.push(c);
            }
            from_logits(&c.filter(to_logits(xs), &prev))
        });
        // the composition of the individually constructed filters, with per-step oracles
        let mut cur: Result<Vec<Item>, String> = Ok(xs.to_vec());
        let mut step_fails: Vec<String> = Vec::new();
        let mut topp_inexact = false;
        for (i, s) in specs.iter().enumerate() {
            if let Ok(v) = &cur {
                let input = v.clone();
                if let Spec::TopP(_) = s {
                    if !sums_exact(&ref_sort(&input)) {
                        topp_inexact = true;
                    }
                }
                let r = hcommon::catch(|| from_logits(&s.apply(to_logits(&input), &prev)));
                if let Ok(o) = &r {
                    // every failing step is reported (on its own line), so a known deviation in
                    // one step cannot hide a different failure in another
                    if let Some(f) = oracle_step(s, &input, o) {
                        step_fails.push(format!("chain-step {i} ({}): {f}", s.show()));
                    }
                }
                cur = r;
            }
        }
        self.classify("chain", xs);
        self.out.bucket(&format!("chain_len_{}", specs.len().min(6)));
        // a TopP step whose f32 sums round is outside the exact model
        let modelled = specs.iter().all(|s| s.modelled()) && !topp_inexact;
        let bad_temp = specs.iter().any(|s| s.invalid_temperature());
        if !modelled {
            self.out.bucket("chain_unmodelled(oracle-only)");
        }
        let (ans, fail) = match (&res, &cur) {
            (Ok(o), Ok(c)) => {
                let f = if o != c {
                    Some(format!("chain:not-composition chain={} composition={}", show_items(o), show_items(c)))
                } else {
                    step_fails.pop()
                };
                (show_items(o), f)
            }
            (Err(_), Err(_)) if bad_temp => {
                // documented constructor contract: `assert!(temperature >= 0.)` in Temperature::new
                self.out.bucket("outcome_panic_temperature_assert(expected)");
                ("panic".to_string(), None)
            }
            (Err(msg), Err(_)) => {
                self.out.bucket("outcome_panic");
                ("panic".to_string(), Some(format!("panic: {msg}")))
            }
            (Err(msg), Ok(_)) => ("panic".to_string(), Some(format!("chain:not-composition chain panicked ({msg}) but the composition did not"))),
            (Ok(o), Err(msg)) => (show_items(o), Some(format!("chain:not-composition composition panicked ({msg}) but the chain did not"))),
        };
        for f in step_fails {
            self.out.case(&format!("# {req}"), &ans, Some(&f), false);
        }
        self.emit(&req, &ans, fail, modelled, specs.len() >= 2 && xs.len() >= 2);
    }

    fn cmp(&mut self, a: u32, b: u32) {
        let (x, y) = (f32::from_bits(a), f32::from_bits(b));
        let o = match x.total_cmp(&y) {
            std::cmp::Ordering::Less => "lt",
            std::cmp::Ordering::Equal => "eq",
            std::cmp::Ordering::Greater => "gt",
        };
        let ans = format!("{o} {}", (x > y) as u8);
        // oracle: the harness's own keys agree with std
        let ko = match tkey(a).cmp(&tkey(b)) {
            std::cmp::Ordering::Less => "lt",
            std::cmp::Ordering::Equal => "eq",
            std::cmp::Ordering::Greater => "gt",
        };
        let kg = !is_nan(a) && !is_nan(b) && nkey(a) > nkey(b);
        assert!(ko == o && kg == (x > y), "harness key functions disagree with std on {a} {b}");
        self.out.bucket("kind_cmp");
        self.out.case(&format!("cmp {a} {b}"), &ans, None, a != b);
    }
}

fn rand_bits(rng: &mut Rng, mode: u64) -> u32 {
    match mode {
        // small integers (many ties)
        0 => ((rng.range_i64(-3, 4)) as f32).to_bits(),
        // specials
        1 => *rng.pick(&SPECIALS),
        // arbitrary bit patterns (NaN payloads, subnormals, huge)
        2 => rng.next_u64() as u32,
        // "logit-like" values
        3 => ((rng.f32_unit() - 0.5) * 40.0).to_bits(),
        // mostly small ints, some specials
        4 => {
            if rng.chance(1, 6) {
                *rng.pick(&SPECIALS)
            } else {
                ((rng.range_i64(-20, 20)) as f32 * 0.5).to_bits()
            }
        }
        // zeros and near-zeros
        _ => *rng.pick(&[P0, N0, 1, 0x8000_0001, ONE, 0xbf80_0000]),
    }
}

fn rand_len(rng: &mut Rng) -> usize {
    const AROUND: [usize; 22] = [0, 1, 2, 3, 5, 7, 8, 9, 15, 16, 17, 18, 23, 24, 25, 31, 32, 33, 34, 47, 49, 65];
    if rng.chance(2, 3) {
        *rng.pick(&AROUND)
    } else {
        rng.usize_below(72)
    }
}

fn rand_ids(rng: &mut Rng, n: usize) -> Vec<u32> {
    match rng.below(4) {
        // dense
        0 | 1 => (0..n as u32).collect(),
        // strictly increasing sparse
        2 => {
            let mut id = 0u32;
            (0..n)
                .map(|_| {
                    id += 1 + rng.below(5) as u32;
                    id
                })
                .collect()
        }
        // arbitrary (possibly repeated, unordered, huge)
        _ => (0..n)
            .map(|_| if rng.chance(1, 10) { u32::MAX - rng.below(3) as u32 } else { rng.below(40) as u32 })
            .collect(),
    }
}

fn rand_items(rng: &mut Rng) -> Vec<Item> {
    let n = rand_len(rng);
    let mode = rng.below(6);
    let ids = rand_ids(rng, n);
    let mut v: Vec<Item> = ids.into_iter().map(|i| (i, rand_bits(rng, mode))).collect();
    // shape the order: ascending input forces an update per element, descending none
    match rng.below(6) {
        0 => {
            let mut b: Vec<u32> = v.iter().map(|x| x.1).collect();
            b.sort_by_key(|x| tkey(*x));
            for (x, y) in v.iter_mut().zip(b) {
                x.1 = y;
            }
        }
        1 => {
            let mut b: Vec<u32> = v.iter().map(|x| x.1).collect();
            b.sort_by_key(|x| -tkey(*x));
            for (x, y) in v.iter_mut().zip(b) {
                x.1 = y;
            }
        }
        _ => {}
    }
    v
}

fn rand_k(rng: &mut Rng, n: usize) -> usize {
    match rng.below(10) {
        0 => 0,
        1 => n,
        2 => n + 1 + rng.usize_below(3),
        3 => *rng.pick(&[1000usize, usize::MAX, usize::MAX / 2, u32::MAX as usize + 1]),
        4 | 5 => 1 + rng.usize_below(3),
        _ => rng.usize_below(n + 4),
    }
}

/// Dyadic "probabilities": multiples of 2^-q, so that every f32 partial sum is exact.
fn rand_probs(rng: &mut Rng) -> Vec<Item> {
    let n = match rng.below(8) {
        0 => 0,
        1 => 1,
        _ => 1 + rng.usize_below(20),
    };
    let q = *rng.pick(&[2u32, 4, 6, 10, 12]);
    let unit = 1.0f32 / (1u32 << q) as f32;
    let total = 1u64 << q;
    let mut w: Vec<u64> = vec![0; n];
    match rng.below(5) {
        // a distribution summing to exactly 1 (possibly with zero entries)
        0 | 1 => {
            let mut left = total;
            for i in 0..n {
                let take = if i + 1 == n || left == 0 {
                    left
                } else if rng.chance(1, 5) {
                    0
                } else {
                    1 + rng.below(left.min(total / 2 + 1))
                };
                let take = take.min(left);
                w[i] = take;
                left -= take;
            }
            rng.shuffle(&mut w);
        }
        // sub-normalised / over-normalised
        2 => {
            for x in w.iter_mut() {
                *x = rng.below(total / 2 + 1);
            }
        }
        // many ties
        3 => {
            let c = 1 + rng.below(total / (n.max(1) as u64) + 1);
            for x in w.iter_mut() {
                *x = if rng.chance(1, 4) { 0 } else { c };
            }
        }
        // tiny values
        _ => {
            for x in w.iter_mut() {
                *x = rng.below(4);
            }
        }
    }
    let ids = rand_ids(rng, n);
    let neg = rng.chance(1, 8);
    ids.into_iter()
        .zip(w)
        .map(|(i, w)| {
            let mut v = w as f32 * unit;
            if neg && rng.chance(1, 4) {
                v = -v;
            }
            if w == 0 && rng.chance(1, 4) {
                v = -0.0;
            }
            (i, v.to_bits())
        })
        .collect()
}

fn rand_p(rng: &mut Rng, xs: &[Item]) -> u32 {
    let sorted = ref_sort(xs);
    match rng.below(12) {
        0 => P0,
        1 => ONE,
        2 => *rng.pick(&[1u32, 0x0040_0000, 0x0080_0000, 0x0080_0001, N0, 0x3380_0000]), // tiny / MIN_POSITIVE
        3 => 0x3f7f_ffff, // largest value below 1
        4 | 5 | 6 => {
            // exactly a partial sum of the sorted probabilities (the `<` vs `<=` boundary), or one ulp off
            if sorted.is_empty() {
                0x3f00_0000
            } else {
                let j = rng.usize_below(sorted.len());
                let s: f32 = sorted[..=j].iter().map(|x| f32::from_bits(x.1)).sum();
                let b = s.to_bits();
                let b = match rng.below(3) {
                    0 => b,
                    1 => b.wrapping_add(1),
                    _ => b.wrapping_sub(1),
                };
                if is_finite(b) && val64(b) >= 0.0 && val64(b) <= 1.0 {
                    b
                } else {
                    s.clamp(0.0, 1.0).to_bits()
                }
            }
        }
        7 => rng.pick(&[0.5f32, 0.75, 0.9, 0.95, 0.99, 0.25, 0.1]).to_bits(),
        _ => rng.f32_unit().to_bits(),
    }
}

fn rand_spec(rng: &mut Rng, xs_len: usize, modelled_only: bool) -> Spec {
    let top = if modelled_only { 9 } else { 10 };
    match rng.below(top) {
        0 | 1 => Spec::TopK(rand_k(rng, xs_len)),
        2 => Spec::TopP(*rng.pick(&[P0, ONE, 0x3f00_0000, 0x3f40_0000, 0x3e80_0000, 0x3f7f_ffff, 0x0080_0000])),
        3 => Spec::Sort,
        4 => {
            let m = 1 + rng.below(4) as u32;
            Spec::IdMod(m, rng.below(m as u64) as u32)
        }
        5 => Spec::IdGe(rng.below(12) as u32),
        6 => Spec::Temp(rng.range_i64(-3, 3) as i32),
        7 => Spec::TopK(1 + rng.usize_below(4)),
        9 => Spec::TopPNorm(*rng.pick(&[P0, ONE, 0x3f00_0000, 0x3f66_6666, 0x3f7f_ffff])),
        _ => Spec::TempAny(*rng.pick(&[
            0x3f00_0000u32, 0x3fc0_0000, 0x3e99_999a, 0x4120_0000, ONE, P0, N0, PINF, 0x7e80_0000, 0x0100_0000,
            // NaN / negative: Temperature::new panics
            0xbf80_0000, QNAN, NQNAN, NINF, 0x8000_0001,
        ])),
    }
}

fn main() {
    let args = hcommon::parse_args();
    hcommon::quiet_panics();
    run(&args)
}

fn run(args: &Args) {
    let mut rng = Rng::new(args.seed);
    let mut cx = Ctx { out: Out::new(&args.out), prev: vec![] };
    let scale = if args.thorough { 16 } else { 2 };

    // (0) order primitives: total_cmp and `>` on specials and random patterns
    for &a in &SPECIALS {
        for &b in &SPECIALS {
            cx.cmp(a, b);
        }
    }
    for _ in 0..3000 * scale {
        let mode = rng.below(6);
        let a = rand_bits(&mut rng, mode);
        let b = if rng.chance(1, 4) { a ^ (1 << rng.below(32)) } else { rand_bits(&mut rng, 2) };
        cx.cmp(a, b);
    }

    // (1) exhaustive small vectors over special values, every k in 0..=n+3
    let alpha_a: Vec<u32> = vec![NINF, 0xbf80_0000, N0, P0, 1, ONE, 0x4000_0000, PINF, QNAN, NQNAN, ONE];
    let alpha_b: Vec<u32> = vec![0xbf80_0000, N0, P0, ONE, 0x4000_0000, QNAN, NQNAN];
    let exhaustive = |cx: &mut Ctx, alpha: &[u32], n: usize| {
        let total = alpha.len().pow(n as u32);
        for mut code in 0..total {
            let xs: Vec<Item> = (0..n)
                .map(|i| {
                    let v = alpha[code % alpha.len()];
                    code /= alpha.len();
                    (i as u32, v)
                })
                .collect();
            for k in 0..=n + 3 {
                cx.topk(k, &xs);
            }
        }
    };
    for n in 0..=3 {
        exhaustive(&mut cx, &alpha_a, n);
    }
    exhaustive(&mut cx, &alpha_b, 4);
    if args.thorough {
        exhaustive(&mut cx, &alpha_a, 4);
        exhaustive(&mut cx, &alpha_b, 5);
        exhaustive(&mut cx, &alpha_b[..5], 6);
    }
    cx.out.note("exhaustive: TopK on all vectors of length 0..=3 over 11 special values and length 4 over 7 (thorough: length 4 over 11, 5 over 7, 6 over 5), every k in 0..=n+3");

    // (2) systematic chunk-boundary probes: a flat vector with one distinguished value at each position
    let lens: [usize; 19] = [2, 3, 7, 8, 9, 10, 15, 16, 17, 18, 19, 24, 25, 31, 32, 33, 34, 35, 49];
    for &n in &lens {
        for k in 1..=3usize {
            if k >= n {
                continue;
            }
            for pos in 0..n {
                for &(base, hot) in &[(ONE, 0x4000_0000u32), (ONE, QNAN), (N0, P0), (ONE, PINF), (0x4000_0000, NQNAN), (NINF, ONE)] {
                    let xs: Vec<Item> = (0..n).map(|i| (i as u32, if i == pos { hot } else { base })).collect();
                    cx.topk_all_isas(k, &xs);
                }
            }
        }
    }
    if args.thorough {
        // two distinguished positions
        for &n in &[9usize, 17, 18, 33, 34] {
            for p1 in 0..n {
                for p2 in 0..n {
                    let xs: Vec<Item> = (0..n)
                        .map(|i| (i as u32, if i == p1 { 0x4040_0000 } else if i == p2 { 0x4000_0000 } else { ONE }))
                        .collect();
                    cx.topk(1, &xs);
                    cx.topk(2, &xs);
                }
            }
        }
    }

    // (3) random TopK
    for i in 0..20_000 * scale {
        if i % 16 == 0 {
            cx.prev = (0..rng.usize_below(4)).map(|_| rng.below(50) as u32).collect();
        }
        let xs = rand_items(&mut rng);
        let k = rand_k(&mut rng, xs.len());
        cx.topk_all_isas(k, &xs);
    }

    // (4) TopP on dyadic probabilities (exact sums) and on arbitrary inputs (oracle-only / skip)
    for _ in 0..14_000 * scale {
        let xs = rand_probs(&mut rng);
        let p = rand_p(&mut rng, &xs);
        cx.topp(p, &xs);
    }
    for _ in 0..2_000 * scale {
        let xs = rand_items(&mut rng);
        let p = *rng.pick(&[P0, ONE, 0x3f00_0000, 0x3f66_6666, 0x0080_0000]);
        cx.topp(p, &xs);
    }

    // (4b) TopP with ±inf / NaN entries among dyadic probabilities (IEEE rules for the running
    // sum; compared with the model) and with thresholds outside [0, 1] (NaN, ±inf, negative, > 1)
    for _ in 0..6_000 * scale {
        let mut xs = rand_probs(&mut rng);
        if !xs.is_empty() && rng.chance(3, 4) {
            for _ in 0..1 + rng.usize_below(2) {
                let i = rng.usize_below(xs.len());
                xs[i].1 = *rng.pick(&[PINF, NINF, NINF, QNAN, NQNAN, 0x7f80_0001, PINF]);
            }
        }
        let p = if rng.chance(1, 3) {
            *rng.pick(&[QNAN, NQNAN, PINF, NINF, 0xbf00_0000, 0x4000_0000, 0x3fc0_0000, N0])
        } else {
            rand_p(&mut rng, &xs)
        };
        cx.topp(p, &xs);
    }

    // (5) Sort
    for _ in 0..2_000 * scale {
        let xs = rand_items(&mut rng);
        cx.sort(&xs);
    }

    // (5b) softmax-normalised TopP (oracle-only)
    for _ in 0..4_000 * scale {
        let n = rand_len(&mut rng).min(40);
        let mode = *rng.pick(&[0u64, 3, 3, 4]);
        let dense = rng.chance(1, 2);
        let mut id = 0u32;
        let xs: Vec<Item> = (0..n)
            .map(|i| {
                id += 1 + rng.below(4) as u32;
                (if dense { i as u32 } else { id }, rand_bits(&mut rng, mode))
            })
            .collect();
        let p = match rng.below(6) {
            0 => P0,
            1 => ONE,
            2 => 0x3f7f_ffff,
            _ => rng.f32_unit().to_bits(),
        };
        cx.toppn(p, &xs);
    }

    // (6) chains: modelled (compared with Lean) and unmodelled (composition oracle only)
    cx.chain(&[], &[]);
    for i in 0..12_000 * scale {
        let xs = if rng.chance(1, 2) { rand_probs(&mut rng) } else { rand_items(&mut rng) };
        let len = match rng.below(8) {
            0 => 0,
            1 => 1,
            _ => 2 + rng.usize_below(4),
        };
        let modelled_only = i % 4 != 0;
        let specs: Vec<Spec> = (0..len).map(|_| rand_spec(&mut rng, xs.len(), modelled_only)).collect();
        cx.chain(&specs, &xs);
    }

    cx.out.finish(
        "TopK: exhaustive small vectors over special values (±0, ±inf, ±NaN, ties, subnormal) x every k in 0..=n+3; \
         one-hot probes at every position for lengths around 8/16/32 lanes; random vectors (6 value modes incl. arbitrary bit \
         patterns, ascending/descending/unsorted, dense/sparse/duplicate ids, lengths 0..71 biased to lane boundaries) with \
         k in {0, small, n, n+1..n+3, huge}. TopP: dyadic probabilities (exact f32 sums, checked) with p in {0, subnormal, \
         MIN_POSITIVE, partial sums ±1ulp, 1-ulp, 1, random}, the same with ±inf/NaN entries and with p outside [0,1] (NaN, ±inf, negative, >1), all compared with the model; arbitrary inputs with rounding sums as oracle-only. Sort, and random chains of \
         TopK/TopP/Sort/token_id_filter/Temperature (powers of two and 1.0 compared, NaN/negative must panic, other \
         temperatures skipped by the model; plus oracle-only chains with softmax TopP). non-trivial = at least 2 candidates and k>=1 (TopK) / at least 2 filters (Chain); distinct by request text",
    );
}
