//! C32: `rten_generate::Generator` driven through random operation histories against a
//! mock `rten_generate::model::Model` that logs every `run` call.
//!
//! Request line: `kv=<0|1> cfg=<mock layout> <op> …` with ops
//! `W:<csv>` with_prompt, `A:<csv>` append_prompt, `C` clear_prompt, `P` process_prompt,
//! `N:<tok>` next (scripted sampler returns `tok`), `E` next with a filter removing all logits,
//! `PF` / `NF` process_prompt / next where the mock's `Model::run` returns an error,
//! `NL` next where the run succeeds but the logits tensor has the wrong rank.
//! `api <names>`: the public methods of `Generator` found in the source under test.
//!
//! Answer: one section per op joined by ` | `:
//! `<calls> <filter> <outcome> in=<prompt()> prev=<prev_tokens()> kv=<kv_cache_len()|->`,
//! `<calls>` = `R(<input_ids>@<first position>;c<cache id>:<len>;L<logits requested>;m<mask
//! length>;u<use_cache_branch>;e<encoder cache id>;<ok|FAIL>)` per `Model::run` call made
//! during the op (or `-`).
//!
//! Independent oracle (PROPFAIL), evaluated on the mock's log and the generator's getters:
//!  T1 (KV) position ids == cache positions == `fed_so_far ..`, attention mask covers
//!     `0..end`, `use_cache_branch` == (start != 0); the call receives exactly the tokens
//!     pending according to the script (reference bookkeeping: a list of pending tokens with a
//!     "fresh" flag); nothing stays pending after a successful run, everything after a failed one;
//!  T2 every KV-cache input tensor equals, element for element, the tensor the mock returned
//!     from the previous call for that slot (empty on the first call); encoder caches equal the
//!     last non-empty tensor the mock returned.  After a failed run the documented behaviour
//!     (no self-attention cache supplied) is checked instead — it is not a property failure
//!     because failing models are outside the property's quantifier;
//!  T3 `prev_tokens()` == every token submitted (successfully) to or produced by the model, in
//!     order, once (reference history; when all token values of a history are distinct it is
//!     recomputed from the observed events alone as "order of first occurrence");
//!  T7 (no KV cache, nothing discarded) the tokens fed == `prev_tokens()` as recorded by the call.
use hcommon::{Args, Out, Rng};
use rten::{Dimension, NodeId, RunOptions, Value, ValueOrView};
use rten_generate::filter::LogitsFilter;
use rten_generate::generator::{GeneratorConfig, ModelInputsConfig};
use rten_generate::model::{Model, NodeInfo};
use rten_generate::sampler::Sampler;
use rten_generate::{Generator, Logits};
use rten_tensor::prelude::*;
use rten_tensor::Layout as _;
use rten_tensor::{NdTensor, Tensor};
use std::cell::{Cell, RefCell};
use std::error::Error;
use std::rc::Rc;

#[derive(Clone, Debug)]
enum Op {
    W(Vec<u32>),
    A(Vec<u32>),
    C,
    P,
    N(u32),
    E,
    PF,
    NF,
    /// next where the mock returns a logits tensor of the wrong rank
    NL,
}

fn csv(xs: &[u32]) -> String {
    hcommon::join(xs.iter(), ",")
}

impl Op {
    fn show(&self) -> String {
        match self {
            Op::W(p) => format!("W:{}", csv(p)),
            Op::A(p) => format!("A:{}", csv(p)),
            Op::C => "C".into(),
            Op::P => "P".into(),
            Op::N(t) => format!("N:{t}"),
            Op::E => "E".into(),
            Op::PF => "PF".into(),
            Op::NF => "NF".into(),
            Op::NL => "NL".into(),
        }
    }
}

/// Layout of the mock model.
#[derive(Clone, Copy, Debug)]
struct MockLayout {
    kv: bool,
    layers: usize,
    /// KV tensors are `[batch, heads, seq, 2]` (true) or `[batch, seq, 2]` (false).
    dims4: bool,
    heads: usize,
    /// `GeneratorConfig::kv_cache_capacity`
    cap: Option<usize>,
    /// optional inputs present in the model
    has_attn: bool,
    has_cache_pos: bool,
    /// "merged" encoder-decoder layout: `.decoder.`/`.encoder.` caches + `use_cache_branch`
    enc: bool,
    /// extra inputs fed through `with_constant_input` / `with_varying_input`
    extra: bool,
}

impl MockLayout {
    fn show(&self) -> String {
        format!(
            "cfg=L{}D{}H{}cap{}a{}p{}e{}x{}",
            self.layers,
            if self.dims4 { 4 } else { 3 },
            self.heads,
            self.cap.map(|c| c.to_string()).unwrap_or("-".into()),
            self.has_attn as u8,
            self.has_cache_pos as u8,
            self.enc as u8,
            self.extra as u8
        )
    }
}

/// One cache tensor as a list of `(token marker, stamp)` entries along the sequence axis.
type CacheContent = Vec<(f32, f32)>;

#[derive(Clone, Debug, Default)]
struct CallLog {
    ok: bool,
    toks: Vec<u32>,
    pos_ids: Vec<i32>,
    cache_pos: Option<Vec<i32>>,
    attn_len: Option<usize>,
    flag: Option<i32>,
    /// extra inputs: the constant tensor and the `[batch, start, end]` varying tensor
    extra_const: Option<Vec<i32>>,
    extra_var: Option<Vec<i32>>,
    /// per slot: `None` if the input was not supplied; `Err` if heads/batch disagree
    caches_in: Vec<Option<Result<CacheContent, String>>>,
    /// per slot: what the mock returned (`None` for a failed call)
    caches_out: Vec<CacheContent>,
    logits: bool,
    problems: Vec<String>,
}

struct Slot {
    input: NodeId,
    output: NodeId,
    encoder: bool,
}

struct Mock {
    lay: MockLayout,
    nodes: Vec<NodeInfo>,
    inputs: Vec<NodeId>,
    slots: Vec<Slot>,
    logits_id: NodeId,
    log: RefCell<Vec<CallLog>>,
    calls: Cell<u32>,
    fail_next: Cell<bool>,
    bad_logits_next: Cell<bool>,
    partial_runs: Cell<u32>,
}

const VOCAB: usize = 3;
/// sequence length of the encoder caches the mock returns
const ENC_LEN: usize = 3;

impl Mock {
    fn new(lay: MockLayout) -> Mock {
        let mut in_nodes = vec![
            NodeInfo::from_name_shape("input_ids", &[]),
            NodeInfo::from_name_shape("position_ids", &[]),
        ];
        if lay.has_cache_pos {
            in_nodes.push(NodeInfo::from_name_shape("cache_position", &[]));
        }
        if lay.has_attn {
            in_nodes.push(NodeInfo::from_name_shape("attention_mask", &[]));
        }
        if lay.extra {
            in_nodes.push(NodeInfo::from_name_shape("extra_const", &[]));
            in_nodes.push(NodeInfo::from_name_shape("extra_var", &[]));
        }
        let mut out_nodes = vec![NodeInfo::from_name_shape("logits", &[])];
        let dims: Vec<Dimension> = if lay.dims4 {
            vec![
                Dimension::Symbolic("batch".into()),
                Dimension::Fixed(lay.heads),
                Dimension::Symbolic("seq".into()),
                Dimension::Fixed(2),
            ]
        } else {
            vec![
                Dimension::Symbolic("batch".into()),
                Dimension::Symbolic("seq".into()),
                Dimension::Fixed(2),
            ]
        };
        let mut slot_names: Vec<(String, String, bool)> = vec![];
        if lay.kv {
            for l in 0..lay.layers {
                let kinds: Vec<(String, bool)> = if lay.enc {
                    vec![
                        ("decoder.key".into(), false),
                        ("decoder.value".into(), false),
                        ("encoder.key".into(), true),
                        ("encoder.value".into(), true),
                    ]
                } else {
                    vec![("key".into(), false), ("value".into(), false)]
                };
                for (kind, encoder) in kinds {
                    let i = format!("past_key_values.{l}.{kind}");
                    let o = format!("present.{l}.{kind}");
                    in_nodes.push(NodeInfo::from_name_shape(&i, &dims));
                    out_nodes.push(NodeInfo::from_name_shape(&o, &dims));
                    slot_names.push((i, o, encoder));
                }
            }
            if lay.enc {
                in_nodes.push(NodeInfo::from_name_shape("use_cache_branch", &[]));
            }
        }
        let n_in = in_nodes.len();
        let nodes: Vec<NodeInfo> = in_nodes.into_iter().chain(out_nodes).collect();
        let inputs = (0..n_in).map(|i| NodeId::from_u32(i as u32)).collect();
        let find = |nodes: &Vec<NodeInfo>, n: &str| {
            NodeId::from_u32(nodes.iter().position(|x| x.name() == n).unwrap() as u32)
        };
        let slots = slot_names
            .iter()
            .map(|(a, b, e)| Slot { input: find(&nodes, a), output: find(&nodes, b), encoder: *e })
            .collect();
        let logits_id = find(&nodes, "logits");
        Mock {
            lay,
            nodes,
            inputs,
            slots,
            logits_id,
            log: RefCell::new(vec![]),
            calls: Cell::new(0),
            fail_next: Cell::new(false),
            bad_logits_next: Cell::new(false),
            partial_runs: Cell::new(0),
        }
    }

    fn decode_cache(&self, t: &Tensor<f32>) -> Result<CacheContent, String> {
        let shape = t.shape().to_vec();
        let (heads, seq) = if self.lay.dims4 {
            if shape.len() != 4 || shape[0] != 1 || shape[1] != self.lay.heads || shape[3] != 2 {
                return Err(format!("shape{shape:?}"));
            }
            (shape[1], shape[2])
        } else {
            if shape.len() != 3 || shape[0] != 1 || shape[2] != 2 {
                return Err(format!("shape{shape:?}"));
            }
            (1, shape[1])
        };
        let get = |h: usize, s: usize, c: usize| -> f32 {
            if self.lay.dims4 {
                t[[0, h, s, c]]
            } else {
                t[[0, s, c]]
            }
        };
        let mut out = vec![];
        for s in 0..seq {
            let e = (get(0, s, 0), get(0, s, 1));
            for h in 1..heads {
                if (get(h, s, 0), get(h, s, 1)) != e {
                    return Err("heads-differ".into());
                }
            }
            out.push(e);
        }
        Ok(out)
    }

    fn encode_cache(&self, c: &CacheContent) -> Value {
        let seq = c.len();
        if self.lay.dims4 {
            let heads = self.lay.heads;
            let t = NdTensor::from_fn([1, heads, seq, 2], |[_, _h, s, ch]| if ch == 0 { c[s].0 } else { c[s].1 });
            Value::FloatTensor(t.into())
        } else {
            let t = NdTensor::from_fn([1, seq, 2], |[_, s, ch]| if ch == 0 { c[s].0 } else { c[s].1 });
            Value::FloatTensor(t.into())
        }
    }
}

fn i32s(v: &Value) -> Option<Vec<i32>> {
    match v {
        Value::Int32Tensor(t) => Some(t.iter().copied().collect()),
        _ => None,
    }
}

impl Model for Mock {
    fn find_node(&self, name: &str) -> Option<NodeId> {
        self.nodes.iter().position(|n| n.name() == name).map(|p| NodeId::from_u32(p as u32))
    }
    fn node_info(&self, id: NodeId) -> Option<NodeInfo> {
        self.nodes.get(id.as_usize()).cloned()
    }
    fn input_ids(&self) -> &[NodeId] {
        &self.inputs
    }
    fn run(
        &self,
        inputs: Vec<(NodeId, ValueOrView)>,
        outputs: &[NodeId],
        _opts: Option<RunOptions>,
    ) -> Result<Vec<Value>, Box<dyn Error>> {
        let call_no = self.calls.get() + 1;
        self.calls.set(call_no);
        let mut lg = CallLog::default();
        let owned: Vec<(NodeId, Value)> = inputs.into_iter().map(|(id, v)| (id, v.to_owned())).collect();
        for (i, (id, _)) in owned.iter().enumerate() {
            if !self.inputs.contains(id) {
                lg.problems.push(format!("unknown-input-{}", id.as_u32()));
            }
            if owned[..i].iter().any(|(j, _)| j == id) {
                lg.problems.push(format!("duplicate-input-{}", id.as_u32()));
            }
        }
        let get = |name: &str| -> Option<&Value> {
            let id = self.find_node(name)?;
            owned.iter().find(|(i, _)| *i == id).map(|(_, v)| v)
        };
        match get("input_ids") {
            Some(Value::Int32Tensor(t)) => {
                if t.ndim() != 2 || t.size(0) != 1 {
                    lg.problems.push(format!("input_ids-shape{:?}", t.shape()));
                }
                lg.toks = t.iter().map(|x| *x as u32).collect();
            }
            _ => lg.problems.push("input_ids-missing".into()),
        }
        match get("position_ids") {
            Some(v @ Value::Int32Tensor(t)) if t.ndim() == 2 && t.size(0) == 1 => lg.pos_ids = i32s(v).unwrap(),
            _ => lg.problems.push("position_ids-bad".into()),
        }
        if self.lay.has_cache_pos {
            match get("cache_position") {
                Some(v @ Value::Int32Tensor(t)) if t.ndim() == 1 => lg.cache_pos = i32s(v),
                _ => lg.problems.push("cache_position-bad".into()),
            }
        }
        if self.lay.has_attn {
            match get("attention_mask") {
                Some(Value::Int32Tensor(t)) if t.ndim() == 2 && t.size(0) == 1 && t.iter().all(|x| *x == 1) => {
                    lg.attn_len = Some(t.size(1))
                }
                _ => lg.problems.push("attention_mask-bad".into()),
            }
        }
        if self.lay.kv && self.lay.enc {
            match get("use_cache_branch") {
                Some(Value::Int32Tensor(t)) if t.ndim() == 0 => lg.flag = t.iter().next().copied(),
                _ => lg.problems.push("use_cache_branch-bad".into()),
            }
        }
        if self.lay.extra {
            lg.extra_const = get("extra_const").and_then(i32s);
            lg.extra_var = get("extra_var").and_then(i32s);
        }
        for slot in self.slots.iter() {
            let v = owned.iter().find(|(i, _)| *i == slot.input).map(|(_, v)| v);
            lg.caches_in.push(match v {
                Some(Value::FloatTensor(t)) => Some(self.decode_cache(t)),
                Some(_) => Some(Err("dtype".into())),
                None => None,
            });
        }
        lg.logits = outputs.contains(&self.logits_id);
        if self.fail_next.replace(false) {
            lg.ok = false;
            self.log.borrow_mut().push(lg);
            return Err("mock model failure".into());
        }
        lg.ok = true;
        // Returned self-attention caches: old entries keep their token marker and are re-stamped
        // with this call's number (every returned tensor is distinguishable), new entries
        // appended.  Encoder caches: a fresh tensor when `use_cache_branch` is 0 (first run of
        // an Optimum merged decoder), a dummy empty tensor otherwise.
        for (si, slot) in self.slots.iter().enumerate() {
            let stamp = (call_no * 16 + si as u32) as f32;
            if slot.encoder {
                let c: CacheContent = if lg.flag == Some(0) { vec![(7.0, stamp); ENC_LEN] } else { vec![] };
                lg.caches_out.push(c);
            } else {
                let mut c: CacheContent = match &lg.caches_in[si] {
                    Some(Ok(c)) => c.iter().map(|(t, _)| (*t, stamp)).collect(),
                    _ => vec![],
                };
                c.extend(lg.toks.iter().map(|t| ((*t % 1024) as f32, stamp)));
                lg.caches_out.push(c);
            }
        }
        let mut result = vec![];
        for id in outputs {
            if *id == self.logits_id {
                if self.bad_logits_next.replace(false) {
                    result.push(Value::FloatTensor(NdTensor::<f32, 2>::zeros([lg.toks.len(), VOCAB]).into()));
                    continue;
                }
                result.push(Value::FloatTensor(NdTensor::<f32, 3>::zeros([1, lg.toks.len(), VOCAB]).into()));
            } else if let Some(si) = self.slots.iter().position(|s| s.output == *id) {
                result.push(self.encode_cache(&lg.caches_out[si]));
            } else {
                lg.problems.push(format!("unknown-output-{}", id.as_u32()));
                result.push(Value::FloatTensor(Tensor::zeros(&[0])));
            }
        }
        self.log.borrow_mut().push(lg);
        Ok(result)
    }
    fn partial_run(
        &self,
        inputs: Vec<(NodeId, ValueOrView)>,
        _outputs: &[NodeId],
        _opts: Option<RunOptions>,
    ) -> Result<Vec<(NodeId, Value)>, Box<dyn Error>> {
        // Nothing can be precomputed in the mock: the leaves of the partial evaluation are the
        // constant inputs themselves.
        self.partial_runs.set(self.partial_runs.get() + 1);
        Ok(inputs.into_iter().map(|(id, v)| (id, v.to_owned())).collect())
    }
}

/// Extra model input registered with `with_varying_input`: `[batch, start, end]`.
fn varying_input<'a>(batch: usize, pos: std::ops::Range<usize>) -> ValueOrView<'a> {
    NdTensor::<i32, 1>::from([batch as i32, pos.start as i32, pos.end as i32]).into()
}

struct ScriptSampler(Rc<Cell<u32>>);
impl Sampler for ScriptSampler {
    fn sample(&self, _logits: &Logits) -> u32 {
        self.0.get()
    }
}

struct ScriptFilter {
    remove_all: Rc<Cell<bool>>,
    seen: Rc<RefCell<Vec<Vec<u32>>>>,
}
impl LogitsFilter for ScriptFilter {
    fn filter(&self, logits: Logits, prev_tokens: &[u32]) -> Logits {
        self.seen.borrow_mut().push(prev_tokens.to_vec());
        if self.remove_all.get() {
            Logits::dense(vec![])
        } else {
            logits
        }
    }
}

/// `(id, len)` of a group of cache tensors that must all carry the same stamp.
fn cache_id(caches: &[(usize, &Option<Result<CacheContent, String>>)]) -> Result<(u32, usize), String> {
    let mut id_len: Option<(u32, usize)> = None;
    for (slot, c) in caches {
        let c = match c {
            None => return Err("cMISSING".into()),
            Some(Err(e)) => return Err(format!("cBAD[{e}]")),
            Some(Ok(c)) => c,
        };
        let this = if c.is_empty() {
            (0, 0)
        } else {
            let st = c[0].1 as u32;
            if c.iter().any(|e| e.1 as u32 != st) || st % 16 != *slot as u32 {
                return Err("cMIXED".into());
            }
            (st / 16, c.len())
        };
        match id_len {
            None => id_len = Some(this),
            Some(x) if x != this => return Err("cMIXED".into()),
            _ => {}
        }
    }
    Ok(id_len.unwrap_or((0, 0)))
}

fn show_call(mock: &Mock, lg: &CallLog, spec: bool) -> String {
    let lay = &mock.lay;
    // With no token fed the position range is empty and the start is not observable from
    // the call alone (the oracle still checks the attention-mask length): printed as `_`.
    let start = lg.pos_ids.first().map(|p| p.to_string()).unwrap_or("_".into());
    let dec: Vec<_> = mock.slots.iter().enumerate().filter(|(_, s)| !s.encoder).map(|(i, _)| (i, &lg.caches_in[i])).collect();
    let enc: Vec<_> = mock.slots.iter().enumerate().filter(|(_, s)| s.encoder).map(|(i, _)| (i, &lg.caches_in[i])).collect();
    let cache = if !lay.kv {
        "c-".to_string()
    } else {
        match cache_id(&dec) {
            Ok((id, len)) => format!("c{id}:{len}"),
            Err(e) => e,
        }
    };
    let e = if lay.kv && lay.enc {
        match cache_id(&enc) {
            Ok((id, _)) => id.to_string(),
            Err(e) => e,
        }
    } else {
        "-".to_string()
    };
    let m = lg.attn_len.map(|n| n.to_string()).unwrap_or("-".into());
    let u = if lay.kv && lay.enc { lg.flag.map(|f| f.to_string()).unwrap_or("?".into()) } else { "-".into() };
    let mut s = format!(
        "R({}@{};{};L{};m{};u{};e{};{})",
        csv(&lg.toks),
        if spec { lg.pos_ids.first().map(|p| *p as usize).or(lg.attn_len.map(|n| n - lg.toks.len())).map(|p| p.to_string()).unwrap_or("?".into()) } else { start },
        cache,
        lg.logits as u8,
        m,
        u,
        e,
        if lg.ok { "ok" } else { "FAIL" }
    );
    if !lg.problems.is_empty() {
        s += &format!("!{}", lg.problems.join("+"));
    }
    s
}

/// Reference bookkeeping for the oracle (script-derived): pending tokens with a "fresh" flag.
#[derive(Default)]
struct Reference {
    pend: Vec<(u32, bool)>,
    hist: Vec<u32>,
    /// tokens fed by successful calls
    fed_total: usize,
    /// tokens in the self-attention cache the generator should hold (`None`: lost)
    cache_len: Option<usize>,
    /// a `clear_prompt`, or a `with_prompt` after the first operation, happened
    discarded: bool,
    /// a run has failed somewhere in the history
    had_failure: bool,
}

struct CaseResult {
    answer: String,
    fail: Option<String>,
    observed_failure_recovery: bool,
    /// `<observed calls> :: prev=… in=…` for the `spec` request (None if the generator was lost)
    spec_obs: Option<String>,
}

fn run_case(lay: MockLayout, ops: &[Op], distinct: bool) -> CaseResult {
    let mock = Mock::new(lay);
    let tok_cell = Rc::new(Cell::new(0u32));
    let remove_all = Rc::new(Cell::new(false));
    let seen: Rc<RefCell<Vec<Vec<u32>>>> = Rc::new(RefCell::new(vec![]));
    let cfg = GeneratorConfig { model_inputs: ModelInputsConfig::default(), kv_cache_capacity: lay.cap };
    // extra inputs (must outlive the generator)
    let const_tensor = NdTensor::<i32, 1>::from([11, 22, 33]);
    let generator = match Generator::from_model_config(&mock, cfg) {
        Ok(g) => g,
        Err(e) => return CaseResult { answer: format!("init-error {e}"), fail: None, observed_failure_recovery: false, spec_obs: None },
    };
    let generator = generator
        .with_sampler(ScriptSampler(tok_cell.clone()))
        .with_logits_filter(ScriptFilter { remove_all: remove_all.clone(), seen: seen.clone() });
    let generator = if lay.extra {
        generator
            .with_constant_input(mock.find_node("extra_const").unwrap(), const_tensor.view().into())
            .with_varying_input(mock.find_node("extra_var").unwrap(), &varying_input)
    } else {
        generator
    };
    let mut generator = Some(generator);

    let mut sections = vec![];
    let mut fail: Option<String> = None;
    let mut rf = Reference { cache_len: Some(0), ..Default::default() };
    let mut last_out: Option<Vec<CacheContent>> = None; // per slot, decoder slots meaningful
    let mut last_enc_out: Option<Vec<CacheContent>> = None; // per slot, encoder slots meaningful
    let mut recovered = false;
    // events observed on the implementation, for the first-occurrence form of T3
    let mut first_seen: Vec<u32> = vec![];
    let note = |v: &mut Vec<u32>, t: u32| {
        if !v.contains(&t) {
            v.push(t)
        }
    };

    for (opi, op) in ops.iter().enumerate() {
        let log_before = mock.log.borrow().len();
        let seen_before = seen.borrow().len();
        let pend_before: Vec<u32> = rf.pend.iter().map(|x| x.0).collect();
        mock.fail_next.set(matches!(op, Op::PF | Op::NF));
        mock.bad_logits_next.set(matches!(op, Op::NL));
        let outcome: String = if let Op::W(p) = op {
            let g = generator.take().unwrap();
            match hcommon::catch(move || g.with_prompt(p)) {
                Ok(g) => {
                    generator = Some(g);
                    "ok".to_string()
                }
                Err(_) => {
                    // `with_prompt` consumed the generator: the history cannot continue.
                    sections.push("PANIC-LOST-GENERATOR".to_string());
                    break;
                }
            }
        } else {
            let g = generator.as_mut().unwrap();
            let map_err = |m: String| {
                if m.contains("filtered logits are empty") {
                    "err=empty".to_string()
                } else if m.contains("failed to extract logits") {
                    "err=logits".to_string()
                } else if m.contains("failed to run model") && m.contains("mock model failure") {
                    "err=run".to_string()
                } else {
                    format!("err={}", m.replace(' ', "_"))
                }
            };
            let res = hcommon::catch(|| match op {
                Op::W(_) => unreachable!(),
                Op::A(p) => {
                    g.append_prompt(p);
                    "ok".to_string()
                }
                Op::C => {
                    g.clear_prompt();
                    "ok".to_string()
                }
                Op::P | Op::PF => match g.process_prompt() {
                    Ok(()) => "ok".to_string(),
                    Err(e) => map_err(e.to_string()),
                },
                Op::N(_) | Op::E | Op::NF | Op::NL => {
                    if let Op::N(t) = op {
                        tok_cell.set(*t);
                    }
                    remove_all.set(matches!(op, Op::E));
                    match g.next() {
                        Some(Ok(t)) => format!("tok={t}"),
                        Some(Err(e)) => map_err(e.to_string()),
                        None => "end".to_string(),
                    }
                }
            });
            match res {
                Ok(o) => o,
                // A panic behind `&mut self` is an observable; the generator is still ours.
                Err(_) => "panic".to_string(),
            }
        };
        mock.fail_next.set(false);
        mock.bad_logits_next.set(false);
        let g = generator.as_ref().unwrap();

        // ---- canonical section from implementation observables only
        let log = mock.log.borrow();
        let calls: Vec<String> = log[log_before..].iter().map(|c| show_call(&mock, c, false)).collect();
        let calls_s = if calls.is_empty() { "-".to_string() } else { calls.join("+") };
        let seen_v = seen.borrow();
        let filt_s = if seen_v.len() > seen_before {
            hcommon::join(seen_v[seen_before..].iter().map(|p| format!("F({})", csv(p))), "+")
        } else {
            "-".to_string()
        };
        sections.push(format!(
            "{} {} {} in={} prev={} kv={}",
            calls_s,
            filt_s,
            outcome,
            csv(g.prompt()),
            csv(g.prev_tokens()),
            g.kv_cache_len().map(|n| n.to_string()).unwrap_or("-".into())
        ));

        // ---- reference bookkeeping (from the script) and oracle
        let mut expect_call = false;
        match op {
            Op::W(p) => {
                rf.pend = p.iter().map(|t| (*t, true)).collect();
                if opi > 0 {
                    rf.discarded = true;
                }
            }
            Op::A(p) => rf.pend.extend(p.iter().map(|t| (*t, true))),
            Op::C => {
                rf.pend.clear();
                rf.discarded = true;
            }
            Op::P | Op::N(_) | Op::E | Op::PF | Op::NF | Op::NL => expect_call = true,
        }
        let expect_fail = matches!(op, Op::PF | Op::NF);
        let mut problems: Vec<String> = vec![];
        let new_calls = &log[log_before..];
        if expect_call != (new_calls.len() == 1) || new_calls.len() > 1 {
            problems.push(format!("T1 expected {} model call(s), saw {}", expect_call as u8, new_calls.len()));
        }
        if expect_fail != (outcome == "err=run") {
            problems.push(format!("run failure scripted={expect_fail} but outcome {outcome}"));
        }
        for c in new_calls {
            if !c.problems.is_empty() {
                problems.push(format!("model inputs malformed: {}", c.problems.join("+")));
            }
            // T1: exactly the pending tokens
            if c.toks != pend_before {
                problems.push(format!("T1 call received [{}] but pending tokens are [{}]", csv(&c.toks), csv(&pend_before)));
            }
            let start = if lay.kv { rf.fed_total } else { 0 };
            let want: Vec<i32> = (start..start + c.toks.len()).map(|x| x as i32).collect();
            if c.pos_ids != want {
                problems.push(format!("T1 position_ids {:?} expected {:?}", c.pos_ids, want));
            }
            if let Some(cp) = &c.cache_pos {
                if *cp != want {
                    problems.push(format!("T1 cache_position {:?} expected {:?}", cp, want));
                }
            }
            if let Some(n) = c.attn_len {
                if n != start + c.toks.len() {
                    problems.push(format!("T1 attention mask covers {} positions, expected {}", n, start + c.toks.len()));
                }
            }
            if lay.extra {
                if c.extra_const.as_deref() != Some(&[11, 22, 33][..]) {
                    problems.push(format!("constant input not passed through unchanged: {:?}", c.extra_const));
                }
                let want = vec![1, start as i32, (start + c.toks.len()) as i32];
                if c.extra_var.as_ref() != Some(&want) {
                    problems.push(format!("varying input computed from {:?}, expected (batch, start, end) = {:?}", c.extra_var, want));
                }
            }
            if lay.kv && lay.enc && c.flag != Some((start != 0) as i32) {
                problems.push(format!("use_cache_branch {:?} but first position is {}", c.flag, start));
            }
            // T2: cache handed in == cache last returned, per slot, element for element
            if lay.kv {
                for (si, slot) in mock.slots.iter().enumerate() {
                    let cin = &c.caches_in[si];
                    if slot.encoder {
                        let want: CacheContent = last_enc_out.as_ref().map(|o| o[si].clone()).unwrap_or_default();
                        match cin {
                            Some(Ok(got)) if *got == want => {}
                            other => problems.push(format!(
                                "T2 encoder slot {si}: passed {:?} entries, last non-empty returned {} entries",
                                other.as_ref().map(|r| r.as_ref().map(|g| g.len())),
                                want.len()
                            )),
                        }
                        continue;
                    }
                    match rf.cache_len {
                        None => {
                            // documented behaviour after a failed run: no tensor supplied
                            if cin.is_some() {
                                problems.push(format!("slot {si}: a cache tensor is supplied although the previous run failed and consumed it"));
                            }
                        }
                        Some(len) => {
                            let want: CacheContent = if rf.had_failure && last_out.is_none() {
                                vec![]
                            } else {
                                last_out.as_ref().map(|o| o[si].clone()).unwrap_or_default()
                            };
                            match cin {
                                Some(Ok(got)) if *got == want => {}
                                Some(Ok(got)) => problems.push(format!(
                                    "T2 slot {si}: cache passed in has {} entries {:?}, last returned {} entries {:?}",
                                    got.len(), got.first(), want.len(), want.first()
                                )),
                                Some(Err(e)) => problems.push(format!("T2 slot {si}: malformed cache {e}")),
                                None => problems.push(format!("T2 slot {si}: no cache passed in")),
                            }
                            if let Some(Ok(got)) = cin {
                                if got.len() != len {
                                    problems.push(format!("T2 slot {si}: cache length {} expected {}", got.len(), len));
                                }
                                if !rf.had_failure && got.len() != rf.fed_total {
                                    problems.push(format!("T2 slot {si}: cache length {} but {} tokens fed so far", got.len(), rf.fed_total));
                                }
                            }
                        }
                    }
                }
            }
            if !c.ok {
                // failed run: everything stays pending, nothing recorded, caches gone
                rf.had_failure = true;
                if lay.kv {
                    rf.cache_len = None;
                    last_out = None;
                }
                continue;
            }
            if lay.kv {
                if rf.cache_len.is_none() {
                    recovered = true;
                }
                rf.cache_len = Some(rf.cache_len.unwrap_or(0) + c.toks.len());
                last_out = Some(c.caches_out.clone());
                if c.caches_out.iter().zip(mock.slots.iter()).any(|(o, s)| s.encoder && !o.is_empty()) {
                    last_enc_out = Some(c.caches_out.clone());
                }
            }
            // observed events
            for t in &c.toks {
                note(&mut first_seen, *t);
            }
            // reference: feed
            for (t, fresh) in rf.pend.iter() {
                if *fresh {
                    rf.hist.push(*t);
                }
            }
            if lay.kv {
                rf.fed_total += c.toks.len();
                rf.pend.clear();
            } else {
                for p in rf.pend.iter_mut() {
                    p.1 = false;
                }
                // T7: a model without KV cache is fed the whole recorded history again
                if !rf.discarded {
                    let recorded: &[u32] = match seen_v.get(seen_before) {
                        Some(f) => f.as_slice(),
                        None => {
                            let p = g.prev_tokens();
                            if outcome.starts_with("tok=") { &p[..p.len() - 1] } else { p }
                        }
                    };
                    if c.toks.as_slice() != recorded {
                        problems.push(format!("T7 no-KV call fed [{}] but recorded history is [{}]", csv(&c.toks), csv(recorded)));
                    }
                }
            }
        }
        if let Some(t) = outcome.strip_prefix("tok=") {
            let t: u32 = t.parse().unwrap();
            if let Op::N(want) = op {
                if t != *want {
                    problems.push(format!("next returned {t}, sampler chose {want}"));
                }
            }
            note(&mut first_seen, t);
            rf.hist.push(t);
            rf.pend.push((t, false));
        }
        if matches!(op, Op::NL) != (outcome == "err=logits") {
            problems.push(format!("malformed logits scripted={} but outcome {outcome}", matches!(op, Op::NL)));
        }
        if outcome.starts_with("err=") && outcome != "err=empty" && outcome != "err=run" && outcome != "err=logits" {
            problems.push(format!("unexpected error {outcome}"));
        }
        // T1: nothing remains pending after a successful run; pending == reference
        let pend_now: Vec<u32> = rf.pend.iter().map(|x| x.0).collect();
        if g.prompt() != pend_now.as_slice() {
            problems.push(format!("T1 pending tokens [{}] expected [{}]", csv(g.prompt()), csv(&pend_now)));
        }
        if lay.kv && g.kv_cache_len() != rf.cache_len {
            problems.push(format!("T2 kv_cache_len {:?} expected {:?}", g.kv_cache_len(), rf.cache_len));
        }
        // T3
        if g.prev_tokens() != rf.hist.as_slice() {
            problems.push(format!(
                "T3 prev_tokens=[{}] but tokens submitted/produced so far=[{}]",
                csv(g.prev_tokens()),
                csv(&rf.hist)
            ));
        } else if distinct && g.prev_tokens() != first_seen.as_slice() {
            problems.push(format!(
                "T3 prev_tokens=[{}] but order of first occurrence in model I/O=[{}]",
                csv(g.prev_tokens()),
                csv(&first_seen)
            ));
        }
        if fail.is_none() && !problems.is_empty() {
            fail = Some(format!("after op {} ({}): {}", opi + 1, op.show(), problems.join("; ")));
        }
    }
    if lay.extra && fail.is_none() {
        let runs = mock.log.borrow().len() as u32;
        let want = if runs > 0 { 1 } else { 0 };
        if mock.partial_runs.get() != want {
            fail = Some(format!("constant propagation (partial_run) ran {} times for {} model runs, expected {}", mock.partial_runs.get(), runs, want));
        }
    }
    let spec_obs = generator.as_ref().map(|g| {
        let log = mock.log.borrow();
        let calls: Vec<String> = log
            .iter()
            .map(|c| {
                let s = show_call(&mock, c, true);
                s.trim_start_matches("R(").trim_end_matches(')').to_string()
            })
            .collect();
        format!(
            "{} :: prev={} in={}",
            if calls.is_empty() { "-".to_string() } else { calls.join(" ") },
            csv(g.prev_tokens()),
            csv(g.prompt())
        )
    });
    CaseResult { answer: sections.join(" | "), fail, observed_failure_recovery: recovered, spec_obs }
}

fn gen_tokens(rng: &mut Rng, pool: &mut Vec<u32>, distinct: bool, n: usize) -> Vec<u32> {
    (0..n)
        .map(|_| {
            if distinct {
                pool.pop().unwrap_or(0)
            } else if rng.chance(1, 40) {
                *rng.pick(&[u32::MAX, 0x8000_0000, 0x7fff_ffff, 65536])
            } else {
                rng.below(5) as u32
            }
        })
        .collect()
}

fn gen_history(rng: &mut Rng, distinct: bool, max_len: usize, failures: bool) -> Vec<Op> {
    let mut pool: Vec<u32> = (1..=400).collect();
    rng.shuffle(&mut pool);
    let len = 1 + rng.usize_below(max_len);
    let mut ops = vec![];
    let style = rng.below(4); // 0 chat, 1 generate-mostly, 2 uniform, 3 prompt-heavy
    for i in 0..len {
        let r = rng.below(100);
        let op = if i == 0 && rng.chance(3, 4) {
            let n = rng.usize_below(5);
            Op::W(gen_tokens(rng, &mut pool, distinct, n))
        } else if failures && rng.chance(1, 9) {
            match rng.below(5) {
                0 | 1 => Op::PF,
                2 | 3 => Op::NF,
                _ => Op::NL,
            }
        } else {
            let (pn, pa, pp, pc, pe) = match style {
                0 => (45, 30, 8, 6, 5),
                1 => (75, 8, 5, 4, 4),
                2 => (20, 20, 20, 15, 10),
                _ => (20, 45, 15, 8, 5),
            };
            if r < pn {
                Op::N(gen_tokens(rng, &mut pool, distinct, 1)[0])
            } else if r < pn + pa {
                let n = if rng.chance(1, 10) { 0 } else { 1 + rng.usize_below(3) };
                Op::A(gen_tokens(rng, &mut pool, distinct, n))
            } else if r < pn + pa + pp {
                Op::P
            } else if r < pn + pa + pp + pc {
                Op::C
            } else if r < pn + pa + pp + pc + pe {
                Op::E
            } else {
                let n = rng.usize_below(4);
                Op::W(gen_tokens(rng, &mut pool, distinct, n))
            }
        };
        ops.push(op);
    }
    ops
}

fn gen_layout(rng: &mut Rng) -> MockLayout {
    let kv = rng.chance(3, 4);
    let enc = kv && rng.chance(1, 3);
    let dims4 = enc || rng.chance(1, 2);
    MockLayout {
        kv,
        layers: 1 + rng.usize_below(2),
        dims4,
        heads: if dims4 { 1 + rng.usize_below(2) } else { 1 },
        cap: if rng.chance(1, 2) { None } else { Some(rng.usize_below(48)) },
        has_attn: rng.chance(4, 5),
        has_cache_pos: rng.chance(4, 5),
        enc,
        extra: rng.chance(1, 4),
    }
}

fn one(out: &mut Out, lay: MockLayout, ops: &[Op], distinct: bool) {
    let req = format!(
        "kv={} {} {}",
        lay.kv as u8,
        lay.show(),
        hcommon::join(ops.iter().map(|o| o.show()), " ")
    );
    let res = match hcommon::catch(|| run_case(lay, ops, distinct)) {
        Ok(r) => r,
        Err(m) => CaseResult { answer: format!("harness-panic {m}"), fail: None, observed_failure_recovery: false, spec_obs: None },
    };
    // distribution
    out.bucket(if lay.kv { "model_with_kv_cache" } else { "model_without_kv_cache" });
    if lay.enc {
        out.bucket("model_with_encoder_caches");
    }
    if lay.extra {
        out.bucket("model_with_constant_and_varying_extra_inputs");
    }
    out.bucket(&format!("ops_{:02}-{:02}", (ops.len() - 1) / 5 * 5 + 1, (ops.len() - 1) / 5 * 5 + 5));
    let first_n = ops.iter().position(|o| matches!(o, Op::N(_)));
    let chat = first_n
        .map(|i| ops[i..].windows(2).any(|w| matches!(w[0], Op::A(ref p) if !p.is_empty()) && matches!(w[1], Op::N(_) | Op::P)))
        .unwrap_or(false);
    if chat {
        out.bucket("append_after_generation_then_run");
    }
    if ops.iter().any(|o| matches!(o, Op::C)) {
        out.bucket("has_clear");
    }
    if ops.iter().skip(1).any(|o| matches!(o, Op::W(_))) {
        out.bucket("with_prompt_mid_history");
    }
    if ops.iter().any(|o| matches!(o, Op::E)) {
        out.bucket("has_empty_filter_error");
    }
    if ops.iter().any(|o| matches!(o, Op::NL)) {
        out.bucket("has_logits_extraction_error_after_successful_run");
    }
    if ops.iter().any(|o| matches!(o, Op::PF | Op::NF)) {
        out.bucket("has_failing_model_run");
    }
    if res.observed_failure_recovery {
        out.bucket("successful_run_after_failed_run_without_cache");
    }
    if !lay.kv && !ops.iter().any(|o| matches!(o, Op::C)) && !ops.iter().skip(1).any(|o| matches!(o, Op::W(_))) {
        out.bucket("no_kv_refeed_checked");
    }
    if res.answer.contains(" panic ") {
        out.bucket("next_with_nothing_pending_panics");
    }
    if distinct {
        out.bucket("distinct_token_values");
    }
    out.case(&req, &res.answer, res.fail.as_deref(), chat);
    // The Lean specification (Spec.run, logOk, positions, submitted) evaluated on the observed
    // calls — only when every field is observable in this layout and nothing was malformed.
    let observable = lay.has_attn && (!lay.kv || lay.enc);
    if let (true, Some(obs)) = (observable && res.fail.is_none(), &res.spec_obs) {
        if !obs.contains('!') {
            out.bucket("spec_request_lean_predicates_on_observed_calls");
            out.case(&format!("spec {} :: {}", &req, obs), "spec-ok", None, chat);
        }
    }
}

/// Names of the `pub fn`s in `impl<'a> Generator<'a>` plus the `Iterator::next` impl.
fn generator_api(src: &str) -> Vec<String> {
    let mut names = vec![];
    let mut in_impl = false;
    let mut in_iter = false;
    for line in src.lines() {
        if line.starts_with("impl") {
            in_impl = line.starts_with("impl<'a> Generator<'a>") || line.starts_with("impl Generator");
            in_iter = line.starts_with("impl Iterator for Generator") || line.starts_with("impl<'a> Iterator for Generator");
            continue;
        }
        if line.starts_with('}') {
            in_impl = false;
            in_iter = false;
            continue;
        }
        let t = line.trim_start();
        let name_of = |rest: &str| rest.split(|c: char| !(c.is_alphanumeric() || c == '_')).next().unwrap_or("").to_string();
        if in_impl && line.starts_with("    pub fn ") {
            names.push(name_of(&t["pub fn ".len()..]));
        }
        if in_iter && line.starts_with("    fn ") {
            names.push(name_of(&t["fn ".len()..]));
        }
    }
    names.sort();
    names
}

fn main() {
    let args = hcommon::parse_args();
    hcommon::quiet_panics();
    run(&args)
}

fn lay0(kv: bool) -> MockLayout {
    MockLayout { kv, layers: 1, dims4: true, heads: 1, cap: None, has_attn: true, has_cache_pos: true, enc: false, extra: false }
}

fn lay_enc() -> MockLayout {
    MockLayout { kv: true, layers: 1, dims4: true, heads: 2, cap: None, has_attn: true, has_cache_pos: true, enc: true, extra: true }
}

fn run(args: &Args) {
    let mut out = Out::new(&args.out);
    let mut rng = Rng::new(args.seed);
    // (0) API coverage: the public methods of Generator in the source under test
    let repo = std::env::var("VERIF_REPO").unwrap_or("/repo".into());
    match std::fs::read_to_string(format!("{repo}/rten-generate/src/generator.rs")) {
        Ok(src) => {
            let names = generator_api(&src);
            out.bucket("api_coverage_request");
            out.case(&format!("api {}", names.join(" ")), "api-ok", None, false);
        }
        Err(e) => out.note(&format!("api coverage: cannot read generator.rs under {repo}: {e}")),
    }
    // (a) directed histories: prompt-then-generate, chat style, clears, empty prompts, failures.
    let directed: Vec<Vec<Op>> = vec![
        vec![Op::W(vec![1, 2, 3]), Op::N(4), Op::N(5), Op::N(6)],
        vec![Op::W(vec![1]), Op::N(5), Op::A(vec![7]), Op::N(6)],
        vec![Op::W(vec![1]), Op::P, Op::A(vec![7]), Op::P],
        vec![Op::W(vec![99]), Op::N(10), Op::A(vec![100]), Op::N(11), Op::A(vec![101, 102]), Op::N(12)],
        vec![Op::W(vec![1, 2]), Op::N(3), Op::C, Op::A(vec![4]), Op::N(5)],
        vec![Op::P, Op::A(vec![3]), Op::P, Op::N(9)],
        vec![Op::N(1)],
        vec![Op::W(vec![1]), Op::E, Op::A(vec![2]), Op::N(3)],
        vec![Op::A(vec![1, 2]), Op::N(3), Op::W(vec![4, 5]), Op::N(6), Op::N(7)],
        vec![Op::W(vec![1, 2]), Op::N(3), Op::N(4), Op::C, Op::N(5)],
        vec![Op::W(vec![1]), Op::P, Op::A(vec![2]), Op::PF, Op::P],
        vec![Op::W(vec![1, 2]), Op::NF, Op::N(3), Op::N(4)],
        vec![Op::W(vec![1, 2]), Op::N(3), Op::NF, Op::NF, Op::A(vec![4]), Op::N(5), Op::N(6)],
        vec![Op::PF, Op::W(vec![5]), Op::N(6), Op::PF, Op::C, Op::A(vec![7]), Op::N(8)],
        vec![Op::W(vec![1, 2]), Op::NL, Op::A(vec![3]), Op::N(4), Op::NL, Op::N(5)],
    ];
    for ops in &directed {
        for lay in [lay0(true), lay0(false), lay_enc()] {
            one(&mut out, lay, ops, true);
        }
    }
    // (b) exhaustive short histories over a small alphabet (distinct token values by position)
    let alphabet = |i: usize| -> Vec<Op> {
        let b = 10 * (i as u32 + 1);
        vec![Op::W(vec![b, b + 1]), Op::A(vec![b + 2]), Op::C, Op::P, Op::N(b + 3), Op::E, Op::PF, Op::NF, Op::NL]
    };
    let depth = if args.thorough { 5 } else { 4 };
    for d in 1..=depth {
        let total = 9usize.pow(d as u32);
        for mut code in 0..total {
            let mut ops = vec![];
            for i in 0..d {
                ops.push(alphabet(i)[code % 9].clone());
                code /= 9;
            }
            for lay in [lay0(true), lay0(false)] {
                one(&mut out, lay, &ops, true);
            }
            if d <= 3 || args.thorough {
                one(&mut out, lay_enc(), &ops, true);
            }
        }
    }
    // (c) random histories up to 30 operations over random mock layouts
    let n = if args.thorough { 400_000 } else { 30_000 };
    for _ in 0..n {
        let lay = gen_layout(&mut rng);
        let distinct = rng.chance(2, 3);
        let failures = rng.chance(1, 3);
        let ops = gen_history(&mut rng, distinct, 30, failures);
        one(&mut out, lay, &ops, distinct);
    }
    out.note("token values: 2/3 of random histories use pairwise distinct token ids (T3 also checked as order of first occurrence in the mock's I/O); the rest use ids 0..4 and u32 boundary values");
    out.note("1/3 of random histories contain failing Model::run calls (each op fails with probability 1/9); 1/4 of layouts have no KV cache, 1/4 are encoder-decoder (cross-attention caches + use_cache_branch)");
    out.finish("history ops W/A/C/P/N/E/PF/NF/NL, length 1..=30; mock Model with/without KV-cache inputs, decoder-only and merged encoder-decoder layouts, 1-2 layers, 3- and 4-dim caches, optional attention_mask/cache_position inputs, kv_cache_capacity None/0..47");
}
