fn main() { println!("h-gen harness package: run a property binary (cNN) instead"); }
