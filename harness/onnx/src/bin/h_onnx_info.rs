fn main() { println!("h-onnx harness package: run a property binary (cNN) instead"); }
