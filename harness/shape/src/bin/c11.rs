//! C11: `SymExpr::{simplify, range, is_positive, eval}` (+ `canonicalize`,
//! `simplify_canonical`, `remove_common_factors`, `gcd`, `div_ceil` through the
//! `cfg(rten_verif)` hook) on the real crate.
//!
//! Request lines (see `lean/RtenVerif/Driver/C11.lean` for the grammar):
//!   `X <w|c> <expr> | a0,..,a5 | ...`  answer `C=..|S=..|D=..|R=lo,hi|P=b|E=o/s;...`
//!   `Z <w|c> <expr>`                   answer `S=..`          (simplify_canonical directly)
//!   `F <expr> ; <expr>`                answer `<expr> ; <expr>` (remove_common_factors)
//!   `E <expr> ; <expr>`                answer `eq=<0|1>`       (PartialEq)
//!   `G a b` (gcd)   `Q x y` (div_ceil)
//! `w`/`c` is the arithmetic of this build (wrapping release / overflow-checked), probed at
//! start-up.
//!
//! Independent oracle (never uses the Lean model): a reference evaluator over `i128` with
//! "every intermediate stays inside i32" tracking.  For every assignment that is inside the
//! documented domain (positive symbols >= 0, Broadcast operands >= 0 and equal-or-one) and
//! whose reference evaluation of the *original* expression is `v` without leaving i32:
//!   * `eval(original)` on the real code must be `Ok(v)`;
//!   * `eval(canonicalize(original))` and `eval(simplify(original))` must be `Ok(v)` unless
//!     the reference evaluation of that rewritten expression itself leaves i32 (counted, not
//!     failed: re-association may move an overflow);
//!   * `range()` of the original must contain `v`; `is_positive()` implies `v >= 0`.
use hcommon::{Args, Out, Rng};
use rten_shape_inference::verif::sym_expr as hook;
use rten_shape_inference::{EvalError, SymExpr, Symbol, SymbolMap};
use std::sync::Arc;

const NSYM: usize = 6;
const OPS: [&str; 8] = ["+", "-", "*", "/", "c", "M", "m", "B"];
const ADD: u8 = 0;
const SUB: u8 = 1;
const MUL: u8 = 2;
const DIV: u8 = 3;
const CEIL: u8 = 4;
const MAX: u8 = 5;
const MIN: u8 = 6;
const BC: u8 = 7;

#[derive(Clone, PartialEq)]
enum T {
    Val(i32),
    Var(u8, bool),
    Neg(Box<T>),
    Bin(u8, Box<T>, Box<T>),
}

fn bin(o: u8, a: T, b: T) -> T {
    T::Bin(o, Box::new(a), Box::new(b))
}
fn neg(a: T) -> T {
    T::Neg(Box::new(a))
}

fn var(k: u8, pos: bool) -> SymExpr {
    SymExpr::Var(Arc::new(Symbol { name: format!("s{k}"), positive: pos, synthetic: false }))
}

fn build(t: &T) -> SymExpr {
    match t {
        T::Val(x) => SymExpr::Value(*x),
        T::Var(k, p) => var(*k, *p),
        T::Neg(a) => SymExpr::Neg(Arc::new(build(a))),
        T::Bin(o, a, b) => {
            let (a, b) = (Arc::new(build(a)), Arc::new(build(b)));
            match *o {
                ADD => SymExpr::Add(a, b),
                SUB => SymExpr::Sub(a, b),
                MUL => SymExpr::Mul(a, b),
                DIV => SymExpr::Div(a, b),
                CEIL => SymExpr::DivCeil(a, b),
                MAX => SymExpr::Max(a, b),
                MIN => SymExpr::Min(a, b),
                _ => SymExpr::Broadcast(a, b),
            }
        }
    }
}

/// Convert the real expression back to the harness tree (structural, no Debug/Display).
fn unbuild(e: &SymExpr) -> T {
    match e {
        SymExpr::Value(x) => T::Val(*x),
        SymExpr::Var(s) => T::Var(s.name[1..].parse().unwrap_or(99), s.positive),
        SymExpr::Neg(a) => neg(unbuild(a)),
        SymExpr::Add(a, b) => bin(ADD, unbuild(a), unbuild(b)),
        SymExpr::Sub(a, b) => bin(SUB, unbuild(a), unbuild(b)),
        SymExpr::Mul(a, b) => bin(MUL, unbuild(a), unbuild(b)),
        SymExpr::Div(a, b) => bin(DIV, unbuild(a), unbuild(b)),
        SymExpr::DivCeil(a, b) => bin(CEIL, unbuild(a), unbuild(b)),
        SymExpr::Max(a, b) => bin(MAX, unbuild(a), unbuild(b)),
        SymExpr::Min(a, b) => bin(MIN, unbuild(a), unbuild(b)),
        SymExpr::Broadcast(a, b) => bin(BC, unbuild(a), unbuild(b)),
    }
}

fn show(t: &T, s: &mut String) {
    match t {
        T::Val(x) => s.push_str(&format!("#{x}")),
        T::Var(k, p) => s.push_str(&format!("{}{k}", if *p { 'u' } else { 'i' })),
        T::Neg(a) => {
            s.push_str("n ");
            show(a, s)
        }
        T::Bin(o, a, b) => {
            s.push_str(OPS[*o as usize]);
            s.push(' ');
            show(a, s);
            s.push(' ');
            show(b, s)
        }
    }
}
fn shows(t: &T) -> String {
    let mut s = String::new();
    show(t, &mut s);
    s
}

fn depth(t: &T) -> usize {
    match t {
        T::Val(_) | T::Var(..) => 0,
        T::Neg(a) => 1 + depth(a),
        T::Bin(_, a, b) => 1 + depth(a).max(depth(b)),
    }
}

// ---------------------------------------------------------------- reference evaluator

#[derive(Clone, Copy, PartialEq, Debug)]
enum Ideal {
    Ok(i64),
    Missing,
    Div0,
    /// some intermediate result is outside i32
    Ovf,
}

#[derive(Default)]
struct Feat {
    /// a Broadcast node whose operands are not (>= 0 and (equal or one of them 1))
    bcast_bad: bool,
    /// a Broadcast node with operands {0, 1}
    bcast01: bool,
    /// a DivCeil node whose divisor is negative
    negceil: bool,
    /// a symbol flagged positive has a negative value
    pos_bad: bool,
    /// absolute values of Div / DivCeil divisors seen (to detect products leaving i32)
    divisors: Vec<i64>,
    /// first node kind (bottom-up, left to right) whose value escapes its own `range()`
    range_bad: Option<String>,
    /// first node kind for which `is_positive()` holds although the value is negative
    pos_claim_bad: Option<String>,
}

fn in32(v: i128) -> bool {
    v >= i32::MIN as i128 && v <= i32::MAX as i128
}

fn ceil_div_ref(x: i128, y: i128) -> i128 {
    // mathematical ceiling of x / y, y != 0
    let q = x.div_euclid(y);
    let r = x.rem_euclid(y);
    // x = q*y + r, 0 <= r < |y|.  floor(x/y) = q if y > 0 else (if r == 0 { q } else { q - 1 })... use
    // a direct definition instead:
    let _ = (q, r);
    let fl = {
        let d = x / y;
        if (x % y != 0) && ((x < 0) != (y < 0)) { d - 1 } else { d }
    };
    if x % y == 0 { fl } else { fl + 1 }
}

fn kind(t: &T) -> &'static str {
    match t {
        T::Val(_) => "value",
        T::Var(..) => "var",
        T::Neg(_) => "neg",
        T::Bin(o, ..) => ["add", "sub", "mul", "div", "divceil", "max", "min", "broadcast"][*o as usize],
    }
}

/// Reference evaluation.  `real` (when given) is the real expression built from `t`, used to ask the
/// implementation for `range()` / `is_positive()` of every sub-expression.
fn ideal(t: &T, env: &[Option<i32>], f: &mut Feat, real: Option<&SymExpr>) -> Ideal {
    let res = match t {
        T::Val(x) => Ideal::Ok(*x as i64),
        T::Var(k, p) => match env.get(*k as usize).copied().flatten() {
            Some(v) => {
                if *p && v < 0 {
                    f.pos_bad = true;
                }
                Ideal::Ok(v as i64)
            }
            None => Ideal::Missing,
        },
        T::Neg(a) => {
            let ra = match real {
                Some(SymExpr::Neg(x)) => Some(&**x),
                _ => None,
            };
            match ideal(a, env, f, ra) {
                Ideal::Ok(x) => {
                    if in32(-(x as i128)) {
                        Ideal::Ok(-x)
                    } else {
                        Ideal::Ovf
                    }
                }
                e => e,
            }
        }
        T::Bin(o, a, b) => {
            let (ra, rb) = match real {
                Some(
                    SymExpr::Add(x, y)
                    | SymExpr::Sub(x, y)
                    | SymExpr::Mul(x, y)
                    | SymExpr::Div(x, y)
                    | SymExpr::DivCeil(x, y)
                    | SymExpr::Max(x, y)
                    | SymExpr::Min(x, y)
                    | SymExpr::Broadcast(x, y),
                ) => (Some(&**x), Some(&**y)),
                _ => (None, None),
            };
            let x = ideal(a, env, f, ra);
            let y = ideal(b, env, f, rb);
            match (x, y) {
                (Ideal::Ovf, _) | (_, Ideal::Ovf) => Ideal::Ovf,
                (Ideal::Ok(x), Ideal::Ok(y)) => {
                    let (x, y) = (x as i128, y as i128);
                    let r: Result<i128, Ideal> = match *o {
                        ADD => Ok(x + y),
                        SUB => Ok(x - y),
                        MUL => Ok(x * y),
                        DIV => {
                            f.divisors.push(y.abs() as i64);
                            if y == 0 {
                                Err(Ideal::Div0)
                            } else {
                                Ok(x / y)
                            }
                        }
                        CEIL => {
                            f.divisors.push(y.abs() as i64);
                            if y < 0 {
                                f.negceil = true;
                            }
                            if y == 0 {
                                Err(Ideal::Div0)
                            } else {
                                Ok(ceil_div_ref(x, y))
                            }
                        }
                        MAX => Ok(x.max(y)),
                        MIN => Ok(x.min(y)),
                        _ => {
                            if !(x >= 0 && y >= 0 && (x == y || x == 1 || y == 1)) {
                                f.bcast_bad = true;
                            }
                            if (x == 0 && y == 1) || (x == 1 && y == 0) {
                                f.bcast01 = true;
                            }
                            // a size of 1 broadcasts to the other size (also to 0), else max
                            Ok(if x == 1 { y } else if y == 1 { x } else { x.max(y) })
                        }
                    };
                    match r {
                        Ok(v) if in32(v) => Ideal::Ok(v as i64),
                        Ok(_) => Ideal::Ovf,
                        Err(e) => e,
                    }
                }
                (Ideal::Ok(_), e) => e,
                (e, _) => e,
            }
        }
    };
    if let (Ideal::Ok(v), Some(re)) = (res, real) {
        if f.range_bad.is_none() {
            let (lo, hi) = re.range();
            if v < lo as i64 || v > hi as i64 {
                f.range_bad = Some(kind(t).to_string());
            }
        }
        if f.pos_claim_bad.is_none() && re.is_positive() && v < 0 {
            f.pos_claim_bad = Some(kind(t).to_string());
        }
    }
    res
}

// ---------------------------------------------------------------- generators

const SPECIAL: [i32; 24] = [
    0, 1, -1, 2, -2, 3, 4, 5, 7, 8, 16, 256, 768, 65536, 46341, -65536, 1 << 30,
    i32::MAX, i32::MIN, i32::MAX - 1, i32::MIN + 1, 12, 6, 10,
];

fn gen_const(rng: &mut Rng, extreme: bool) -> i32 {
    match rng.below(10) {
        0..=4 => rng.range_i64(-3, 8) as i32,
        5..=7 => {
            let c = *rng.pick(&SPECIAL);
            if !extreme && (c as i64).abs() > 70000 { rng.range_i64(-8, 8) as i32 } else { c }
        }
        8 => rng.range_i64(-40, 40) as i32,
        _ => {
            if extreme {
                (rng.next_u64() & 0xffff_ffff) as u32 as i32
            } else {
                rng.range_i64(-1000, 1000) as i32
            }
        }
    }
}

struct Gen {
    extreme: bool,
    mixed_flags: bool,
    /// pool of previously generated sub-trees, re-used so that the equality / cancellation arms fire
    pool: Vec<T>,
}

fn gen_var(rng: &mut Rng, g: &Gen) -> T {
    let k = rng.below(NSYM as u64) as u8;
    let mut pos = k < 3;
    if g.mixed_flags && rng.chance(1, 6) {
        pos = !pos;
    }
    T::Var(k, pos)
}

fn gen_tree(rng: &mut Rng, g: &mut Gen, d: usize) -> T {
    if !g.pool.is_empty() && rng.chance(1, 5) {
        let t = rng.pick(&g.pool).clone();
        if depth(&t) <= d {
            return t;
        }
    }
    let leaf = d == 0 || rng.chance(1, 4);
    let t = if leaf {
        if rng.chance(1, 2) { T::Val(gen_const(rng, g.extreme)) } else { gen_var(rng, g) }
    } else if rng.chance(1, 9) {
        neg(gen_tree(rng, g, d - 1))
    } else {
        let o = match rng.below(16) {
            0..=2 => ADD,
            3..=4 => SUB,
            5..=7 => MUL,
            8..=9 => DIV,
            10..=11 => CEIL,
            12 => MAX,
            13 => MIN,
            _ => BC,
        };
        // operands of the same operator nest often, to exercise flattening
        let a = gen_tree(rng, g, d - 1);
        let b = gen_tree(rng, g, d - 1);
        bin(o, a, b)
    };
    if g.pool.len() < 6 && rng.chance(1, 3) {
        g.pool.push(t.clone());
    }
    t
}

/// Hand-shaped trees aimed at particular rewrite arms.
fn gen_shaped(rng: &mut Rng, g: &mut Gen) -> T {
    let x = gen_tree(rng, g, 1);
    let y = gen_tree(rng, g, 1);
    let z = gen_tree(rng, g, 1);
    let c1 = T::Val(gen_const(rng, g.extreme));
    let c2 = T::Val(gen_const(rng, g.extreme));
    match rng.below(16) {
        0 => bin(DIV, bin(DIV, x, c1), c2),
        1 => bin(CEIL, bin(CEIL, x, c1), c2),
        2 => bin(DIV, bin(DIV, x, y), z),
        3 => bin(CEIL, bin(CEIL, x, y), z),
        4 => bin(DIV, bin(MUL, x.clone(), y), bin(MUL, z, x)),
        5 => bin(DIV, bin(MUL, c1, x), c2),
        6 => bin(SUB, bin(ADD, x.clone(), y), x),
        7 => bin(ADD, bin(ADD, c1, x), bin(ADD, y, c2)),
        8 => bin(MUL, bin(MUL, c1, x), bin(MUL, y, c2)),
        9 => bin(MAX, x.clone(), bin(MAX, y, x)),
        10 => bin(BC, x.clone(), bin(BC, c1, x)),
        11 => bin(BC, bin(BC, x, y), z),
        12 => bin(ADD, neg(x.clone()), bin(ADD, y, x)),
        13 => bin(CEIL, bin(ADD, x.clone(), y.clone()), bin(ADD, y, x)),
        14 => bin(DIV, bin(MUL, bin(MUL, c1, x.clone()), y), bin(MUL, c2, x)),
        _ => bin(MIN, bin(MIN, c1, x), bin(MIN, y, c2)),
    }
}

fn gen_env(rng: &mut Rng, style: u64) -> Vec<Option<i32>> {
    let n = rng.range_i64(2, 9) as i32;
    (0..NSYM)
        .map(|k| {
            let pos = k < 3;
            Some(match style {
                // small values, positive symbols non-negative
                0 => {
                    if pos { rng.range_i64(0, 9) as i32 } else { rng.range_i64(-6, 9) as i32 }
                }
                // broadcast-friendly: every symbol is 1 or one common n
                1 => {
                    if rng.chance(1, 2) { 1 } else { n }
                }
                // boundary values
                2 => {
                    if pos {
                        *rng.pick(&[0, 0, 1, 1, 2, i32::MAX, 65536, 46341])
                    } else {
                        *rng.pick(&[0, 1, -1, -2, 2, i32::MIN, i32::MAX, -65536])
                    }
                }
                // strictly positive small
                3 => rng.range_i64(1, 6) as i32,
                // zero / one only
                4 => rng.range_i64(0, 1) as i32,
                // anything (may violate the positivity assumption)
                _ => gen_const(rng, true),
            })
        })
        .collect()
}

fn show_env(env: &[Option<i32>]) -> String {
    hcommon::join(env.iter().map(|v| v.map(|x| x.to_string()).unwrap_or("_".into())), ",")
}

// ---------------------------------------------------------------- running the real code

fn show_res(r: Result<Result<i32, EvalError>, String>) -> String {
    match r {
        Ok(Ok(v)) => v.to_string(),
        Ok(Err(EvalError::MissingSymbol)) => "missing".into(),
        Ok(Err(EvalError::DivisionByZero)) => "div0".into(),
        Ok(Err(_)) => "other".into(),
        Err(_) => "panic".into(),
    }
}

fn real_eval(e: &SymExpr, env: &[Option<i32>]) -> Result<Result<i32, EvalError>, String> {
    let names: Vec<String> = (0..NSYM).map(|k| format!("s{k}")).collect();
    let pairs: Vec<(&str, i32)> =
        env.iter().enumerate().filter_map(|(k, v)| v.map(|v| (names[k].as_str(), v))).collect();
    hcommon::catch(|| e.eval(&SymbolMap::new(&pairs)))
}

struct Ctx {
    mode: char,
}

/// One rewrite step of `simplify_canonical` that changes the value on its own.
struct Culprit {
    /// "negceil" | "bcast01" | "plain"
    class: &'static str,
    /// the node after its operands were simplified, plus the operand values that explain it
    shown: String,
}

/// Locate the rewrite steps that are wrong *by themselves* for this assignment.
/// `simplify_canonical(op(a, b))` is `step(simplify_canonical(a), simplify_canonical(b))`, so for every
/// node of `t` (the tree `simplify_canonical` is applied to) the step is checked in isolation: the
/// reference value of the step's output must equal `op` applied to the reference values of the
/// simplified operands.  A failing step is classified as one of the two known findings only when it
/// is exactly the described rewrite:
///   negceil — a DivCeil node whose simplified dividend is a DivCeil and one of the two divisors is negative
///   bcast01 — a Broadcast node one of whose simplified operands is a constant and one of whose operand values is 0
/// anything else is `plain`.
fn culprits(t: &T, env: &[Option<i32>], acc: &mut Vec<Culprit>) {
    let refval = |e: &SymExpr| {
        let mut f = Feat::default();
        ideal(&unbuild(e), env, &mut f, None)
    };
    let sc = |t: &T| hcommon::catch(|| hook::simplify_canonical(build(t))).ok();
    match t {
        T::Val(_) | T::Var(..) => {}
        T::Neg(a) => {
            culprits(a, env, acc);
            if let (Some(la), Some(whole)) = (sc(a), sc(t)) {
                if let Ideal::Ok(x) = refval(&la) {
                    let mut f = Feat::default();
                    let expected = ideal(&neg(T::Val(x as i32)), env, &mut f, None);
                    let actual = refval(&whole);
                    if let Ideal::Ok(_) = expected {
                        if actual != expected && actual != Ideal::Ovf {
                            acc.push(Culprit { class: "plain", shown: format!("n {}", shows(&unbuild(&la))) });
                        }
                    }
                }
            }
        }
        T::Bin(o, a, b) => {
            culprits(a, env, acc);
            culprits(b, env, acc);
            let (Some(la), Some(lb), Some(whole)) = (sc(a), sc(b), sc(t)) else { return };
            let (Ideal::Ok(x), Ideal::Ok(y)) = (refval(&la), refval(&lb)) else { return };
            let mut f = Feat::default();
            let expected = ideal(&bin(*o, T::Val(x as i32), T::Val(y as i32)), env, &mut f, None);
            let Ideal::Ok(_) = expected else { return };
            let actual = refval(&whole);
            if actual == expected || actual == Ideal::Ovf {
                return;
            }
            let node = format!("{} {} {}", OPS[*o as usize], shows(&unbuild(&la)), shows(&unbuild(&lb)));
            let mut class = "plain";
            let mut why = String::new();
            if *o == CEIL {
                if let SymExpr::DivCeil(_, c1) = &la {
                    if let Ideal::Ok(d1) = refval(c1) {
                        if d1 < 0 || y < 0 {
                            class = "negceil";
                            why = format!(" [d1={d1} d2={y}]");
                        }
                    }
                }
            } else if *o == BC {
                // T1 is proved for operands >= 1, so a wrong Broadcast step inside the domain involves
                // an operand of value 0; the finding is about the arms that return / drop a constant.
                let has_const = matches!(la, SymExpr::Value(_)) || matches!(lb, SymExpr::Value(_));
                if (x == 0 || y == 0) && has_const {
                    class = "bcast01";
                    why = format!(" [x={x} y={y}]");
                }
            }
            acc.push(Culprit { class, shown: format!("{node}{why}") });
        }
    }
}

/// `[classes]{culprit;culprit}`; the two known findings are only named when *every* wrong step of the
/// case is one of them, otherwise the tag contains `plain` (or `unlocated`) and no finding matches.
fn diagnose(t: &T, env: &[Option<i32>]) -> (bool, String) {
    let mut cs = vec![];
    culprits(t, env, &mut cs);
    if cs.is_empty() {
        return (false, "[unlocated]{}".into());
    }
    let mut classes: Vec<&str> = cs.iter().map(|c| c.class).collect();
    classes.sort();
    classes.dedup();
    let known = !classes.contains(&"plain");
    let shown: Vec<String> = cs.iter().map(|c| c.shown.clone()).collect();
    (known, format!("[{}]{{{}}}", classes.join("+"), shown.join(";")))
}

/// All failures of one request: those explained completely by a known finding, and the others.
/// The others are reported first, so a known finding never hides them.
#[derive(Default)]
struct Fails {
    known: Vec<String>,
    other: Vec<String>,
}

impl Fails {
    fn report(&self) -> Option<String> {
        let (first, n) = if !self.other.is_empty() {
            (&self.other[0], self.other.len())
        } else if !self.known.is_empty() {
            (&self.known[0], self.known.len())
        } else {
            return None;
        };
        Some(if n > 1 { format!("{first} (+{} more of this kind)", n - 1) } else { first.clone() })
    }
}

fn case_x(out: &mut Out, cx: &Ctx, t: &T, envs: &[Vec<Option<i32>>], tag: &str) {
    let e = build(t);
    let mut req = format!("X {} {}", cx.mode, shows(t));
    for env in envs {
        req.push_str(" | ");
        req.push_str(&show_env(env));
    }
    let canon = hcommon::catch(|| hook::canonicalize(&e));
    let simp = hcommon::catch(|| e.simplify());
    let rp = hcommon::catch(|| (e.range(), e.is_positive()));
    let mut fails = Fails::default();
    let mut known_fails: Vec<String> = vec![];
    let mut setfail = |m: String| fails.other.push(m);
    let c_s = match &canon {
        Ok(c) => shows(&unbuild(c)),
        Err(_) => "panic".into(),
    };
    let (s_s, d_s) = match &simp {
        Ok(s) => (shows(&unbuild(s)), format!("{:?}", s)),
        Err(_) => ("panic".into(), "panic".into()),
    };
    let (r_s, p_s) = match &rp {
        Ok(((lo, hi), p)) => (format!("{lo},{hi}"), (*p as u8).to_string()),
        Err(_) => ("panic".into(), "panic".into()),
    };
    let mut evs = vec![];
    let mut any_valid = false;
    for env in envs {
        let o = real_eval(&e, env);
        let s = simp.as_ref().ok().map(|s| real_eval(s, env));
        // ---- oracle
        let mut f = Feat::default();
        let iv = ideal(t, env, &mut f, Some(&e));
        if let Ideal::Ok(v) = iv {
            out.bucket("asg_orig_in_range");
            // claims about the value that do not depend on the Broadcast domain of simplify
            if o != Ok(Ok(v as i32)) {
                setfail(format!("eval-orig: reference {v}, implementation {} env={}", show_res(o.clone()), show_env(env)));
            }
            if let Ok(c) = &canon {
                let rc = real_eval(c, env);
                if rc != Ok(Ok(v as i32)) {
                    let mut f2 = Feat::default();
                    if ideal(&unbuild(c), env, &mut f2, None) == Ideal::Ovf {
                        out.bucket("canon_eval_moves_overflow");
                    } else {
                        setfail(format!("canonicalize-changes-value: {v} -> {} env={}", show_res(rc), show_env(env)));
                    }
                }
            } else {
                setfail("canonicalize-panics".into());
            }
            let in_domain = !f.pos_bad && !f.bcast_bad;
            if in_domain {
                any_valid = true;
                out.bucket("asg_in_domain");
                if let Some(k) = &f.range_bad {
                    setfail(format!("range-unsound@{k}: value {v} env={}", show_env(env)));
                }
                if let Some(k) = &f.pos_claim_bad {
                    setfail(format!("is_positive-unsound@{k}: value {v} env={}", show_env(env)));
                }
                match (&simp, &s) {
                    (Ok(sx), Some(rs)) => {
                        if *rs != Ok(Ok(v as i32)) {
                            let mut f2 = Feat::default();
                            if ideal(&unbuild(sx), env, &mut f2, None) == Ideal::Ovf {
                                out.bucket("simp_eval_moves_overflow");
                            } else {
                                // which rewrite step is wrong?  (located on the canonicalised tree)
                                let (known, diag) = match &canon {
                                    Ok(c) => diagnose(&unbuild(c), env),
                                    Err(_) => (false, "[unlocated]{}".into()),
                                };
                                let m = format!(
                                    "simplify-changes-value{diag}: {v} -> {} env={}",
                                    show_res(rs.clone()),
                                    show_env(env)
                                );
                                if known { known_fails.push(m) } else { setfail(m) }
                            }
                        } else {
                            out.bucket("simp_value_preserved");
                        }
                    }
                    _ => {
                        if cx.mode == 'w' {
                            setfail(format!("simplify-panics although eval is in range, env={}", show_env(env)));
                        } else {
                            out.bucket("simp_panics_checked_build");
                        }
                    }
                }
            }
        }
        evs.push(format!("{}/{}", show_res(o), s.map(show_res).unwrap_or("-".into())));
    }
    let ans = format!("C={c_s}|S={s_s}|D={d_s}|R={r_s}|P={p_s}|E={}", evs.join(";"));
    out.bucket(&format!("gen_{tag}"));
    out.bucket(&format!("root_{}", kind(t)));
    out.bucket(&format!("depth{}", depth(t)));
    let changed = s_s != shows(t);
    out.bucket(if s_s == "panic" { "simp_panic" } else if changed { "simp_changed" } else { "simp_unchanged" });
    fails.known = known_fails;
    if !fails.known.is_empty() {
        out.bucket(if fails.other.is_empty() { "fail_known_only" } else { "fail_known_and_other" });
    }
    out.case(&req, &ans, fails.report().as_deref(), changed && any_valid && depth(t) >= 2);
}

fn case_z(out: &mut Out, cx: &Ctx, t: &T, envs: &[Vec<Option<i32>>]) {
    let e = build(t);
    let req = format!("Z {} {}", cx.mode, shows(t));
    let simp = hcommon::catch(|| hook::simplify_canonical(e.clone()));
    let mut fails = Fails::default();
    let ans = match &simp {
        Ok(s) => format!("S={}", shows(&unbuild(s))),
        Err(_) => "S=panic".into(),
    };
    if let Ok(s) = &simp {
        for env in envs {
            let mut f = Feat::default();
            if let Ideal::Ok(v) = ideal(t, env, &mut f, None) {
                if f.pos_bad || f.bcast_bad {
                    continue;
                }
                let rs = real_eval(s, env);
                if rs != Ok(Ok(v as i32)) {
                    let mut f2 = Feat::default();
                    if ideal(&unbuild(s), env, &mut f2, None) != Ideal::Ovf {
                        let (known, diag) = diagnose(t, env);
                        let m = format!(
                            "simplify_canonical-changes-value{diag}: {v} -> {} env={}",
                            show_res(rs),
                            show_env(env)
                        );
                        if known { fails.known.push(m) } else { fails.other.push(m) }
                    }
                }
            }
        }
    }
    out.bucket("gen_simplify_canonical_direct");
    out.case(&req, &ans, fails.report().as_deref(), depth(t) >= 2);
}

fn case_f(out: &mut Out, l: &T, r: &T, envs: &[Vec<Option<i32>>]) {
    let req = format!("F {} ; {}", shows(l), shows(r));
    let res = hcommon::catch(|| hook::remove_common_factors(build(l), build(r)));
    let mut fail = None;
    let ans = match &res {
        Ok((a, b)) => {
            let (ta, tb) = (unbuild(a), unbuild(b));
            for env in envs {
                let mut f = Feat::default();
                let before = ideal(&bin(DIV, l.clone(), r.clone()), env, &mut f, None);
                if let Ideal::Ok(v) = before {
                    let after = ideal(&bin(DIV, ta.clone(), tb.clone()), env, &mut f, None);
                    if after != Ideal::Ok(v) && after != Ideal::Ovf && fail.is_none() {
                        fail = Some(format!("remove_common_factors changes quotient {v} -> {after:?} env={}", show_env(env)));
                    }
                }
            }
            format!("{} ; {}", shows(&ta), shows(&tb))
        }
        Err(_) => "panic".into(),
    };
    out.bucket("gen_remove_common_factors");
    out.case(&req, &ans, fail.as_deref(), true);
}

/// Randomly swap operands of commutative nodes; with `mutate`, also change one leaf.
fn variant(rng: &mut Rng, t: &T, mutate: &mut bool) -> T {
    match t {
        T::Val(x) => {
            if *mutate && rng.chance(1, 3) {
                *mutate = false;
                T::Val(x.wrapping_add(1))
            } else {
                t.clone()
            }
        }
        T::Var(k, p) => {
            if *mutate && rng.chance(1, 3) {
                *mutate = false;
                T::Var((*k + 1) % NSYM as u8, *p)
            } else if rng.chance(1, 4) {
                // same name, other flag: still equal
                T::Var(*k, !*p)
            } else {
                t.clone()
            }
        }
        T::Neg(a) => neg(variant(rng, a, mutate)),
        T::Bin(o, a, b) => {
            let (a2, b2) = (variant(rng, a, mutate), variant(rng, b, mutate));
            // swapping is value-preserving only for commutative operators, but `==` must say so itself
            if rng.chance(1, 2) { bin(*o, b2, a2) } else { bin(*o, a2, b2) }
        }
    }
}

fn case_e(out: &mut Out, a: &T, b: &T, envs: &[Vec<Option<i32>>]) {
    let req = format!("E {} ; {}", shows(a), shows(b));
    let res = hcommon::catch(|| build(a) == build(b));
    let mut fail = None;
    let ans = match res {
        Ok(eq) => {
            if eq {
                for env in envs {
                    let (mut f1, mut f2) = (Feat::default(), Feat::default());
                    if let Ideal::Ok(v) = ideal(a, env, &mut f1, None) {
                        let w = ideal(b, env, &mut f2, None);
                        if w != Ideal::Ok(v) && fail.is_none() {
                            fail = Some(format!("PartialEq says equal but values differ: {v} vs {w:?} env={}", show_env(env)));
                        }
                    }
                }
            }
            out.bucket(if eq { "eq_true" } else { "eq_false" });
            format!("eq={}", eq as u8)
        }
        Err(_) => "panic".into(),
    };
    out.bucket("gen_partial_eq");
    out.case(&req, &ans, fail.as_deref(), depth(a) >= 2);
}

fn case_g(out: &mut Out, a: i32, b: i32) {
    let req = format!("G {a} {b}");
    let res = hcommon::catch(|| hook::gcd(a, b));
    let mut fail = None;
    let ans = match res {
        Ok(Some(g)) => {
            let (ua, ub) = (a.unsigned_abs() as u64, b.unsigned_abs() as u64);
            let ok = g >= 0
                && (if g == 0 { ua == 0 && ub == 0 } else { ua % g as u64 == 0 && ub % g as u64 == 0 })
                && (1..=64u64).all(|m| {
                    let c = g as u64 * m;
                    m == 1 || c == 0 || !(ua % c == 0 && ub % c == 0)
                });
            if !ok {
                fail = Some("gcd result is not the greatest common divisor".to_string());
            }
            g.to_string()
        }
        Ok(None) => "none".into(),
        Err(_) => "panic".into(),
    };
    out.bucket("gen_gcd");
    out.case(&req, &ans, fail.as_deref(), a != 0 && b != 0);
}

fn case_q(out: &mut Out, x: i32, y: i32) {
    let req = format!("Q {x} {y}");
    let res = hcommon::catch(|| hook::div_ceil(x, y));
    let mut fail = None;
    let ans = match res {
        Ok(v) => {
            if y != 0 && ceil_div_ref(x as i128, y as i128) != v as i128 {
                fail = Some(format!("div_ceil is not the ceiling: got {v}"));
            }
            v.to_string()
        }
        Err(_) => "panic".into(),
    };
    out.bucket("gen_div_ceil");
    out.case(&req, &ans, fail.as_deref(), y != 0 && x % y.max(1) != 0);
}

fn envs_for(rng: &mut Rng, n_random: usize) -> Vec<Vec<Option<i32>>> {
    let mut envs = vec![];
    for i in 0..n_random {
        let style = match i {
            0 => 0,
            1 => 1,
            2 => 2,
            _ => rng.below(6),
        };
        envs.push(gen_env(rng, style));
    }
    // one assignment with a missing symbol
    if rng.chance(1, 4) {
        let mut e = gen_env(rng, 0);
        let k = rng.usize_below(NSYM);
        e[k] = None;
        envs.push(e);
    }
    envs
}

fn fixed_cases() -> Vec<T> {
    let u = |k| T::Var(k, true);
    let i = |k| T::Var(k, false);
    let v = T::Val;
    vec![
        // witnesses used in Props/C11.lean
        bin(CEIL, bin(CEIL, i(3), v(-2)), v(-2)),
        bin(CEIL, bin(CEIL, i(3), i(4)), i(5)),
        bin(CEIL, bin(CEIL, u(0), v(-2)), v(-2)),
        bin(DIV, bin(DIV, u(0), v(65536)), v(65536)),
        bin(CEIL, bin(CEIL, u(0), v(65536)), v(65536)),
        bin(BC, v(0), u(0)),
        bin(BC, u(0), v(0)),
        bin(ADD, v(1), v(1)),
        bin(MUL, v(2), v(3)),
        bin(MUL, v(-2), u(0)),
        bin(DIV, v(4), v(-1)),
        bin(DIV, v(5), v(7)),
        bin(CEIL, v(5), v(7)),
        neg(u(0)),
        neg(v(0)),
        bin(ADD, u(0), u(1)),
        bin(BC, v(-5), v(-3)),
        bin(DIV, v(i32::MIN), v(-1)),
        bin(CEIL, v(i32::MIN), v(-1)),
        neg(v(i32::MIN)),
        bin(SUB, v(0), v(i32::MIN)),
        bin(ADD, v(i32::MAX), bin(ADD, v(1), i(3))),
        bin(DIV, bin(MUL, v(768), u(0)), v(256)),
        bin(DIV, bin(MUL, v(i32::MIN), u(0)), v(i32::MIN)),
        bin(SUB, bin(SUB, bin(ADD, u(0), u(1)), u(0)), u(1)),
        bin(SUB, u(0), bin(SUB, u(1), bin(SUB, u(2), bin(SUB, i(3), bin(SUB, i(4), i(5)))))),
        bin(MAX, i(3), bin(MAX, neg(i(3)), i(3))),
        bin(ADD, T::Var(0, true), neg(T::Var(0, false))),
        // c11_reassociation_moves_overflow (with the last boundary assignment)
        bin(ADD, i(3), bin(ADD, i(4), i(5))),
        bin(DIV, bin(DIV, u(0), u(1)), u(2)),
        // non-vacuity examples of Props/C11.lean
        bin(ADD, bin(BC, bin(BC, u(0), u(1)), u(0)), v(0)),
        bin(ADD, bin(SUB, bin(ADD, u(0), u(1)), u(0)), bin(CEIL, bin(CEIL, u(2), v(2)), v(3))),
    ]
}

fn main() {
    let args = hcommon::parse_args();
    hcommon::quiet_panics();
    run(&args)
}

fn run(args: &Args) {
    let mut out = Out::new(&args.out);
    let mut rng = Rng::new(args.seed);
    // Which arithmetic does this build use?
    let checked = hcommon::catch(|| std::hint::black_box(i32::MAX) + std::hint::black_box(1)).is_err();
    let cx = Ctx { mode: if checked { 'c' } else { 'w' } };
    out.note(&format!("arithmetic of this harness build: {}", if checked { "overflow-checked (c)" } else { "wrapping release (w)" }));

    let boundary_env: Vec<Vec<Option<i32>>> = vec![
        vec![Some(0); NSYM],
        vec![Some(1); NSYM],
        vec![Some(1), Some(0), Some(2), Some(-1), Some(-2), Some(1)],
        vec![Some(3), Some(1), Some(3), Some(3), Some(1), Some(-2)],
        vec![Some(5), Some(65536), Some(65536), Some(i32::MAX), Some(1), Some(-5)],
    ];
    for t in fixed_cases() {
        let mut rng2 = Rng::new(7);
        let mut envs = boundary_env.clone();
        envs.extend(envs_for(&mut rng2, 3));
        case_x(&mut out, &cx, &t, &envs, "fixed");
        case_z(&mut out, &cx, &t, &envs);
    }

    let n = if args.thorough { 600_000 } else { 50_000 };
    for it in 0..n {
        let extreme = it % 4 == 3;
        let mut g = Gen { extreme, mixed_flags: it % 16 == 5, pool: vec![] };
        let (t, tag) = if rng.chance(1, 4) {
            (gen_shaped(&mut rng, &mut g), "shaped")
        } else {
            let d = 1 + rng.usize_below(5);
            (gen_tree(&mut rng, &mut g, d), if extreme { "random_extreme" } else { "random" })
        };
        let mut envs = envs_for(&mut rng, 4);
        if it % 8 == 0 {
            envs.push(boundary_env[it / 8 % boundary_env.len()].clone());
        }
        case_x(&mut out, &cx, &t, &envs, tag);
        if it % 10 == 0 {
            case_z(&mut out, &cx, &t, &envs);
        }
        if it % 5 == 2 {
            let mut mutate = rng.chance(1, 3);
            let b = variant(&mut rng, &t, &mut mutate);
            case_e(&mut out, &t, &b, &envs);
        }
        if it % 10 == 1 {
            // products with shared factors for remove_common_factors
            let x = gen_tree(&mut rng, &mut g, 1);
            let y = gen_tree(&mut rng, &mut g, 1);
            let c1 = T::Val(gen_const(&mut rng, extreme));
            let c2 = T::Val(gen_const(&mut rng, extreme));
            let l = match rng.below(4) {
                0 => bin(MUL, bin(MUL, c1, x.clone()), y.clone()),
                1 => bin(MUL, x.clone(), bin(MUL, y.clone(), c1)),
                2 => bin(MUL, x.clone(), x.clone()),
                _ => x.clone(),
            };
            let r = match rng.below(4) {
                0 => bin(MUL, c2, x),
                1 => bin(MUL, bin(MUL, y, x), c2),
                2 => c2,
                _ => bin(MUL, x, y),
            };
            case_f(&mut out, &l, &r, &envs);
        }
    }
    let m = if args.thorough { 200_000 } else { 20_000 };
    for _ in 0..m {
        let a = gen_const(&mut rng, true);
        let b = if rng.chance(1, 3) { a.wrapping_mul(rng.range_i64(-5, 5) as i32) } else { gen_const(&mut rng, true) };
        case_g(&mut out, a, b);
        let y = gen_const(&mut rng, true);
        case_q(&mut out, a, y);
    }
    // exhaustive small div_ceil / gcd
    for x in -12..=12 {
        for y in -12..=12 {
            case_g(&mut out, x, y);
            case_q(&mut out, x, y);
        }
    }
    out.finish("fixed witness expressions; random SymExpr trees of depth<=5 over 6 symbols (s0-s2 assumed >=0, s3-s5 unrestricted; 1/16 of the trees flip flags per occurrence), constants small/special/extreme (every 4th tree uses the full i32 range), re-used sub-trees; 1/4 hand-shaped trees aimed at rewrite arms (nested Div/DivCeil, common factors, cancellation, idempotence, Broadcast chains); 4-6 assignments per tree (small in-domain, broadcast-friendly {1,n}, boundary 0/1/MIN/MAX, strictly positive, 0/1, arbitrary, missing symbol); simplify_canonical directly on non-canonical trees; remove_common_factors on products with shared factors; PartialEq on a tree and a variant with randomly swapped operands / flipped symbol flags / one changed leaf; gcd/div_ceil random + exhaustive |x|<=12. non-trivial = depth>=2, simplify changed the tree and at least one assignment lies in the documented domain with an in-range reference value");
}
