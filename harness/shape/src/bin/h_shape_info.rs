fn main() { println!("h-shape harness package: run a property binary (cNN) instead"); }
