//! C29: `Tokenizer::encode_chunks` and `chunks_with_overlap` on the real crate vs the Lean model,
//! with the property's own predicates evaluated directly on the implementation's output.
//!
//! Requests (see lean/RtenVerif/Driver/C29.lean):
//!   `cwo n=<len> size=<k> ov=<k>`                                  → `0,1|1,2|…` / `none` / `panic`
//!   `enc n1=<len> n2=<len|-> cls=<0|1> sep=<0|1> lim=<k|-> ov=<k>` → `ids;offsets;first_seq|…` / `none` / `panic`
//!
//! Texts are `n` distinct two-letter words separated by single spaces, the tokenizer is a WordPiece
//! model whose vocabulary contains exactly these words (one token per word; token j of the first text
//! has id 3+j, of the second text 103+j), with the Bert pre-tokenizer.
//!
//! Oracle (PROPFAIL messages; evaluated on the chunks the implementation returned):
//!  * every chunk has at most `lim` tokens including special tokens;
//!  * the special tokens are where they should be and, for pairs, every chunk starts with the same
//!    prefix of the first sequence;
//!  * every content window is a contiguous slice of the full encoding, windows start in increasing
//!    order, the first starts at 0, each starts no later than where the previous one ended, the
//!    last ends at the end (= every content token is covered, in order);
//!  * consecutive windows overlap by exactly `ov` tokens;
//!  * token offsets (S4, secondary): content offsets are the words' byte offsets, the last entry is
//!    the offset of the token following the window (or the text length);
//!  * an unknown [CLS]/[SEP] string must be reported as `TokenIdNotFound` (not panic, not ignored);
//!  * `api=encode`: the result is the first chunk (limit, prefix window) or the fabricated chunk;
//!  * a panic is reported; so is an empty result although there is room for content tokens.
//! An empty result when `lim` leaves no room for a content token is accepted (nothing else can
//! respect the limit; theorem `c29_no_room_unsatisfiable`). A pair whose first sequence fills the
//! room, or whose second sequence is empty, yields no chunk: reported (open findings).
use hcommon::{Args, Out};
use rten_text::models::WordPiece;
use rten_text::pre_tokenizers;
use rten_text::tokenizer::{EncodeOptions, EncoderInput, Tokenizer, TokenizerOptions};
use rten_text::verif::SliceExt;
use std::collections::HashMap;

fn word(j: usize) -> String {
    let a = (b'a' + (j / 26) as u8) as char;
    let b = (b'a' + (j % 26) as u8) as char;
    format!("{a}{b}")
}

fn make_tokenizer(cls: u8, sep: u8) -> Tokenizer {
    let name = |k: u8, known: &'static str, unknown: &'static str| match k {
        0 => None,
        1 => Some(known),
        _ => Some(unknown),
    };
    let mut vocab: HashMap<String, u32> = HashMap::new();
    vocab.insert("[CLS]".into(), 0);
    vocab.insert("[SEP]".into(), 1);
    vocab.insert("[UNK]".into(), 2);
    for j in 0..200 {
        vocab.insert(word(j), 3 + j as u32);
    }
    let model = WordPiece::from_vocab(vocab, Default::default());
    Tokenizer::new(
        model,
        // every public field is spelled out: a new tokenizer option breaks the build
        TokenizerOptions { cls_token: name(cls, "[CLS]", "[XCLS]"), sep_token: name(sep, "[SEP]", "[XSEP]") },
    )
    .with_pre_tokenizer(Box::new(pre_tokenizers::Bert::new()))
}

fn text(n: usize, base: usize) -> String {
    hcommon::join((0..n).map(|j| word(base + j)), " ")
}

struct Case {
    n1: usize,
    n2: Option<usize>,
    /// 0 = not configured, 1 = configured, 2 = configured with a string the model does not know
    cls: u8,
    sep: u8,
    lim: Option<usize>,
    ov: usize,
    /// call `Tokenizer::encode` (first chunk / fabricated empty chunk) instead of `encode_chunks`
    api_encode: bool,
}

impl Case {
    fn has_cls(&self) -> bool {
        self.cls == 1
    }
    fn has_sep(&self) -> bool {
        self.sep == 1
    }
}

type ChunkOut = (Vec<u32>, Vec<usize>, usize);

/// Evaluate the property on the implementation's chunks. Returns the first failure.
fn oracle(c: &Case, chunks: &[ChunkOut], truncated: bool, out: &mut Out) -> Option<String> {
    let full1: Vec<u32> = (0..c.n1).map(|j| 3 + j as u32).collect();
    let full2: Vec<u32> = (0..c.n2.unwrap_or(0)).map(|j| 103 + j as u32).collect();
    let pair = c.n2.is_some();
    let overhead = c.has_cls() as usize + c.has_sep() as usize * if pair { 2 } else { 1 };
    // room for content tokens according to the documented meaning of `max_chunk_len`
    let room = c.lim.map(|l| l.saturating_sub(overhead));
    let (windowed, prefix_room): (&[u32], Option<usize>) = if pair { (&full2, room) } else { (&full1, room) };
    if chunks.is_empty() {
        let total = full1.len() + full2.len();
        if total == 0 {
            return None;
        }
        if room == Some(0) {
            out.bucket("no_room_empty_output");
            return None;
        }
        if pair {
            if full2.is_empty() {
                return Some(format!(
                    "no chunk although there is room: the {} first-sequence tokens are not covered (second sequence is empty)",
                    full1.len()
                ));
            }
            // the first sequence alone fills the room: the code gives up (pinned by a unit test),
            // although the second sequence's tokens are content tokens and the limit exceeds the overhead
            let r = room.unwrap_or(usize::MAX);
            if full1.len() >= r {
                return Some(format!(
                    "no chunk: the first sequence ({} tokens) fills the room of {r} content tokens, the {} second-sequence tokens are not covered",
                    full1.len(),
                    full2.len()
                ));
            }
        }
        return Some("no chunk although there is room for content tokens".into());
    }
    let mut prev: Option<(usize, usize)> = None; // (start, end) of the previous window
    let mut first_prefix: Option<Vec<u32>> = None;
    let len1 = if c.n1 == 0 { 0 } else { 3 * c.n1 - 1 };
    let len2 = c.n2.map_or(0, |n| if n == 0 { 0 } else { 3 * n - 1 });
    for (ci, (ids, offs, first_seq)) in chunks.iter().enumerate() {
        if let Some(l) = c.lim {
            if ids.len() > l {
                return Some(format!("chunk {ci} has {} tokens, limit {l}", ids.len()));
            }
        }
        let mut body: &[u32] = ids;
        if c.has_cls() {
            if body.first() != Some(&0) {
                return Some(format!("chunk {ci} does not start with [CLS]"));
            }
            body = &body[1..];
        }
        if c.has_sep() {
            if body.last() != Some(&1) {
                return Some(format!("chunk {ci} does not end with [SEP]"));
            }
            body = &body[..body.len() - 1];
        }
        let content: &[u32] = if pair {
            // first part up to (and including) the middle [SEP]
            let head_len = first_seq.saturating_sub(c.has_cls() as usize);
            if head_len > body.len() {
                return Some(format!("chunk {ci}: first_seq_tokens {first_seq} out of range"));
            }
            let (head, second) = body.split_at(head_len);
            let mut head = head;
            if c.has_sep() {
                if head.last() != Some(&1) {
                    return Some(format!("chunk {ci}: first sequence not followed by [SEP]"));
                }
                head = &head[..head.len() - 1];
            }
            if !full1.starts_with(head) {
                return Some(format!("chunk {ci}: first part {:?} is not a prefix of the first sequence", head));
            }
            match &first_prefix {
                None => {
                    // an emitted chunk always carries the whole first sequence (c29_pair_first_whole)
                    let _ = prefix_room;
                    if head.len() != full1.len() {
                        return Some(format!("chunk {ci}: first part has {} of the {} first-sequence tokens", head.len(), full1.len()));
                    }
                    first_prefix = Some(head.to_vec());
                }
                Some(p) => {
                    if p.as_slice() != head {
                        return Some(format!("chunk {ci}: first part differs from chunk 0"));
                    }
                }
            }
            second
        } else {
            if *first_seq != ids.len() {
                return Some(format!("chunk {ci}: first_seq_tokens {first_seq} != chunk length"));
            }
            body
        };
        if content.is_empty() {
            return Some(format!("chunk {ci} has no content token"));
        }
        // contiguous window of the full encoding (ids are distinct, so the start is determined)
        let base = if pair { 103 } else { 3 };
        let start = (content[0] as usize).wrapping_sub(base);
        let end = start + content.len();
        if content[0] < base as u32 || end > windowed.len() || &windowed[start..end] != content {
            return Some(format!("chunk {ci}: content {:?} is not a contiguous window of the encoding", content));
        }
        // S4: token offsets. Word j of a text starts at byte 3j (second text: len1 + 3j); [CLS] carries
        // the offset of the first content token (single) or 0 (pair), the middle [SEP] the length of
        // the first text, and the last entry is the offset of the token following the window or the
        // total length.
        {
            let tok_off = |j: usize| if pair { len1 + 3 * j } else { 3 * j };
            let mut want: Vec<usize> = Vec::new();
            if pair {
                let head = first_prefix.as_ref().map_or(0, |p| p.len());
                if c.has_cls() {
                    want.push(0);
                }
                want.extend((0..head).map(|j| 3 * j));
                if c.has_sep() {
                    want.push(len1);
                }
            } else if c.has_cls() {
                want.push(tok_off(start));
            }
            want.extend((start..end).map(tok_off));
            want.push(if end < windowed.len() { tok_off(end) } else if pair { len1 + len2 } else { len1 });
            if *offs != want {
                return Some(format!("chunk {ci}: token offsets {:?}, expected {:?}", offs, want));
            }
        }
        match prev {
            None => {
                if start != 0 {
                    return Some(format!("first window starts at {start}, tokens before it are not covered"));
                }
            }
            Some((ps, pe)) => {
                if start <= ps || end <= pe {
                    return Some(format!("window {ci} = {start}..{end} does not advance past {ps}..{pe}"));
                }
                if start > pe {
                    return Some(format!("tokens {pe}..{start} between windows {} and {ci} are not covered", ci - 1));
                }
                let got = pe - start;
                if got != c.ov {
                    let last = ci + 1 == chunks.len();
                    let short = content.len() < pe - ps;
                    return Some(if last && short && got == 0 {
                        format!("final remainder window {start}..{end} overlaps its predecessor {ps}..{pe} by 0 tokens, requested {}", c.ov)
                    } else {
                        format!("window {ci} = {start}..{end} overlaps its predecessor {ps}..{pe} by {got} tokens, requested {}", c.ov)
                    });
                }
            }
        }
        prev = Some((start, end));
    }
    if let Some((_, pe)) = prev {
        if pe != windowed.len() && !truncated {
            return Some(format!("tokens {pe}..{} after the last window are not covered", windowed.len()));
        }
    }
    None
}

fn one_enc(out: &mut Out, toks: &[Tokenizer; 9], c: &Case) {
    let req = format!(
        "enc n1={} n2={} cls={} sep={} lim={} ov={}{}",
        c.n1,
        c.n2.map_or("-".into(), |n| n.to_string()),
        c.cls,
        c.sep,
        c.lim.map_or("-".into(), |n| n.to_string()),
        c.ov,
        if c.api_encode { " api=encode" } else { "" }
    );
    let t = &toks[c.cls as usize * 3 + c.sep as usize];
    let t1 = text(c.n1, 0);
    let t2 = c.n2.map(|n| text(n, 100));
    let res = hcommon::catch(|| {
        let input: EncoderInput = match &t2 {
            None => EncoderInput::Item(&t1),
            Some(t2) => EncoderInput::Pair((&t1, t2)),
        };
        // every public field is spelled out (no `..Default::default()`): a new option breaks the build
        let opts = EncodeOptions { max_chunk_len: c.lim, overlap: c.ov };
        let conv = |e: &rten_text::tokenizer::Encoded| {
            let first = e.token_type_ids().filter(|&x| x == 0).count();
            (e.token_ids().to_vec(), e.token_offsets().to_vec(), first)
        };
        if c.api_encode {
            // `None` means default options; use it where it is equivalent
            let o = if c.lim.is_none() && c.ov == 0 && c.n1 % 2 == 0 { None } else { Some(opts) };
            t.encode(input, o).map(|e| vec![conv(&e)])
        } else {
            t.encode_chunks(input, opts).map(|chunks| chunks.iter().map(conv).collect::<Vec<ChunkOut>>())
        }
    });
    let pair = c.n2.is_some();
    let overhead = c.has_cls() as usize + c.has_sep() as usize * if pair { 2 } else { 1 };
    let (ans, fail) = match res {
        Err(m) => {
            // is a chunking with the requested overlap possible at all?
            let room = c.lim.map(|l| l.saturating_sub(overhead));
            let (n, window) = if pair {
                let r = room.unwrap_or(usize::MAX);
                (c.n2.unwrap(), r.saturating_sub(c.n1.min(r)))
            } else {
                (c.n1, room.unwrap_or(usize::MAX))
            };
            let why = if n <= window {
                format!("panic ({m}) although all {n} windowed tokens fit into one chunk (room {window}), where the overlap is irrelevant")
            } else if c.ov >= window {
                format!("panic ({m}): requested overlap {} >= window {window} with {n} tokens to split", c.ov)
            } else {
                format!("unexpected panic ({m}) with overlap {} < window {window} and {n} tokens", c.ov)
            };
            ("panic".to_string(), Some(why))
        }
        Ok(Err(e)) => {
            let unknown_special = c.cls == 2 || c.sep == 2;
            let is_tokenid = matches!(
                e,
                rten_text::TokenizerError::EncodeError(rten_text::models::EncodeError::TokenIdNotFound(_))
            );
            if unknown_special && is_tokenid {
                out.bucket("unknown_special_token_error");
                ("err:tokenid".to_string(), None)
            } else {
                (format!("err:{e:?}").replace(['\n', '\t'], " "), Some("unexpected error".to_string()))
            }
        }
        Ok(Ok(_)) if c.cls == 2 || c.sep == 2 => {
            ("ok".to_string(), Some("unknown special token was silently accepted".to_string()))
        }
        Ok(Ok(chunks)) => {
            let f = if c.api_encode {
                // the fabricated chunk (special tokens only) stands for "no chunk"
                let fabricated = chunks[0].0.len() == overhead;
                if fabricated {
                    out.bucket("encode_fabricated_empty_chunk");
                    oracle(c, &[], true, out)
                } else {
                    oracle(c, &chunks, true, out)
                }
            } else {
                oracle(c, &chunks, false, out)
            };
            let s = if chunks.is_empty() {
                "none".to_string()
            } else {
                hcommon::join(
                    chunks.iter().map(|(ids, offs, first)| {
                        format!("{};{};{}", hcommon::join(ids.iter(), ","), hcommon::join(offs.iter(), ","), first)
                    }),
                    "|",
                )
            };
            out.bucket(&format!("chunks_{}", chunks.len().min(6)));
            (s, f)
        }
    };
    out.bucket(if pair { "pair" } else { "single" });
    if c.ov > 0 {
        out.bucket("overlap>0");
    }
    let nontrivial = ans.contains('|');
    out.case(&req, &ans, fail.as_deref(), nontrivial);
}

fn one_cwo(out: &mut Out, n: usize, size: usize, ov: usize) {
    let req = format!("cwo n={n} size={size} ov={ov}");
    let xs: Vec<usize> = (0..n).collect();
    let res = hcommon::catch(|| xs.chunks_with_overlap(size, ov).map(|c| c.to_vec()).collect::<Vec<_>>());
    let (ans, fail) = match res {
        Err(m) => {
            let why = if n <= size {
                format!("panic ({m}) although the {n} elements fit into one chunk")
            } else {
                format!("panic ({m}): requested overlap {ov} >= window {size} with {n} tokens to split")
            };
            // `chunks_with_overlap` itself documents the precondition with a should_panic unit test:
            // only a panic *other* than the asserted precondition is a failure at this level.
            ("panic".to_string(), if ov >= size { None } else { Some(why) })
        }
        Ok(chunks) => {
            let mut fail = None;
            let mut prev: Option<(usize, usize)> = None;
            for (ci, ch) in chunks.iter().enumerate() {
                if ch.is_empty() || ch.len() > size {
                    fail = Some(format!("chunk {ci} has {} elements, size {size}", ch.len()));
                    break;
                }
                let (s, e) = (ch[0], ch[0] + ch.len());
                if e > n || ch.iter().enumerate().any(|(k, &v)| v != s + k) {
                    fail = Some(format!("chunk {ci} is not a contiguous slice"));
                    break;
                }
                match prev {
                    None if s != 0 => fail = Some("first chunk does not start at 0".into()),
                    Some((ps, pe)) if s <= ps || s > pe || e <= pe => {
                        fail = Some(format!("chunk {ci} = {s}..{e} after {ps}..{pe} leaves a gap or does not advance"))
                    }
                    Some((ps, pe)) if pe - s != ov => {
                        let last = ci + 1 == chunks.len();
                        fail = Some(if last && ch.len() < pe - ps && pe == s {
                            format!("final remainder window {s}..{e} overlaps its predecessor {ps}..{pe} by 0 tokens, requested {ov}")
                        } else {
                            format!("window {ci} = {s}..{e} overlaps its predecessor {ps}..{pe} by {} tokens, requested {ov}", pe - s)
                        })
                    }
                    _ => {}
                }
                if fail.is_some() {
                    break;
                }
                prev = Some((s, e));
            }
            if fail.is_none() {
                let end = prev.map_or(0, |p| p.1);
                if end != n {
                    fail = Some(format!("elements {end}..{n} are not covered"));
                }
            }
            let s = if chunks.is_empty() {
                "none".to_string()
            } else {
                hcommon::join(chunks.iter().map(|c| hcommon::join(c.iter(), ",")), "|")
            };
            (s, fail)
        }
    };
    out.bucket("cwo");
    let nontrivial = ans.contains('|');
    out.case(&req, &ans, fail.as_deref(), nontrivial);
}

fn main() {
    let args = hcommon::parse_args();
    hcommon::quiet_panics();
    run(&args)
}

fn run(args: &Args) {
    let mut out = Out::new(&args.out);
    let toks: [Tokenizer; 9] = std::array::from_fn(|i| make_tokenizer((i / 3) as u8, (i % 3) as u8));
    // the option surface this harness and the model were written for (the model answers with
    // the list extracted from the source by translate/encode_options.py)
    out.bucket("fields");
    out.case(
        "fields",
        "EncodeOptions:max_chunk_len,overlap TokenizerOptions:cls_token,sep_token EncoderInput:Item,Pair",
        None,
        true,
    );
    // chunks_with_overlap directly: exhaustive
    let (nmax, smax) = if args.thorough { (60, 20) } else { (40, 13) };
    for n in 0..=nmax {
        for size in 0..=smax {
            for ov in 0..=smax {
                one_cwo(&mut out, n, size, ov);
            }
        }
    }
    // encode_chunks: exhaustive over (len, limit, overlap, cls/sep, single/pair)
    let lens: Vec<usize> = if args.thorough { (0..=40).collect() } else { (0..=14).chain([17, 23, 31, 40]).collect() };
    let lims: Vec<Option<usize>> = std::iter::once(None).chain((0..=12).map(Some)).chain(if args.thorough { vec![Some(13), Some(16), Some(20), Some(50)] } else { vec![Some(20)] }).collect();
    let n1s_pair: Vec<usize> = if args.thorough { vec![0, 1, 2, 3, 4, 5, 7, 9, 12] } else { vec![0, 1, 2, 3, 5, 9] };
    for cls in [0u8, 1] {
        for sep in [0u8, 1] {
            for &lim in &lims {
                for ov in 0..=12usize {
                    for &n in &lens {
                        one_enc(&mut out, &toks, &Case { n1: n, n2: None, cls, sep, lim, ov, api_encode: false });
                    }
                    for &n1 in &n1s_pair {
                        for &n2 in &lens {
                            one_enc(&mut out, &toks, &Case { n1, n2: Some(n2), cls, sep, lim, ov, api_encode: false });
                        }
                    }
                }
            }
        }
    }
    // `Tokenizer::encode` (truncation to the first chunk) and unknown special tokens, smaller space
    let small: Vec<usize> = vec![0, 1, 2, 3, 5, 8, 13];
    for cls in [0u8, 1, 2] {
        for sep in [0u8, 1, 2] {
            for &lim in &lims {
                for ov in [0usize, 1, 2, 5] {
                    for api_encode in [false, true] {
                        if !api_encode && cls < 2 && sep < 2 {
                            continue; // covered above
                        }
                        for &n in &small {
                            one_enc(&mut out, &toks, &Case { n1: n, n2: None, cls, sep, lim, ov, api_encode });
                            for n2 in [0usize, 1, 4, 9] {
                                one_enc(&mut out, &toks, &Case { n1: n, n2: Some(n2), cls, sep, lim, ov, api_encode });
                            }
                        }
                    }
                }
            }
        }
    }
    let _ = args.seed; // the case space is enumerated exhaustively; nothing is random
    out.note("exhaustive enumeration, no randomness; tokens are distinct words so windows are identified by their ids");
    out.finish("fields: option surface; cwo: all (n<=40, size<=13, overlap<=13) [thorough n<=60, size,overlap<=20]; enc: all combinations of text length (0..14,17,23,31,40 quick / 0..40 thorough), limit (none, 0..12, 20 [+13,16,50]), overlap 0..12, cls on/off, sep on/off, single text or pair with first text of 0,1,2,3,5,9 [+4,7,12] tokens; plus Tokenizer::encode and unknown [CLS]/[SEP] strings (cls/sep in {absent, known, unknown}) over lengths 0,1,2,3,5,8,13 x second text 0,1,4,9 x every limit x overlap 0,1,2,5; non-trivial = more than one chunk");
}
