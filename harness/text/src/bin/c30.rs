//! C30: "Text normalizers keep an exact offset map" — `rten_text::normalizers`
//! (`Bert`, `Unicode`, `Replace`, `Sequence`) run on the real crate.
//!
//! Request line (all code points decimal, no spaces, fields separated by `;`):
//!   `N;<chain>;<text>;<L>;<D>;<K>;<M>;<C>`
//! * `<text>`  input code points joined by `,`.
//! * `<chain>` `b<l><s>` | `nfc` | `nfd` | `nfkc` | `nfkd` |
//!   `r(<pattern cps>/<content cps>/<start-end,...>)` | `q[<chain>+<chain>+...]`.
//!   The match list of a Replace stage is what `fancy_regex` finds on the text that
//!   stage actually receives (the regex engine is a parameter of the Lean model).
//! * `<L>`,`<D>`,`<K>` non-identity entries `c:a,b,..` (joined by `_`) of `char::to_lowercase`,
//!   canonical and compatibility decomposition; `<M>` the Mn chars (joined by `,`);
//!   `<C>` entries `a,b:c` of `compose`. Tabulated over the closure of the chars of the
//!   text and of all Replace contents under those functions.
//!
//! Answer: `ok <normalized cps>;<offsets>` | `panic` | `err:regex`.
//!
//! Property oracle (on the implementation's own output, first failure wins):
//! panic; T1 one offset per normalized byte (+ valid UTF-8); T2 offsets non-decreasing;
//! T3 every char-boundary position maps to a source char boundary (<= text.len());
//! LITERAL the same for the continuation bytes (the property text read literally).
use hcommon::{join, Args, Out, Rng};
use rten_text::normalizers::{
    Bert, BertOptions, NormalizeError, Normalizer, Replace, Sequence, Unicode,
};
use rten_text::verif::{
    compose, decompose_canonical, decompose_compatible, FancyRegex, UnicodeCategories,
};
use std::collections::{BTreeMap, BTreeSet};

#[derive(Clone, Debug)]
enum Chain {
    Bert { lower: bool, strip: bool },
    Nfc,
    Nfd,
    Nfkc,
    Nfkd,
    Replace { pattern: String, content: String },
    Seq(Vec<Chain>),
}

/// Build the real normalizer for a chain (uses the real `Sequence`).
fn build(c: &Chain) -> Result<Box<dyn Normalizer>, NormalizeError> {
    Ok(match c {
        Chain::Bert { lower, strip } => Box::new(Bert::new(BertOptions {
            lowercase: *lower,
            strip_accents: *strip,
        })),
        Chain::Nfc => Box::new(Unicode::Nfc),
        Chain::Nfd => Box::new(Unicode::Nfd),
        Chain::Nfkc => Box::new(Unicode::Nfkc),
        Chain::Nfkd => Box::new(Unicode::Nfkd),
        Chain::Replace { pattern, content } => Box::new(Replace::new(pattern, content.clone())?),
        Chain::Seq(cs) => {
            let mut v = Vec::with_capacity(cs.len());
            for c in cs {
                v.push(build(c)?);
            }
            Box::new(Sequence::from_vec(v))
        }
    })
}

fn cps(s: &str) -> String {
    join(s.chars().map(|c| c as u32), ",")
}

/// What the walker saw in the Replace stages of one case.
#[derive(Default)]
struct Walk {
    empty_match: bool,
    match_at_end: bool,
    empty_match_at_end: bool,
    adjacent_matches: bool,
    n_matches: usize,
    /// A Replace stage's `find_iter` returned a runtime `Err`: later stages are serialised but not run.
    errored: bool,
    /// First violation of the regex contract the Lean model assumes (`matchesOk`): matches in
    /// order, non-overlapping, start <= end, on char boundaries of the stage input.
    assumption: Option<String>,
}

/// Instrumented walker: serialises `chain` into `ser` (with each Replace stage's match list on
/// the text it receives) and returns the stage output. It threads the text through `Seq`
/// children itself and never uses `Sequence`. `Err(())` = some regex call failed.
fn run_collect(chain: &Chain, input: &str, ser: &mut String, w: &mut Walk) -> Result<String, ()> {
    match chain {
        Chain::Seq(cs) => {
            ser.push_str("q[");
            let mut cur = input.to_string();
            for (i, c) in cs.iter().enumerate() {
                if i > 0 {
                    ser.push('+');
                }
                cur = run_collect(c, &cur, ser, w)?;
            }
            ser.push(']');
            Ok(cur)
        }
        Chain::Replace { pattern, content } if w.errored => {
            ser.push_str(&format!("r({}/{}/)", cps(pattern), cps(content)));
            Ok(input.to_string())
        }
        Chain::Replace { pattern, content } => {
            let re = FancyRegex::new(pattern).map_err(|_| ())?;
            let mut ms = Vec::new();
            let mut last_end = 0usize;
            for m in re.find_iter(input) {
                let Ok(m) = m else {
                    // runtime error of the regex engine (backtrack limit): `normalize` returns Err
                    w.errored = true;
                    ser.push_str(&format!("r({}/{}/!)", cps(pattern), cps(content)));
                    return Ok(input.to_string());
                };
                let (s, e) = (m.start(), m.end());
                if w.assumption.is_none() {
                    let bad = if s > e {
                        Some("start > end")
                    } else if s < last_end {
                        Some("overlaps or precedes the previous match")
                    } else if e > input.len() || !input.is_char_boundary(s) || !input.is_char_boundary(e) {
                        Some("not on char boundaries of the stage input")
                    } else {
                        None
                    };
                    if let Some(b) = bad {
                        w.assumption = Some(format!(
                            "ASSUMPTION regex match {s}-{e} of pattern {:?} {b} (previous end {last_end}, input {} bytes)",
                            pattern,
                            input.len()
                        ));
                    }
                }
                w.adjacent_matches |= !ms.is_empty() && s == last_end;
                w.n_matches += 1;
                last_end = e;
                w.empty_match |= s == e;
                w.match_at_end |= e == input.len();
                w.empty_match_at_end |= s == e && e == input.len();
                ms.push(format!("{s}-{e}"));
            }
            ser.push_str(&format!("r({}/{}/{})", cps(pattern), cps(content), ms.join(",")));
            let (o, _) = build(chain).map_err(|_| ())?.normalize(input).map_err(|_| ())?;
            Ok(o)
        }
        leaf => {
            let errored = w.errored;
            ser.push_str(&match leaf {
                Chain::Bert { lower, strip } => format!("b{}{}", *lower as u8, *strip as u8),
                Chain::Nfc => "nfc".to_string(),
                Chain::Nfd => "nfd".to_string(),
                Chain::Nfkc => "nfkc".to_string(),
                _ => "nfkd".to_string(),
            });
            if errored {
                return Ok(input.to_string());
            }
            let (o, _) = build(leaf).map_err(|_| ())?.normalize(input).map_err(|_| ())?;
            Ok(o)
        }
    }
}

fn content_chars(chain: &Chain, acc: &mut Vec<char>) {
    match chain {
        Chain::Replace { content, .. } => acc.extend(content.chars()),
        Chain::Seq(cs) => cs.iter().for_each(|c| content_chars(c, acc)),
        _ => {}
    }
}

fn is_noop(chain: &Chain) -> bool {
    match chain {
        Chain::Bert { lower: false, strip: false } => true,
        Chain::Seq(cs) => cs.iter().all(is_noop),
        _ => false,
    }
}

fn lower(c: char) -> Vec<char> {
    c.to_lowercase().collect()
}
fn canon(c: char) -> Vec<char> {
    let mut v = Vec::new();
    decompose_canonical(c, |d| v.push(d));
    v
}
fn compat(c: char) -> Vec<char> {
    let mut v = Vec::new();
    decompose_compatible(c, |d| v.push(d));
    v
}

/// The five tables `<L>;<D>;<K>;<M>;<C>` over the closure of `seeds`.
fn tables(seeds: Vec<char>) -> String {
    let mut s: BTreeSet<char> = BTreeSet::new();
    let mut pairs: BTreeMap<(char, char), char> = BTreeMap::new();
    let mut work = seeds;
    while let Some(c) = work.pop() {
        if !s.insert(c) {
            continue;
        }
        work.extend(lower(c));
        work.extend(canon(c));
        work.extend(compat(c));
        for &y in &s {
            if let Some(x) = compose(c, y) {
                pairs.insert((c, y), x);
                work.push(x);
            }
            if let Some(x) = compose(y, c) {
                pairs.insert((y, c), x);
                work.push(x);
            }
        }
    }
    let table = |f: fn(char) -> Vec<char>| {
        let es: Vec<String> = s
            .iter()
            .filter_map(|&c| {
                let v = f(c);
                (v != [c]).then(|| format!("{}:{}", c as u32, join(v.iter().map(|&x| x as u32), ",")))
            })
            .collect();
        es.join("_")
    };
    let m = join(s.iter().filter(|c| c.is_mark_nonspacing()).map(|&c| c as u32), ",");
    let c = join(
        pairs.iter().map(|(&(a, b), &x)| format!("{},{}:{}", a as u32, b as u32, x as u32)),
        "_",
    );
    format!("{};{};{};{};{}", table(lower), table(canon), table(compat), m, c)
}

/// The property's predicate evaluated on the implementation's output.
fn oracle(text: &str, normalized: &str, offsets: &[usize]) -> Option<String> {
    if offsets.len() != normalized.len() {
        return Some(format!(
            "T1 length: offsets {} != normalized bytes {}",
            offsets.len(),
            normalized.len()
        ));
    }
    if std::str::from_utf8(normalized.as_bytes()).is_err() {
        return Some("T1 utf8".to_string());
    }
    for i in 1..offsets.len() {
        if offsets[i - 1] > offsets[i] {
            return Some(format!("T2 decreasing at byte {}: {} > {}", i, offsets[i - 1], offsets[i]));
        }
    }
    let good = |o: usize| o <= text.len() && text.is_char_boundary(o);
    for (i, &o) in offsets.iter().enumerate() {
        if normalized.is_char_boundary(i) && !good(o) {
            return Some(format!(
                "T3 boundary position {i} maps to {o} which is not a source char boundary"
            ));
        }
    }
    for (i, &o) in offsets.iter().enumerate() {
        if !normalized.is_char_boundary(i) && !good(o) {
            return Some(format!(
                "LITERAL continuation byte {i} maps to {o} which is not a source char boundary"
            ));
        }
    }
    None
}

fn one(out: &mut Out, text: &str, chain: &Chain) {
    let walked = hcommon::catch(|| {
        let mut ser = String::new();
        let mut w = Walk::default();
        run_collect(chain, text, &mut ser, &mut w).map(|_| (ser, w))
    });
    let (ser, w) = match walked {
        Err(_) => return out.bucket("dropped_walker_panic"),
        Ok(Err(())) => return out.bucket("dropped_regex_err"),
        Ok(Ok(x)) => x,
    };
    let mut seeds: Vec<char> = text.chars().collect();
    content_chars(chain, &mut seeds);
    let req = format!("N;{};{};{}", ser, cps(text), tables(seeds));

    let res = hcommon::catch(|| build(chain).and_then(|n| n.normalize(text)));
    let (ans, fail) = match &res {
        Err(m) => ("panic".to_string(), Some(format!("panic: {m}"))),
        Ok(Err(_)) => ("err:regex".to_string(), None),
        Ok(Ok(_)) if w.errored => (
            "ok-despite-regex-error".to_string(),
            Some("regex: find_iter failed at run time but normalize returned Ok".to_string()),
        ),
        Ok(Ok((normalized, offsets))) => (
            format!("ok {};{}", cps(normalized), join(offsets.iter(), ",")),
            oracle(text, normalized, offsets),
        ),
    };
    // Implementation-vs-assumption failure: reported separately from (and before) the property.
    let fail = w.assumption.clone().or(fail);
    if w.adjacent_matches {
        out.bucket("replace_adjacent_matches");
    }
    out.bucket(match w.n_matches {
        0 => "replace_matches_0",
        1 => "replace_matches_1",
        2..=4 => "replace_matches_2-4",
        _ => "replace_matches_5+",
    });

    out.bucket(&match chain {
        Chain::Bert { .. } => "top_bert".to_string(),
        Chain::Nfc => "top_nfc".to_string(),
        Chain::Nfd => "top_nfd".to_string(),
        Chain::Nfkc => "top_nfkc".to_string(),
        Chain::Nfkd => "top_nfkd".to_string(),
        Chain::Replace { .. } => "top_replace".to_string(),
        Chain::Seq(cs) => format!("top_seq{}", cs.len()),
    });
    if let Chain::Seq(cs) = chain {
        if cs.iter().any(|c| matches!(c, Chain::Seq(_))) {
            out.bucket("nested_seq");
        }
    }
    out.bucket(&format!("text_len_{}", text.chars().count()));
    if text.chars().any(|c| c as u32 >= 0x10000) {
        out.bucket("has_astral");
    }
    if text.chars().any(|c| c.is_mark_nonspacing()) {
        out.bucket("has_combining");
    }
    if w.empty_match {
        out.bucket("replace_empty_match");
    }
    if w.match_at_end {
        out.bucket("replace_match_at_end");
    }
    if w.empty_match_at_end {
        out.bucket("replace_empty_match_at_end");
    }
    match &res {
        Err(_) => out.bucket("answer_panic"),
        Ok(Err(_)) => out.bucket("answer_err"),
        Ok(Ok((normalized, _))) => {
            out.bucket("answer_ok");
            if normalized.len() != text.len() {
                out.bucket("out_len_changed");
            }
        }
    }
    if let Some(m) = &fail {
        let word = m.split_whitespace().next().unwrap_or("").trim_end_matches(':');
        out.bucket(&format!("propfail_{word}"));
    }
    let nontrivial = !text.is_ascii() && !is_noop(chain);
    out.case(&req, &ans, fail.as_deref(), nontrivial);
}

// ---------------------------------------------------------------- generators

const PATTERNS: &[&str] = &[
    "a",
    " ",
    "é",
    r"\s+",
    "  ",
    "[aeiou]",
    r"\p{Mn}",
    ".",
    "x*",
    "^",
    "$",
    "",
    r"\b",
    "(?=b)",
    r"[^\x00-\x7f]+",
];
/// Patterns with an empty match at the end of every text.
const END_EMPTY: &[&str] = &["$", "x*", ""];
const CONTENTS: &[&str] = &["", " ", "_", "--", "é", "\u{2581}", "İ", "e\u{301}", "😀"];

const ASCII: &[&str] = &[
    "a", "b", "e", "i", "o", "u", "x", "z", "q", "s", "k", "A", "B", "E", "I", "O", "X", "Z", "ab", "xb",
];
const WS: &[&str] = &[" ", " ", "  ", "\t", "\n"];
const DIGITS: &[&str] = &["0", "1", "2", "9"];
const ACCENTED: &[&str] = &["é", "É", "ö", "Å", "ñ", "ç"];
const CASING: &[&str] = &["İ", "ß", "\u{1E9E}", "\u{1C5}", "\u{1C4}", "Σ"];
const MARKS: &[&str] = &[
    "\u{300}", "\u{301}", "\u{307}", "\u{308}", "\u{323}", "\u{327}", "\u{5B4}", "\u{93C}", "\u{F71}",
    "\u{F72}",
];
const MARK_SEQS: &[&str] = &[
    "e\u{301}",
    "I\u{307}",
    "q\u{323}\u{307}",
    "q\u{307}\u{323}",
    "a\u{308}\u{301}",
    "a\u{301}\u{308}",
    "c\u{327}\u{301}",
    "c\u{301}\u{327}",
    "o\u{308}",
    "A\u{30A}",
    "\u{915}\u{93C}",
    "\u{F71}\u{F72}",
    "\u{F72}\u{F71}",
    "\u{5D0}\u{5B4}",
];
const COMPAT: &[&str] = &[
    "\u{2460}", "\u{FB01}", "\u{FB03}", "\u{BD}", "\u{B2}", "\u{338F}", "\u{FF21}", "\u{FF76}",
    "\u{FF9E}", "\u{FF76}\u{FF9E}",
];
const HANGUL: &[&str] = &[
    "\u{AC00}",
    "\u{AC01}",
    "\u{D7A3}",
    "\u{1100}\u{1161}\u{11A8}",
    "\u{1100}\u{1161}",
    "\u{AC00}\u{11A8}",
    "\u{1100}",
    "\u{1161}",
    "\u{11A8}",
];
const ASTRAL: &[&str] = &["\u{1F600}", "\u{1D400}", "\u{1D15E}", "\u{10FFFF}", "\u{10000}"];
const SINGLETONS: &[&str] = &["\u{212B}", "\u{2126}", "\u{2000}"];
const EDGES: &[&str] = &["\0", "\u{7F}", "\u{80}", "\u{7FF}", "\u{800}", "\u{FFFF}", "\u{FEFF}"];

fn random_scalar(rng: &mut Rng) -> char {
    loop {
        let hi = if rng.chance(1, 2) { 0x3000 } else { 0x110000 };
        if let Some(c) = char::from_u32(rng.below(hi) as u32) {
            return c;
        }
    }
}

fn gen_item(rng: &mut Rng) -> String {
    let pool: &[&str] = match rng.below(100) {
        0..=23 => ASCII,
        24..=32 => WS,
        33..=35 => DIGITS,
        36..=44 => ACCENTED,
        45..=51 => CASING,
        52..=60 => MARKS,
        61..=68 => MARK_SEQS,
        69..=75 => COMPAT,
        76..=81 => HANGUL,
        82..=83 => &["中"],
        84..=89 => ASTRAL,
        90..=92 => SINGLETONS,
        93..=95 => EDGES,
        96 => &["\u{FDFA}", "\u{FB03}"],
        _ => return random_scalar(rng).to_string(),
    };
    rng.pick(pool).to_string()
}

fn gen_text(rng: &mut Rng, max_chars: usize) -> String {
    let target = if rng.chance(1, 16) { 0 } else { rng.usize_below(max_chars + 1) };
    let mut chars: Vec<char> = Vec::new();
    while chars.len() < target {
        chars.extend(gen_item(rng).chars());
    }
    chars.truncate(target);
    chars.into_iter().collect()
}

/// Escape a literal for fancy_regex.
fn escape(s: &str) -> String {
    let mut o = String::new();
    for c in s.chars() {
        if r"\.+*?()|[]{}^$#&-~".contains(c) {
            o.push('\\');
        }
        o.push(c);
    }
    o
}

fn gen_replace(rng: &mut Rng, text: &str) -> Chain {
    let chars: Vec<char> = text.chars().collect();
    let pattern = if !chars.is_empty() && rng.chance(15, 100) {
        let start = rng.usize_below(chars.len());
        let len = 1 + rng.usize_below(2.min(chars.len() - start));
        escape(&chars[start..start + len].iter().collect::<String>())
    } else {
        rng.pick(PATTERNS).to_string()
    };
    Chain::Replace { pattern, content: rng.pick(CONTENTS).to_string() }
}

fn gen_end_empty_replace(rng: &mut Rng) -> Chain {
    // mostly non-empty content so that the match at text.len() produces offsets
    let content = if rng.chance(1, 8) { "" } else { *rng.pick(&CONTENTS[1..]) };
    Chain::Replace { pattern: rng.pick(END_EMPTY).to_string(), content: content.to_string() }
}

fn gen_leaf(rng: &mut Rng, text: &str) -> Chain {
    match rng.below(100) {
        0..=5 => Chain::Bert { lower: false, strip: false },
        6..=13 => Chain::Bert { lower: false, strip: true },
        14..=21 => Chain::Bert { lower: true, strip: false },
        22..=29 => Chain::Bert { lower: true, strip: true },
        30..=37 => Chain::Nfc,
        38..=45 => Chain::Nfd,
        46..=53 => Chain::Nfkc,
        54..=61 => Chain::Nfkd,
        _ => gen_replace(rng, text),
    }
}

fn gen_flat_seq(rng: &mut Rng, text: &str, max_len: usize) -> Vec<Chain> {
    let n = rng.usize_below(max_len + 1);
    let mut v: Vec<Chain> = (0..n).map(|_| gen_leaf(rng, text)).collect();
    if n > 0 {
        if rng.chance(12, 100) {
            v[n - 1] = gen_end_empty_replace(rng);
        }
        if rng.chance(6, 100) {
            v[0] = gen_end_empty_replace(rng);
        }
    }
    v
}

fn gen_chain(rng: &mut Rng, text: &str) -> Chain {
    match rng.below(100) {
        0..=44 => gen_leaf(rng, text),
        45..=94 => Chain::Seq(gen_flat_seq(rng, text, 4)),
        _ => {
            let n = 1 + rng.usize_below(3);
            let nested_at = rng.usize_below(n);
            let v = (0..n)
                .map(|i| {
                    if i == nested_at || rng.chance(1, 4) {
                        Chain::Seq(gen_flat_seq(rng, text, 3))
                    } else {
                        gen_leaf(rng, text)
                    }
                })
                .collect();
            Chain::Seq(v)
        }
    }
}

const FIXED_TEXTS: &[&str] = &[
    "",
    "a",
    "ö",
    "İİAB",
    "Motörhead",
    "e\u{301}",
    "\u{301}",
    "①",
    "ﬃ",
    "가",
    "\u{1100}\u{1161}\u{11A8}",
    "😀",
    "a😀b",
    "  ",
    "foo  bar",
    "ß",
    "Ǆ",
    "\u{1D15E}",
    "q\u{323}\u{307}",
    "q\u{307}\u{323}",
    "I\u{307}ab",
    "Éab",
    "ab",
    "\u{FF76}\u{FF9E}",
    "\u{212B}x",
    " é ",
];

fn main() {
    let args = hcommon::parse_args();
    hcommon::quiet_panics();
    run(&args)
}

/// Coverage request `I`: every `impl Normalizer for X` in the source under test. The model
/// answers with the list of normalizers it models, so a new implementation shows up as a
/// disagreement.
fn coverage(out: &mut Out) {
    let repo = std::env::var("VERIF_REPO").unwrap_or_else(|_| "/repo".to_string());
    let ans = match std::fs::read_to_string(format!("{repo}/rten-text/src/normalizers.rs")) {
        Ok(src) => {
            let mut names: Vec<String> = src
                .lines()
                .filter_map(|l| l.trim_start().strip_prefix("impl Normalizer for "))
                .map(|r| r.chars().take_while(|c| c.is_alphanumeric() || *c == '_').collect())
                .collect();
            names.sort();
            names.dedup();
            names.join(",")
        }
        Err(_) => "err:source-unreadable".to_string(),
    };
    out.bucket("coverage_request");
    out.case("I", &ans, None, false);
}

fn run(args: &Args) {
    let mut out = Out::new(&args.out);
    let mut rng = Rng::new(args.seed);
    coverage(&mut out);

    // (a) deterministic block: every leaf and every 2-stage Sequence of leaves on fixed texts.
    let mut leaves = vec![
        Chain::Bert { lower: false, strip: false },
        Chain::Bert { lower: false, strip: true },
        Chain::Bert { lower: true, strip: false },
        Chain::Bert { lower: true, strip: true },
        Chain::Nfc,
        Chain::Nfd,
        Chain::Nfkc,
        Chain::Nfkd,
    ];
    for p in PATTERNS {
        leaves.push(Chain::Replace { pattern: p.to_string(), content: "_".to_string() });
    }
    for text in FIXED_TEXTS {
        for a in &leaves {
            one(&mut out, text, a);
        }
        for a in &leaves {
            for b in &leaves {
                one(&mut out, text, &Chain::Seq(vec![a.clone(), b.clone()]));
            }
        }
    }

    // (a2) regex runtime errors: a look-ahead with nested quantifiers exceeds fancy-regex's
    // backtrack limit on a run of x's; `normalize` must return Err (through `?`), also from
    // inside (nested) Sequences and after stages that lengthen the text.
    {
        let boom = Chain::Replace { pattern: r"(x+x+)+\1y".to_string(), content: "_".to_string() };
        let nfc = Chain::Nfc;
        let widen = Chain::Replace { pattern: "a".to_string(), content: "xxxxxxxx".to_string() };
        let xs = "x".repeat(30);
        let cases: Vec<(String, Chain)> = vec![
            (xs.clone(), boom.clone()),
            (xs.clone(), Chain::Seq(vec![boom.clone()])),
            (xs.clone(), Chain::Seq(vec![nfc.clone(), boom.clone()])),
            (xs.clone(), Chain::Seq(vec![boom.clone(), nfc.clone(), Chain::Replace { pattern: "x".to_string(), content: "y".to_string() }])),
            (xs.clone(), Chain::Seq(vec![Chain::Seq(vec![nfc.clone(), boom.clone()]), Chain::Bert { lower: true, strip: false }])),
            ("aaaa".to_string(), Chain::Seq(vec![widen.clone(), boom.clone()])),
            ("aaaa".to_string(), boom.clone()),
            (format!("é{xs}"), Chain::Seq(vec![Chain::Nfd, boom.clone()])),
            ("xxxy".to_string(), boom.clone()),
        ];
        for (t, c) in &cases {
            one(&mut out, t, c);
        }
    }

    // (b) random block.
    let (n, max_chars) = if args.thorough { (600_000, 16) } else { (40_000, 10) };
    for _ in 0..n {
        let text = gen_text(&mut rng, max_chars);
        let chain = gen_chain(&mut rng, &text);
        one(&mut out, &text, &chain);
    }
    out.finish("every leaf normalizer (4 Bert configs, NFC/NFD/NFKC/NFKD, Replace with 15 patterns) and every 2-stage Sequence of them on 26 fixed texts, plus random texts of 0..=10 (thorough 16) chars from weighted Unicode pools (accents, expanding lowercase, combining marks in both orders, compatibility chars, Hangul, astral, singletons, UTF-8 width edges, random scalars) under random leaf / Sequence (0..=4 stages, sometimes nested) chains incl. Replace with empty matches at the end of the text; non-trivial = non-ASCII text and chain not a no-op; distinct by request text");
}
