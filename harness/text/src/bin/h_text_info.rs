fn main() { println!("h-text harness package: run a property binary (cNN) instead"); }
