//! C27: "Byte-level BPE tokenization round-trips and reports consistent offsets" —
//! `rten_text::models::Bpe` behind `rten_text::Tokenizer` (encode / decode /
//! `Encoded::{token_ids, token_offsets, text_for_token_range}`) run on the real crate.
//!
//! Request lines (no spaces, all numbers decimal):
//!   `B`                                                → the byte_to_char table, 256 code points joined by `,`
//!   `T;<vocab>;<merges>;<eow>;<ignore>;<added>`        → `ok` | `err:invalid-merge` | `err:missing-vocab` | `err:other` | `panic`
//!   `E;<srclen>;<text>;<pieces>;<map>;<src>`           → `i=<ids>;o=<offsets>;d=<decode>;s=<slices>` | `err:encode` | `panic`
//! * `<vocab>`  complete vocabulary `id:cp.cp` sorted by id (for `vocab: None` the harness mimics
//!   `build_vocab`, HashMap insert semantics); `<merges>` `cp.cp/cp.cp` in rank order;
//!   `<eow>` `0`, or `1:<suffix cps joined by .>` iff end_of_word_suffix is Some(non-empty); `<added>` `id:b.b.b` (UTF-8 bytes).
//! * `<text>` bytes of the normalized text joined by `.`; `<pieces>` the pre-tokenizer's output on
//!   the normalized text as byte ranges `s-e` (no pre-tokenizer: `0-<len>`); `<map>` `-` without a
//!   normalizer else `m` + the normalizer's offset map joined by `.`; `<src>` `-` without a
//!   normalizer else `s` + the bytes of the source text.
//! * `<decode>` `ok:<bytes>` | `err:id` | `err:utf8` | `panic`; `<slices>` per token index i the
//!   result of `text_for_token_range(i..i+1)`: `none` | `b:<bytes>`.
//!
//! Property oracle on the implementation's own output (first failure wins):
//!  P0 panic; P1 offsets non-decreasing; P2 every offset is a char boundary of the source;
//!  P3 decode(encode(t)) == t and P4 the per-token slices concatenate to t (both only when eow is
//!  off, no added-token id clashes with the vocab, the pre-tokenizer is lossless and the normalizer
//!  absent or the identity on t); P5 with eow on (auto vocab, lossless, no normalizer, no clash)
//!  decode == concatenation of piece + suffix over the non-empty pieces.
use hcommon::{join, Args, Out, Rng};
use rten_text::models::{char_to_byte, Bpe, BpeError, BpeOptions, DecodeError, Model};
use rten_text::normalizers::{self as nz, NormalizeError, Normalizer};
use rten_text::pre_tokenizers::{
    self as pt, PreTokenizeError, PreTokenizer, Split, SplitDelimiterBehavior, SplitOptions,
};
use rten_text::tokenizer::{Tokenizer, TokenizerError};
use rten_text::verif::FancyRegex;
use std::borrow::Cow;
use std::collections::{BTreeSet, HashMap, HashSet};
use std::rc::Rc;

// ---------------------------------------------------------------- byte table

struct Ctx {
    b2c: [char; 256],
    rank: [u32; 256],
}

impl Ctx {
    fn enc(&self, s: &str) -> String {
        s.bytes().map(|b| self.b2c[b as usize]).collect()
    }
}

fn cps_dot(s: &str) -> String {
    join(s.chars().map(|c| c as u32), ".")
}

fn bytes_dot(b: &[u8]) -> String {
    join(b.iter(), ".")
}

// ---------------------------------------------------------------- tokenizer configs

#[derive(Clone, Copy, PartialEq, Debug)]
enum Kind {
    Auto,
    Explicit,
    Broken,
}

struct Cfg {
    kind: Kind,
    merges: Vec<(String, String)>,
    /// The complete vocabulary the `Bpe` ends up with (mimicked for `pass_vocab == false`).
    vocab: HashMap<String, u32>,
    pass_vocab: bool,
    eow: Option<String>,
    ignore: bool,
    added: Vec<(u32, String)>,
}

const EOW: &str = "</w>";

impl Cfg {
    fn eow_on(&self) -> bool {
        self.eow.as_deref().is_some_and(|s| !s.is_empty())
    }

    fn clash(&self) -> bool {
        let ids: HashSet<u32> = self.vocab.values().copied().collect();
        self.added.iter().any(|(id, _)| ids.contains(id))
    }

    fn t_line(&self) -> String {
        let mut ents: Vec<(&String, u32)> = self.vocab.iter().map(|(s, id)| (s, *id)).collect();
        ents.sort_by(|a, b| a.1.cmp(&b.1).then(a.0.cmp(b.0)));
        let vocab = join(ents.iter().map(|(s, id)| format!("{}:{}", id, cps_dot(s))), ",");
        let merges = join(
            self.merges.iter().map(|(a, b)| format!("{}/{}", cps_dot(a), cps_dot(b))),
            ",",
        );
        let mut added = self.added.clone();
        added.sort();
        let added = join(
            added.iter().map(|(id, s)| format!("{}:{}", id, bytes_dot(s.as_bytes()))),
            ",",
        );
        // `<eow>`: `0`, or `1:` + the code points of the (non-empty) suffix.
        let eow = match self.eow.as_deref() {
            Some(sfx) if !sfx.is_empty() => format!("1:{}", cps_dot(sfx)),
            _ => "0".to_string(),
        };
        format!("T;{};{};{};{};{}", vocab, merges, eow, self.ignore as u8, added)
    }

    fn build(&self) -> Result<Bpe, BpeError> {
        let merges: Vec<(Cow<str>, Cow<str>)> = self
            .merges
            .iter()
            .map(|(a, b)| (Cow::Borrowed(a.as_str()), Cow::Borrowed(b.as_str())))
            .collect();
        let opts = BpeOptions {
            merges: &merges,
            vocab: if self.pass_vocab {
                Some(self.vocab.iter().map(|(k, v)| (k.clone(), *v)).collect())
            } else {
                None
            },
            added_tokens: self.added.iter().cloned().collect(),
            end_of_word_suffix: self.eow.clone(),
            ignore_merges: self.ignore,
        };
        Bpe::new(opts)
    }
}

/// Mimic of `build_vocab` (the fallback used for `vocab: None`).
fn mimic_vocab(ctx: &Ctx, merges: &[(String, String)], eow_on: bool) -> HashMap<String, u32> {
    let mut v: HashMap<String, u32> = HashMap::new();
    for b in 0..256usize {
        v.insert(ctx.b2c[b].to_string(), ctx.rank[b]);
    }
    if eow_on {
        let start = v.len() as u32;
        for b in 0..256usize {
            v.insert(format!("{}{}", ctx.b2c[b], EOW), start + ctx.rank[b]);
        }
    }
    let start = v.len() as u32;
    for (i, (a, b)) in merges.iter().enumerate() {
        v.insert(format!("{a}{b}"), start + i as u32);
    }
    v
}

const MINI_GPT2: &[(&str, &str)] = &[
    ("Ġ", "t"),
    ("Ġ", "a"),
    ("h", "e"),
    ("i", "n"),
    ("r", "e"),
    ("o", "n"),
    ("Ġt", "he"),
    ("e", "r"),
    ("Ġ", "s"),
    ("a", "t"),
    ("Ġ", "w"),
    ("Ġ", "o"),
    ("e", "n"),
    ("Ġ", "c"),
    ("i", "t"),
    ("i", "s"),
    ("a", "n"),
    ("o", "r"),
    ("e", "s"),
    ("Ġ", "b"),
    ("e", "d"),
    ("Ġ", "f"),
    ("in", "g"),
];

fn pairs(xs: &[(&str, &str)]) -> Vec<(String, String)> {
    xs.iter().map(|(a, b)| (a.to_string(), b.to_string())).collect()
}

/// Words of the texts as sequences of base vocabulary symbols (one per byte; with eow the last
/// symbol carries the suffix). Merges are mostly grown from adjacent symbols of these words.
fn build_corpus(ctx: &Ctx, texts: &[String], eow_on: bool) -> Vec<Vec<String>> {
    let mut words: Vec<&str> = Vec::new();
    for t in texts.iter().map(String::as_str).chain(["the cat is in the bed", "foobar"]) {
        let mut start = 0;
        for (i, c) in t.char_indices() {
            if c.is_whitespace() && i > start {
                words.push(&t[start..i]);
                start = i;
            }
        }
        if start < t.len() {
            words.push(&t[start..]);
        }
        if !t.is_empty() && t.len() <= 16 {
            words.push(t);
        }
    }
    words
        .into_iter()
        .filter(|w| !w.is_empty() && w.len() <= 24)
        .map(|w| {
            let mut syms: Vec<String> = w.bytes().map(|b| ctx.b2c[b as usize].to_string()).collect();
            if eow_on {
                syms.last_mut().unwrap().push_str(EOW);
            }
            syms
        })
        .collect()
}

fn gen_merges(rng: &mut Rng, corpus: &[Vec<String>], n: usize, seed_gpt2: bool) -> Vec<(String, String)> {
    let mut pool: Vec<String> = Vec::new();
    let mut set: HashSet<String> = HashSet::new();
    let add = |pool: &mut Vec<String>, set: &mut HashSet<String>, s: String| {
        if set.insert(s.clone()) {
            pool.push(s);
        }
    };
    for w in corpus {
        for s in w {
            add(&mut pool, &mut set, s.clone());
        }
    }
    for s in ["a", "b", "Ġ"] {
        add(&mut pool, &mut set, s.to_string());
    }
    let mut merges: Vec<(String, String)> = Vec::new();
    if seed_gpt2 {
        for (a, b) in pairs(MINI_GPT2) {
            add(&mut pool, &mut set, a.clone());
            add(&mut pool, &mut set, b.clone());
            add(&mut pool, &mut set, format!("{a}{b}"));
            merges.push((a, b));
        }
    }
    let multi: Vec<usize> = (0..corpus.len()).filter(|&i| corpus[i].len() >= 2).collect();
    let mut attempts = 0usize;
    while merges.len() < n {
        attempts += 1;
        let r = rng.below(100);
        let pair: Option<(String, String)> = if r < 5 && !merges.is_empty() {
            // exact duplicate of an earlier pair
            Some(rng.pick(&merges).clone())
        } else if r < 13 {
            // a different split of a string that is already a token
            let cands: Vec<&String> = pool.iter().filter(|s| s.chars().count() >= 3).collect();
            if cands.is_empty() {
                None
            } else {
                let s = (*rng.pick(&cands)).clone();
                let cuts: Vec<usize> = s.char_indices().map(|(i, _)| i).filter(|&i| i > 0).collect();
                let mut found = None;
                for _ in 0..4 {
                    let c = *rng.pick(&cuts);
                    let (x, y) = s.split_at(c);
                    if set.contains(x) && set.contains(y) {
                        found = Some((x.to_string(), y.to_string()));
                        break;
                    }
                }
                found
            }
        } else if r < 72 && !multi.is_empty() {
            // two adjacent token strings of a word of the texts
            let w = &corpus[*rng.pick(&multi)];
            let p = 1 + rng.usize_below(w.len() - 1);
            let la = 1 + rng.usize_below(3.min(p));
            let lb = 1 + rng.usize_below(3.min(w.len() - p));
            let mut a = w[p - la..p].concat();
            let mut b = w[p..p + lb].concat();
            if !set.contains(&a) {
                a = w[p - 1].clone();
            }
            if !set.contains(&b) {
                b = w[p].clone();
            }
            Some((a, b))
        } else {
            Some((rng.pick(&pool).clone(), rng.pick(&pool).clone()))
        };
        let Some((a, b)) = pair else { continue };
        // unintended repeats of a pair are redrawn (intended ones come from the r < 5 branch)
        if r >= 5 && attempts < 20 * (n + 1) && merges.iter().any(|(x, y)| *x == a && *y == b) {
            continue;
        }
        add(&mut pool, &mut set, format!("{a}{b}"));
        merges.push((a, b));
    }
    merges
}

fn relabel(rng: &mut Rng, vocab: &mut HashMap<String, u32>) {
    let mut ents: Vec<(String, u32)> = vocab.drain().collect();
    ents.sort_by(|a, b| a.1.cmp(&b.1).then(a.0.cmp(&b.0)));
    let n = ents.len();
    // (large vocabularies get small ids: request lines stay below ~8 KB)
    let base = if n > 400 { *rng.pick(&[0u32, 1, 100]) } else { *rng.pick(&[0u32, 1, 100, 1000, 50000]) };
    match rng.below(3) {
        0 => {
            let mut perm: Vec<u32> = (0..n as u32).collect();
            rng.shuffle(&mut perm);
            for (i, (s, _)) in ents.into_iter().enumerate() {
                vocab.insert(s, perm[i] + base);
            }
        }
        1 => {
            for (s, id) in ents {
                vocab.insert(s, id * 3 + 7);
            }
        }
        _ => {
            for (s, id) in ents {
                vocab.insert(s, id + base);
            }
        }
    }
}

fn sorted_ids(vocab: &HashMap<String, u32>) -> Vec<u32> {
    let mut v: Vec<u32> = vocab.values().copied().collect();
    v.sort();
    v.dedup();
    v
}

fn gen_config(rng: &mut Rng, ctx: &Ctx, texts: &[String], thorough: bool, out: &mut Out) -> Cfg {
    let eow = match rng.below(100) {
        0..=79 => None,
        80..=94 => Some(EOW.to_string()),
        _ => Some(String::new()),
    };
    let eow_on = eow.as_deref().is_some_and(|s| !s.is_empty());
    let corpus = build_corpus(ctx, texts, eow_on);
    let max_m = if thorough && !eow_on { 80 } else { 40 };
    let n = match rng.below(100) {
        0..=9 => 0,
        10..=29 => 1 + rng.usize_below(5),
        30..=69 => 6 + rng.usize_below(15),
        _ => 21 + rng.usize_below(max_m - 20),
    };
    let seed_gpt2 = !eow_on && rng.chance(1, 10);
    let n = if seed_gpt2 && (n < MINI_GPT2.len() || rng.chance(1, 2)) { MINI_GPT2.len() } else { n };
    let mut merges = gen_merges(rng, &corpus, n, seed_gpt2);
    if seed_gpt2 {
        out.bucket("merges_mini_gpt2");
    }
    let mut vocab = mimic_vocab(ctx, &merges, eow_on);
    let mut ignore = rng.chance(20, 100);
    let mut pass_vocab = false;

    // a string that is certainly not in the vocabulary
    let unknown = |rng: &mut Rng, vocab: &HashMap<String, u32>| -> String {
        let keys = ["zq", "qz", "xj", "Ġq", "zqzq", "qqq", "Ãq"];
        for _ in 0..8 {
            let k = rng.pick(&keys);
            if !vocab.contains_key(*k) {
                return k.to_string();
            }
        }
        "zqzqzqzq".to_string()
    };

    let kind = match rng.below(100) {
        0..=49 => Kind::Auto,
        50..=94 => Kind::Explicit,
        _ => Kind::Broken,
    };
    match kind {
        Kind::Auto => {}
        Kind::Explicit => {
            pass_vocab = true;
            let n_extra = if rng.chance(1, 2) { 0 } else { 1 + rng.usize_below(3) };
            let mut next = sorted_ids(&vocab).last().copied().unwrap_or(0) + 1;
            let mut added_extra = false;
            for _ in 0..n_extra {
                let s = if rng.chance(1, 3) || corpus.is_empty() {
                    let fixed: &[&str] = &["foobar", " the", "é", "the", " cat"];
                    ctx.enc(*rng.pick(fixed))
                } else {
                    // a whole word of the texts (without the eow suffix)
                    let w = rng.pick(&corpus).concat();
                    w.strip_suffix(EOW).filter(|_| eow_on).unwrap_or(&w).to_string()
                };
                if !s.is_empty() && !vocab.contains_key(&s) {
                    vocab.insert(s, next);
                    next += 1 + rng.below(3) as u32;
                    added_extra = true;
                }
            }
            if added_extra {
                out.bucket("explicit_extra_words");
                if rng.chance(1, 2) {
                    ignore = true;
                }
            }
            relabel(rng, &mut vocab);
        }
        Kind::Broken => {
            let variant = if merges.is_empty() { *rng.pick(&[0u64, 2, 3]) } else { rng.below(4) };
            match variant {
                0 => {
                    // one byte entry missing
                    pass_vocab = true;
                    let b = if rng.chance(1, 2) && !corpus.is_empty() {
                        let w = rng.pick(&corpus);
                        rng.pick(w).chars().next().unwrap()
                    } else {
                        ctx.b2c[rng.usize_below(256)]
                    };
                    vocab.remove(&b.to_string());
                    out.bucket("broken_byte_removed");
                }
                1 => {
                    // the result of a merge is missing
                    pass_vocab = true;
                    let (a, b) = rng.pick(&merges).clone();
                    vocab.remove(&format!("{a}{b}"));
                    out.bucket("broken_merge_result_removed");
                }
                2 => {
                    // explicit vocabulary, a merge names an unknown string
                    pass_vocab = true;
                    let u = unknown(rng, &vocab);
                    let known = ctx.b2c[b'e' as usize].to_string();
                    let m = if rng.chance(1, 2) { (u, known) } else { (known, u) };
                    let at = rng.usize_below(merges.len() + 1);
                    merges.insert(at, m);
                    out.bucket("broken_merge_unknown_part");
                }
                _ => {
                    // automatic vocabulary, a merge refers to a string no earlier merge produced
                    let u = unknown(rng, &vocab);
                    let known = ctx.b2c[b'e' as usize].to_string();
                    let m = if rng.chance(1, 2) { (u, known) } else { (known, u) };
                    let at = rng.usize_below(merges.len() + 1);
                    merges.insert(at, m);
                    vocab = mimic_vocab(ctx, &merges, eow_on);
                    out.bucket("broken_auto");
                }
            }
            if pass_vocab && rng.chance(1, 2) {
                relabel(rng, &mut vocab);
            }
        }
    }

    // added tokens
    let ids = sorted_ids(&vocab);
    let fresh = |rng: &mut Rng| -> u32 {
        if !ids.contains(&50256) && rng.chance(1, 2) {
            50256
        } else {
            ids.last().copied().unwrap_or(0) + 1 + rng.below(5) as u32
        }
    };
    let mut added: Vec<(u32, String)> = Vec::new();
    match rng.below(100) {
        0..=59 => {}
        60..=89 => added.push((fresh(rng), "<|endoftext|>".to_string())),
        _ => {
            // clash with an id of the vocabulary, preferably one the texts use
            let mut used: BTreeSet<u32> = BTreeSet::new();
            for w in &corpus {
                for s in w {
                    if let Some(&id) = vocab.get(s) {
                        used.insert(id);
                    }
                }
            }
            for (a, b) in &merges {
                if let Some(&id) = vocab.get(&format!("{a}{b}")) {
                    used.insert(id);
                }
            }
            let used: Vec<u32> = used.into_iter().collect();
            let id = if !used.is_empty() && rng.chance(7, 10) {
                *rng.pick(&used)
            } else if !ids.is_empty() {
                *rng.pick(&ids)
            } else {
                0
            };
            let content = match rng.below(10) {
                0..=5 => "<|endoftext|>",
                6..=7 => "X",
                _ => "é",
            };
            added.push((id, content.to_string()));
            if rng.chance(1, 4) {
                let f = fresh(rng);
                if f != id {
                    added.push((f, "<|endoftext|>".to_string()));
                }
            }
        }
    }

    Cfg { kind, merges, vocab, pass_vocab, eow, ignore, added }
}

// ---------------------------------------------------------------- pre-tokenizers / normalizers

#[derive(Clone, Debug)]
enum Pre {
    None,
    Gpt2,
    Split { pattern: String, invert: bool, isolate: bool },
    Bert,
    Digits(bool),
    Seq(Vec<Pre>),
    /// What `Tokenizer::from_json` builds for `ByteLevel { use_regex: false }`:
    /// `Split { pattern: ".*", invert: true, Remove }`.
    ByteLevelNoRegex,
}

impl Pre {
    /// Pre-tokenizers the crate uses as (or documents to be) lossless: their chunks must
    /// partition the input. `Split` with `Remove` is lossless only if the pattern covers the text.
    fn promised_lossless(&self) -> bool {
        match self {
            Pre::None | Pre::Gpt2 | Pre::Bert | Pre::Digits(_) | Pre::ByteLevelNoRegex => true,
            Pre::Split { pattern, invert, isolate } => {
                *isolate || (*invert && (pattern == "(?s)." || pattern == r"\s+|\S+"))
            }
            Pre::Seq(ps) => ps.iter().all(|p| p.promised_lossless()),
        }
    }

    fn kind(&self) -> &'static str {
        match self {
            Pre::None => "none",
            Pre::ByteLevelNoRegex => "bytelevel_noregex",
            Pre::Gpt2 => "gpt2",
            Pre::Split { .. } => "split",
            Pre::Bert => "bert",
            Pre::Digits(_) => "digits",
            Pre::Seq(_) => "seq",
        }
    }
}

#[derive(Clone, Copy, Debug, PartialEq, Eq, Hash)]
enum Norm {
    None,
    Nfc,
    Nfd,
    Nfkc,
    BertLower,
    BertNoop,
    ReplaceSpace,
    ReplaceWs,
    SeqNfcLower,
    SeqCaret,
}

impl Norm {
    fn kind(&self) -> &'static str {
        match self {
            Norm::None => "none",
            Norm::Nfc => "nfc",
            Norm::Nfd => "nfd",
            Norm::Nfkc => "nfkc",
            Norm::BertLower => "bert_lower",
            Norm::BertNoop => "bert_noop",
            Norm::ReplaceSpace => "replace_space",
            Norm::ReplaceWs => "replace_ws",
            Norm::SeqNfcLower => "seq_nfc_lower",
            Norm::SeqCaret => "seq_caret",
        }
    }
}

/// Shares one compiled pre-tokenizer between the tokenizer under test and the direct call that
/// produces the `<pieces>` field (compiling the GPT-2 regex per case would dominate the run time).
struct SharedPre(Rc<dyn PreTokenizer>);

impl PreTokenizer for SharedPre {
    fn pre_tokenize<'a>(&self, text: &'a str) -> Result<Vec<&'a str>, PreTokenizeError> {
        self.0.pre_tokenize(text)
    }
}

#[derive(Debug)]
struct SharedNorm(Rc<dyn Normalizer>);

impl Normalizer for SharedNorm {
    fn normalize(&self, text: &str) -> Result<(String, Vec<usize>), NormalizeError> {
        self.0.normalize(text)
    }
}

#[derive(Default)]
struct Cache {
    pre: HashMap<String, Option<Rc<dyn PreTokenizer>>>,
    norm: HashMap<Norm, Option<Rc<dyn Normalizer>>>,
}

impl Cache {
    fn pre(&mut self, p: &Pre) -> Option<Rc<dyn PreTokenizer>> {
        let key = format!("{p:?}");
        if let Some(x) = self.pre.get(&key) {
            return x.clone();
        }
        let built: Option<Rc<dyn PreTokenizer>> = match p {
            Pre::None => None,
            Pre::Gpt2 => Some(Rc::new(Split::gpt2())),
            Pre::Split { pattern, invert, isolate } => Split::new(SplitOptions {
                pattern,
                invert: *invert,
                delimiter: if *isolate {
                    SplitDelimiterBehavior::Isolate
                } else {
                    SplitDelimiterBehavior::Remove
                },
            })
            .ok()
            .map(|s| Rc::new(s) as Rc<dyn PreTokenizer>),
            Pre::Bert => Some(Rc::new(pt::Bert::new())),
            Pre::ByteLevelNoRegex => Split::new(SplitOptions {
                pattern: r".*",
                invert: true,
                ..Default::default()
            })
            .ok()
            .map(|s| Rc::new(s) as Rc<dyn PreTokenizer>),
            Pre::Digits(ind) => Some(Rc::new(pt::Digits::new(*ind))),
            Pre::Seq(ps) => {
                let mut v: Vec<Box<dyn PreTokenizer>> = Vec::new();
                let mut ok = true;
                for q in ps {
                    match self.pre(q) {
                        Some(rc) => v.push(Box::new(SharedPre(rc))),
                        None => ok = false,
                    }
                }
                ok.then(|| Rc::new(pt::Sequence::from_vec(v)) as Rc<dyn PreTokenizer>)
            }
        };
        if self.pre.len() > 50_000 {
            self.pre.clear();
        }
        self.pre.insert(key, built.clone());
        built
    }

    fn norm(&mut self, n: Norm) -> Option<Rc<dyn Normalizer>> {
        if let Some(x) = self.norm.get(&n) {
            return x.clone();
        }
        let lower = || nz::Bert::new(nz::BertOptions { lowercase: true, strip_accents: false });
        let built: Option<Rc<dyn Normalizer>> = match n {
            Norm::None => None,
            Norm::Nfc => Some(Rc::new(nz::Unicode::Nfc)),
            Norm::Nfd => Some(Rc::new(nz::Unicode::Nfd)),
            Norm::Nfkc => Some(Rc::new(nz::Unicode::Nfkc)),
            Norm::BertLower => Some(Rc::new(lower())),
            Norm::BertNoop => {
                Some(Rc::new(nz::Bert::new(nz::BertOptions { lowercase: false, strip_accents: false })))
            }
            Norm::ReplaceSpace => nz::Replace::new(" ", "\u{2581}".to_string())
                .ok()
                .map(|r| Rc::new(r) as Rc<dyn Normalizer>),
            Norm::ReplaceWs => nz::Replace::new(r"\s+", " ".to_string())
                .ok()
                .map(|r| Rc::new(r) as Rc<dyn Normalizer>),
            Norm::SeqNfcLower => Some(Rc::new(nz::Sequence::from_vec(vec![
                Box::new(nz::Unicode::Nfc),
                Box::new(lower()),
            ]))),
            Norm::SeqCaret => nz::Replace::new("^", "\u{2581}".to_string())
                .ok()
                .map(|r| Rc::new(nz::Sequence::from_vec(vec![Box::new(r)])) as Rc<dyn Normalizer>),
        };
        self.norm.insert(n, built.clone());
        built
    }
}

// ---------------------------------------------------------------- tokenizer.json path

fn json_str(s: &str) -> String {
    let mut o = String::from("\"");
    for c in s.chars() {
        match c {
            '"' => o.push_str("\\\""),
            '\\' => o.push_str("\\\\"),
            c if (c as u32) < 0x20 => o.push_str(&format!("\\u{:04x}", c as u32)),
            c => o.push(c),
        }
    }
    o.push('"');
    o
}

/// The tokenizer for `cfg` built by the crate's own `Tokenizer::from_json` with the pre-tokenizer
/// `ByteLevel { use_regex: false }` (the code path that constructs the "no-op" splitter).
fn json_tokenizer(cfg: &Cfg) -> Option<Tokenizer> {
    let vocab = join(cfg.vocab.iter().map(|(k, v)| format!("{}:{}", json_str(k), v)), ",");
    let merges = join(cfg.merges.iter().map(|(a, b)| format!("[{},{}]", json_str(a), json_str(b))), ",");
    let added = join(
        cfg.added.iter().map(|(id, c)| format!("{{\"content\":{},\"id\":{}}}", json_str(c), id)),
        ",",
    );
    let eow = match cfg.eow.as_deref() {
        Some(s) => json_str(s),
        None => "null".to_string(),
    };
    let json = format!(
        "{{\"added_tokens\":[{added}],\"normalizer\":null,\"pre_tokenizer\":{{\"type\":\"ByteLevel\",\"use_regex\":false}},\"model\":{{\"type\":\"BPE\",\"vocab\":{{{vocab}}},\"merges\":[{merges}],\"end_of_word_suffix\":{eow},\"ignore_merges\":{}}}}}",
        cfg.ignore
    );
    match hcommon::catch(|| Tokenizer::from_json(&json)) {
        Ok(Ok(t)) => Some(t),
        _ => None,
    }
}

// ---------------------------------------------------------------- one E case

fn len_bucket(n: usize, edges: &[usize]) -> String {
    // edges = inclusive upper bounds of the buckets
    let mut lo = 0;
    for &e in edges {
        if n <= e {
            return if lo == e { format!("{e}") } else { format!("{lo}-{e}") };
        }
        lo = e + 1;
    }
    format!("{lo}+")
}

fn first_word(m: &str) -> String {
    m.split_whitespace().next().unwrap_or("").trim_end_matches(':').to_string()
}

fn run_e(out: &mut Out, cache: &mut Cache, cfg: &Cfg, text: &str, pre: &Pre, norm: Norm) {
    // the normalizer and the pre-tokenizer called directly: <text>, <map>, <pieces>
    let norm_rc = cache.norm(norm);
    if norm != Norm::None && norm_rc.is_none() {
        return out.bucket("dropped_norm_build");
    }
    let (normalized, map): (String, Option<Vec<usize>>) = match &norm_rc {
        None => (text.to_string(), None),
        Some(n) => match hcommon::catch(|| n.normalize(text)) {
            Ok(Ok((s, m))) => (s, Some(m)),
            Ok(Err(_)) => return out.bucket("dropped_norm_err"),
            Err(_) => return out.bucket("dropped_norm_panic"),
        },
    };
    // ByteLevel{use_regex:false} is built by the crate itself (from_json); its chunks cannot be
    // observed directly, so the model gets what a no-op splitter promises: the whole text.
    let via_json = matches!(pre, Pre::ByteLevelNoRegex);
    let pre_rc = if via_json { None } else { cache.pre(pre) };
    if !matches!(pre, Pre::None) && !via_json && pre_rc.is_none() {
        return out.bucket("dropped_pre_build");
    }
    let pieces: Vec<(usize, usize)> = match &pre_rc {
        None if via_json && normalized.is_empty() => vec![],
        None => vec![(0, normalized.len())],
        Some(p) => match hcommon::catch(|| {
            p.pre_tokenize(&normalized).map(|v| {
                v.iter()
                    .map(|s| {
                        let start = s.as_ptr() as usize - normalized.as_ptr() as usize;
                        (start, start + s.len())
                    })
                    .collect::<Vec<_>>()
            })
        }) {
            Ok(Ok(v)) => v,
            Ok(Err(_)) => return out.bucket("dropped_pre_err"),
            Err(_) => return out.bucket("dropped_pre_panic"),
        },
    };
    let req = format!(
        "E;{};{};{};{};{}",
        text.len(),
        bytes_dot(normalized.as_bytes()),
        join(pieces.iter().map(|(s, e)| format!("{s}-{e}")), ","),
        match &map {
            None => "-".to_string(),
            Some(m) => format!("m{}", join(m.iter(), ".")),
        },
        match &map {
            None => "-".to_string(),
            Some(_) => format!("s{}", bytes_dot(text.as_bytes())),
        },
    );

    let mut cur = 0;
    let mut lossless = true;
    for &(s, e) in &pieces {
        lossless &= s == cur && e >= s;
        cur = e;
    }
    lossless &= cur == normalized.len();
    let norm_identity = normalized == text;
    let eow_on = cfg.eow_on();
    let clash = cfg.clash();

    // the tokenizer under test
    let tokenizer = match hcommon::catch(|| cfg.build()) {
        Ok(Ok(_)) if via_json => {
            let Some(mut t) = json_tokenizer(cfg) else {
                return out.bucket("dropped_json_build");
            };
            if let Some(n) = &norm_rc {
                t = t.with_normalizer(Box::new(SharedNorm(n.clone())));
            }
            t
        }
        Ok(Ok(bpe)) => {
            let mut t = Tokenizer::new(bpe, Default::default());
            if let Some(p) = &pre_rc {
                t = t.with_pre_tokenizer(Box::new(SharedPre(p.clone())));
            }
            if let Some(n) = &norm_rc {
                t = t.with_normalizer(Box::new(SharedNorm(n.clone())));
            }
            t
        }
        _ => return out.bucket("dropped_rebuild_failed"),
    };

    let mut fail: Option<String> = None;
    let mut set_fail = |f: &mut Option<String>, m: String| {
        if f.is_none() {
            *f = Some(m);
        }
    };
    let promised = pre.promised_lossless();
    if promised && !lossless {
        // The chunks of a pre-tokenizer that is used as lossless do not partition its input:
        // the hypothesis of the round-trip theorems fails on the implementation.
        set_fail(
            &mut fail,
            format!(
                "pretok: {} pre-tokenizer dropped text: chunks {:?} do not partition the {} input bytes",
                pre.kind(),
                pieces,
                normalized.len()
            ),
        );
        out.bucket("pretok_promise_broken");
    }
    let roundtrip_applies = !eow_on && !clash && (lossless || promised) && (map.is_none() || norm_identity);
    let mut n_tokens: Option<usize> = None;
    let mut decode_bucket = "decode_none";

    let ans = match hcommon::catch(|| tokenizer.encode(text, None)) {
        Err(m) => {
            set_fail(&mut fail, format!("panic: {m}"));
            "panic".to_string()
        }
        Ok(Err(e)) => {
            if roundtrip_applies {
                let class = match e {
                    TokenizerError::NormalizeError(_) => "normalize",
                    TokenizerError::PreTokenizeError(_) => "pre-tokenize",
                    TokenizerError::EncodeError(_) => "encode",
                    TokenizerError::DecodeError(_) => "decode",
                };
                set_fail(&mut fail, format!("roundtrip: encode failed ({class} error)"));
            }
            "err:encode".to_string()
        }
        Ok(Ok(encoded)) => {
            let ids: Vec<u32> = encoded.token_ids().to_vec();
            let offs: Vec<usize> = encoded.token_offsets().to_vec();
            n_tokens = Some(ids.len());

            let decoded = hcommon::catch(|| tokenizer.decode(&ids));
            let d = match &decoded {
                Err(m) => {
                    set_fail(&mut fail, format!("panic: decode: {m}"));
                    decode_bucket = "decode_panic";
                    "panic".to_string()
                }
                Ok(Ok(s)) => {
                    decode_bucket = "decode_ok";
                    format!("ok:{}", bytes_dot(s.as_bytes()))
                }
                Ok(Err(TokenizerError::DecodeError(DecodeError::InvalidTokenId(_)))) => {
                    decode_bucket = "decode_err_id";
                    "err:id".to_string()
                }
                Ok(Err(TokenizerError::DecodeError(DecodeError::InvalidUtf8))) => {
                    decode_bucket = "decode_err_utf8";
                    "err:utf8".to_string()
                }
                Ok(Err(_)) => {
                    decode_bucket = "decode_err_other";
                    "err:other".to_string()
                }
            };

            let mut slices: Vec<Option<&str>> = Vec::new();
            let mut slice_strs: Vec<String> = Vec::new();
            for i in 0..ids.len() {
                match hcommon::catch(|| encoded.text_for_token_range(i..i + 1)) {
                    Err(m) => {
                        set_fail(&mut fail, format!("panic: text_for_token_range: {m}"));
                        slices.push(None);
                        slice_strs.push("panic".to_string());
                    }
                    Ok(None) => {
                        slices.push(None);
                        slice_strs.push("none".to_string());
                    }
                    Ok(Some(s)) => {
                        slices.push(Some(s));
                        slice_strs.push(format!("b:{}", bytes_dot(s.as_bytes())));
                    }
                }
            }

            // P1
            if fail.is_none() {
                for i in 1..offs.len() {
                    if offs[i - 1] > offs[i] {
                        set_fail(&mut fail, format!("offsets decreasing at token {i}"));
                        break;
                    }
                }
            }
            // P2
            if fail.is_none() {
                for (i, &o) in offs.iter().enumerate() {
                    if !(o <= text.len() && text.is_char_boundary(o)) {
                        set_fail(
                            &mut fail,
                            format!("offset {o} of token {i} is not a char boundary of the input"),
                        );
                        break;
                    }
                }
            }
            if fail.is_none() && roundtrip_applies {
                // P3
                let ok = matches!(&decoded, Ok(Ok(s)) if s == text);
                if !ok {
                    set_fail(&mut fail, "roundtrip: decode(encode(t)) != t".to_string());
                }
                // P4
                if fail.is_none() {
                    let all = slices.iter().all(|s| s.is_some());
                    let cat: String = slices.iter().map(|s| s.unwrap_or("")).collect();
                    if !all || cat != text {
                        set_fail(&mut fail, "slices do not concatenate to the input".to_string());
                    }
                }
            }
            // P5
            if fail.is_none() && eow_on && !cfg.ignore && cfg.kind == Kind::Auto && lossless && map.is_none() && !clash {
                let mut want = String::new();
                for &(s, e) in &pieces {
                    if e > s {
                        want.push_str(&normalized[s..e]);
                        want.push_str(cfg.eow.as_deref().unwrap_or(""));
                    }
                }
                let ok = matches!(&decoded, Ok(Ok(s)) if *s == want);
                if !ok {
                    set_fail(&mut fail, "eow decode mismatch".to_string());
                }
            }

            format!("i={};o={};d={};s={}", join(ids.iter(), ","), join(offs.iter(), ","), d, slice_strs.join(","))
        }
    };

    // buckets
    out.bucket(&format!("pre_{}", pre.kind()));
    if let Pre::Split { invert, isolate, .. } = pre {
        out.bucket(&format!(
            "split_{}_{}",
            if *invert { "inv" } else { "noinv" },
            if *isolate { "isolate" } else { "remove" }
        ));
    }
    out.bucket(&format!("norm_{}", norm.kind()));
    out.bucket(if lossless { "lossless" } else { "lossy" });
    if norm != Norm::None {
        out.bucket(if norm_identity { "norm_identity" } else { "norm_changes" });
    }
    out.bucket(&format!("text_len_{}", len_bucket(text.chars().count(), &[0, 4, 12, 24])));
    out.bucket(&format!("pieces_{}", len_bucket(pieces.len(), &[0, 1, 4, 12])));
    if !text.is_ascii() {
        out.bucket("text_non_ascii");
    }
    if eow_on {
        out.bucket("e_eow");
    }
    if cfg.ignore {
        out.bucket("e_ignore_merges");
    }
    if clash {
        out.bucket("e_added_clash");
    }
    out.bucket(match cfg.kind {
        Kind::Auto => "e_cfg_auto",
        Kind::Explicit => "e_cfg_explicit",
        Kind::Broken => "e_cfg_broken",
    });
    if roundtrip_applies {
        out.bucket("roundtrip_checked");
    }
    match n_tokens {
        Some(n) => {
            out.bucket(&format!("tokens_{}", len_bucket(n, &[0, 1, 5, 15])));
            if n < normalized.len() {
                out.bucket("merged_some");
            }
            out.bucket(decode_bucket);
        }
        None => out.bucket(if ans == "panic" { "encode_panic" } else { "encode_err" }),
    }
    if let Some(m) = &fail {
        out.bucket(&format!("propfail_{}", first_word(m)));
    }
    let nontrivial = (!text.is_ascii() || pieces.len() >= 2) && !cfg.merges.is_empty();
    out.case(&req, &ans, fail.as_deref(), nontrivial);
}

/// Emit the T line; returns true iff `Bpe::new` succeeded (E lines may follow).
fn run_t(out: &mut Out, cfg: &Cfg) -> bool {
    let req = cfg.t_line();
    let res = hcommon::catch(|| {
        cfg.build().map(|bpe| {
            // self-check of the harness's `build_vocab` mimic / bookkeeping: the model's id -> string
            // table must be the `<vocab>` field (ids shadowed by an added token excepted)
            let shadowed: HashSet<u32> = cfg.added.iter().map(|(id, _)| *id).collect();
            cfg.vocab
                .iter()
                .filter(|(_, id)| !shadowed.contains(id))
                .all(|(s, id)| bpe.get_token_str(*id).as_deref() == Some(s.as_str()))
        })
    });
    if let Ok(Ok(false)) = &res {
        out.bucket("vocab_field_differs_from_model");
    }
    let res = res.map(|r| r.map(|_| ()));
    let (ans, fail, bucket) = match &res {
        Err(m) => ("panic", Some(format!("panic: {m}")), "t_panic"),
        Ok(Ok(())) => ("ok", None, "t_ok"),
        Ok(Err(BpeError::InvalidMergeEntry(_))) => ("err:invalid-merge", None, "t_err_merge"),
        Ok(Err(BpeError::MissingVocabEntry(_))) => ("err:missing-vocab", None, "t_err_vocab"),
        Ok(Err(_)) => ("err:other", None, "t_err_other"),
    };
    out.bucket(match cfg.kind {
        Kind::Auto => "cfg_auto",
        Kind::Explicit => "cfg_explicit",
        Kind::Broken => "cfg_broken",
    });
    out.bucket(bucket);
    out.bucket(&format!(
        "merges_{}",
        match cfg.merges.len() {
            0 => "0",
            1..=5 => "1-5",
            6..=20 => "6-20",
            _ => "21+",
        }
    ));
    if cfg.eow_on() {
        out.bucket("eow");
    } else if cfg.eow.is_some() {
        out.bucket("eow_empty_string");
    }
    if cfg.ignore {
        out.bucket("ignore_merges");
    }
    if cfg.clash() {
        out.bucket("added_clash");
    } else if !cfg.added.is_empty() {
        out.bucket("added_fresh");
    }
    {
        let distinct: HashSet<String> = cfg.merges.iter().map(|(a, b)| format!("{a}{b}")).collect();
        if distinct.len() < cfg.merges.len() {
            out.bucket("merges_duplicate_result");
        }
    }
    out.bucket(&format!("vocab_{}", len_bucket(cfg.vocab.len(), &[255, 256, 300, 512, 560])));
    if let Some(m) = &fail {
        out.bucket(&format!("propfail_{}", first_word(m)));
    }
    out.case(&req, ans, fail.as_deref(), !cfg.merges.is_empty());
    ans == "ok"
}

// ---------------------------------------------------------------- text generators

const WORDS: &[&str] = &[
    "the", "cat", "is", "in", "bed", "foobar", "foo", "bar", "barbar", "Hello", "World", "it's", "12",
    "o'clock", "they're", "I'll", "2024", "a", "thin", "then", "her", "on", "at", "an", "or", "es",
    "ing", "sing", "tested", "we've", "I'm", "he'd", "7",
];
const PHRASES: &[&str] = &[
    "the cat is in the bed",
    "foobar",
    "Hello, World!",
    "it's 12 o'clock",
    " the",
    " leading space",
    "trailing space ",
    "  two  spaces  ",
    "foo  bar",
    "foo bar",
    "barbar",
    "--------",
    "the\tcat\nis",
    "a  ",
    "   ",
];
const PUNCT: &[&str] = &[".", ",", "!", "?", "-", "--", "'", "\"", "(", ")", "<", "|", ">", "/", "#", "_"];
const CTRL: &[&str] = &["\0", "\t", "\n", "\r", "\u{7f}", "\u{85}", "\u{a0}", "\u{ad}", "\r\n"];
const SPECIAL: &[&str] = &["<|endoftext|>", "</w>", "Ġ", "Ċ", "Ġthe", "\u{2581}", "r</w>"];

const ASCII: &[&str] = &[
    "a", "b", "e", "i", "o", "u", "x", "z", "q", "s", "k", "A", "B", "E", "I", "O", "X", "Z", "ab", "xb",
];
const WS: &[&str] = &[" ", " ", "  ", "\t", "\n"];
const DIGITS: &[&str] = &["0", "1", "2", "9", "12", "2024"];
const ACCENTED: &[&str] = &["é", "É", "ö", "Å", "ñ", "ç"];
const CASING: &[&str] = &["İ", "ß", "\u{1E9E}", "\u{1C5}", "\u{1C4}", "Σ"];
const MARKS: &[&str] = &[
    "\u{300}", "\u{301}", "\u{307}", "\u{308}", "\u{323}", "\u{327}", "\u{5B4}", "\u{93C}", "\u{F71}",
    "\u{F72}",
];
const MARK_SEQS: &[&str] = &[
    "e\u{301}",
    "I\u{307}",
    "q\u{323}\u{307}",
    "q\u{307}\u{323}",
    "a\u{308}\u{301}",
    "c\u{327}\u{301}",
    "o\u{308}",
    "A\u{30A}",
    "\u{915}\u{93C}",
    "\u{F71}\u{F72}",
    "\u{5D0}\u{5B4}",
];
const COMPAT: &[&str] = &[
    "\u{2460}", "\u{FB01}", "\u{FB03}", "\u{BD}", "\u{B2}", "\u{338F}", "\u{FF21}", "\u{FF76}",
    "\u{FF9E}", "\u{FF76}\u{FF9E}",
];
const HANGUL: &[&str] = &[
    "\u{AC00}",
    "\u{AC01}",
    "\u{D7A3}",
    "\u{1100}\u{1161}\u{11A8}",
    "\u{1100}\u{1161}",
    "\u{AC00}\u{11A8}",
];
const ASTRAL: &[&str] = &["\u{1F600}", "\u{1D400}", "\u{1D15E}", "\u{10FFFF}", "\u{10000}"];
const SINGLETONS: &[&str] = &["\u{212B}", "\u{2126}", "\u{2000}"];
const EDGES: &[&str] = &["\0", "\u{7F}", "\u{80}", "\u{7FF}", "\u{800}", "\u{FFFF}", "\u{FEFF}"];

fn random_scalar(rng: &mut Rng) -> char {
    loop {
        let hi = if rng.chance(1, 2) { 0x3000 } else { 0x110000 };
        if let Some(c) = char::from_u32(rng.below(hi) as u32) {
            return c;
        }
    }
}

fn gen_item(rng: &mut Rng) -> String {
    let pool: &[&str] = match rng.below(100) {
        0..=17 => ASCII,
        18..=27 => WS,
        28..=32 => DIGITS,
        33..=41 => ACCENTED,
        42..=45 => CASING,
        46..=50 => MARKS,
        51..=56 => MARK_SEQS,
        57..=60 => COMPAT,
        61..=64 => HANGUL,
        65..=67 => &["中", "中文", "日本"],
        68..=73 => ASTRAL,
        74..=75 => SINGLETONS,
        76..=78 => EDGES,
        79..=84 => CTRL,
        85..=89 => PUNCT,
        90..=93 => SPECIAL,
        94..=97 => WORDS,
        _ => return random_scalar(rng).to_string(),
    };
    rng.pick(pool).to_string()
}

fn english_item(rng: &mut Rng, have: bool) -> String {
    match rng.below(100) {
        0..=69 => {
            let w = rng.pick(WORDS);
            if have && rng.chance(85, 100) {
                format!(" {w}")
            } else {
                w.to_string()
            }
        }
        70..=79 => rng.pick(PUNCT).to_string(),
        80..=86 => format!(" {}", rng.pick(DIGITS)),
        87..=91 => "  ".to_string(),
        92..=95 => rng.pick(ACCENTED).to_string(),
        _ => rng.pick(PHRASES).to_string(),
    }
}

fn gen_text(rng: &mut Rng, max_chars: usize) -> String {
    if rng.chance(1, 16) {
        return String::new();
    }
    let target = rng.usize_below(max_chars + 1);
    let style = rng.below(100);
    if style < 10 {
        return rng.pick(PHRASES).chars().take(max_chars).collect();
    }
    let english = style < 45;
    let mut chars: Vec<char> = Vec::new();
    if english && rng.chance(1, 6) {
        chars.push(' ');
    }
    while chars.len() < target {
        let item = if english { english_item(rng, !chars.is_empty()) } else { gen_item(rng) };
        chars.extend(item.chars());
    }
    chars.truncate(target);
    if english && rng.chance(1, 8) && chars.len() < max_chars {
        chars.push(' ');
    }
    chars.into_iter().collect()
}

/// Escape a literal for fancy_regex.
fn escape(s: &str) -> String {
    let mut o = String::new();
    for c in s.chars() {
        if r"\.+*?()|[]{}^$#&-~".contains(c) {
            o.push('\\');
        }
        o.push(c);
    }
    o
}

const SPLIT_PATTERNS: &[&str] =
    &[r"\s+", " ", r"\p{L}+", "[0-9]", ".", "(?s).", r"\s+|\S+", "x*", "", r"(?=\s)"];

fn gen_split(rng: &mut Rng, text: &str) -> Pre {
    let chars: Vec<char> = text.chars().collect();
    let k = rng.usize_below(SPLIT_PATTERNS.len() + 1);
    let pattern = if k == SPLIT_PATTERNS.len() && !chars.is_empty() {
        let start = rng.usize_below(chars.len());
        let len = 1 + rng.usize_below(2.min(chars.len() - start));
        escape(&chars[start..start + len].iter().collect::<String>())
    } else {
        SPLIT_PATTERNS[k % SPLIT_PATTERNS.len()].to_string()
    };
    Pre::Split { pattern, invert: rng.chance(1, 2), isolate: rng.chance(1, 2) }
}

fn gen_pre_leaf(rng: &mut Rng, text: &str) -> Pre {
    match rng.below(75) {
        0..=29 => Pre::Gpt2,
        30..=64 => gen_split(rng, text),
        65..=69 => Pre::Bert,
        _ => Pre::Digits(rng.chance(1, 2)),
    }
}

fn gen_pre(rng: &mut Rng, text: &str) -> Pre {
    match rng.below(100) {
        0..=9 => Pre::None,
        10..=14 => Pre::ByteLevelNoRegex,
        15..=44 => Pre::Gpt2,
        45..=79 => gen_split(rng, text),
        80..=84 => Pre::Bert,
        85..=89 => Pre::Digits(rng.chance(1, 2)),
        _ => Pre::Seq(vec![gen_pre_leaf(rng, text), gen_pre_leaf(rng, text)]),
    }
}

fn gen_norm(rng: &mut Rng) -> Norm {
    match rng.below(100) {
        0..=69 => Norm::None,
        70..=77 => Norm::Nfc,
        78..=81 => Norm::Nfd,
        82..=87 => Norm::BertLower,
        88..=89 => Norm::BertNoop,
        90..=93 => Norm::ReplaceSpace,
        94..=95 => Norm::ReplaceWs,
        96..=97 => Norm::SeqNfcLower,
        98 => Norm::SeqCaret,
        _ => Norm::Nfkc,
    }
}

// ---------------------------------------------------------------- main

fn main() {
    let args = hcommon::parse_args();
    hcommon::quiet_panics();
    run(&args)
}

const RULE: &str = "line B: the byte<->char table (inverse of char_to_byte). Then tokenizer configs (T lines): merge lists of 0..=40 (thorough 80) entries grown from the byte symbols of the texts (adjacent symbols of words, random pool pairs, exact duplicates, alternative splits, sometimes the MINI_GPT2 list), vocabulary automatic (build_vocab mimicked) / explicit (extra whole-word entries, ids relabelled injectively) / broken (missing byte entry, missing merge result, unknown merge part), end_of_word_suffix None / \"</w>\" / \"\", ignore_merges, added tokens none / fresh id / id clashing with the vocabulary; per accepted config 3..=8 texts (E lines) of 0..=24 (thorough 48) chars from English words, digits, punctuation, control chars, accents, combining marks, compatibility chars, Hangul, CJK, astral chars, special-token text, random scalars, each under a random pre-tokenizer (none, Split::gpt2, Split with 11 patterns x invert x Remove/Isolate, Bert, Digits, Sequence of two) and normalizer (none 70%, NFC, NFD, NFKC, Bert lowercase / no-op, Replace, Sequence); plus a deterministic block with the unit-test configs; non-trivial = (non-ASCII text or >= 2 pieces) and non-empty merge list; distinct by request text";

fn run(args: &Args) {
    let mut out = Out::new(&args.out);
    let mut rng = Rng::new(args.seed);
    let mut cache = Cache::default();

    // ---- B line
    let c2b = match hcommon::catch(char_to_byte) {
        Ok(m) => m,
        Err(m) => {
            out.case("B", "panic", Some(&format!("panic: {m}")), false);
            return out.finish(RULE);
        }
    };
    let mut b2c: [Option<char>; 256] = [None; 256];
    for (&c, &b) in &c2b {
        b2c[b as usize] = Some(c);
    }
    if c2b.len() != 256 || b2c.iter().any(|c| c.is_none()) {
        out.bucket("propfail_byte_to_char");
        out.case("B", "err:not-bijective", Some("byte_to_char not a bijection"), false);
        return out.finish(RULE);
    }
    let b2c: [char; 256] = std::array::from_fn(|b| b2c[b].unwrap());
    {
        let distinct: HashSet<char> = b2c.iter().copied().collect();
        let bad = b2c.iter().find(|c| c.is_control() || c.is_whitespace());
        let fail = if distinct.len() != 256 {
            Some("byte_to_char not a bijection".to_string())
        } else {
            bad.map(|c| format!("byte_to_char has control/whitespace char {}", *c as u32))
        };
        if fail.is_some() {
            out.bucket("propfail_byte_to_char");
        }
        out.case("B", &join(b2c.iter().map(|&c| c as u32), ","), fail.as_deref(), false);
    }
    let mut rank = [0u32; 256];
    {
        let mut r = 0;
        for b in 0..256usize {
            if b2c[b] as u32 == b as u32 {
                rank[b] = r;
                r += 1;
            }
        }
        for b in 0..256usize {
            if b2c[b] as u32 != b as u32 {
                rank[b] = r;
                r += 1;
            }
        }
    }
    let ctx = Ctx { b2c, rank };

    // ---- deterministic block: the configurations of bpe.rs's unit tests and neighbours
    {
        let fixed_texts = [
            "the cat is in the bed",
            "foo bar",
            "",
            "Hello, World!",
            "it's 12 o'clock",
            " é ",
            "a😀b",
            "barbar",
            "--------",
            "---------",
            "foobar",
            " the  the ",
            "e\u{301}",
        ];
        let minimal = |extra: &[&str]| {
            let mut v = mimic_vocab(&ctx, &[], false);
            for e in extra {
                let n = v.len() as u32;
                v.insert(ctx.enc(e), n);
            }
            v
        };
        let dash = pairs(&[("-", "-"), ("--", "--"), ("----", "----"), ("--------", "--------")]);
        let bar = pairs(&[("b", "a"), ("ba", "r"), ("ba", "r</w>")]);
        let bar2 = pairs(&[("b", "a"), ("ba", "r")]);
        let gpt2 = pairs(MINI_GPT2);
        let mut cfgs: Vec<Cfg> = Vec::new();
        for (merges, eow, ignore, explicit_extra, added) in [
            (gpt2.clone(), None, false, None, vec![]),
            (gpt2.clone(), None, false, None, vec![(50256u32, "<|endoftext|>".to_string())]),
            (gpt2.clone(), Some(EOW), false, None, vec![]),
            (dash, None, false, None, vec![]),
            (bar, Some(EOW), false, None, vec![]),
            (bar2, Some(""), false, None, vec![]),
            (vec![], None, true, Some(vec!["foobar", " the"]), vec![]),
            (gpt2.clone(), None, true, Some(vec![]), vec![]),
            (vec![], None, false, None, vec![]),
        ] {
            let eow_on = eow.is_some_and(|s: &str| !s.is_empty());
            let (vocab, pass, kind) = match &explicit_extra {
                None => (mimic_vocab(&ctx, &merges, eow_on), false, Kind::Auto),
                Some(extra) => {
                    let mut v = minimal(extra);
                    for (a, b) in &merges {
                        let n = v.len() as u32 + 1000;
                        v.entry(format!("{a}{b}")).or_insert(n);
                    }
                    (v, true, Kind::Explicit)
                }
            };
            cfgs.push(Cfg {
                kind,
                merges,
                vocab,
                pass_vocab: pass,
                eow: eow.map(|s| s.to_string()),
                ignore,
                added,
            });
        }
        for cfg in &cfgs {
            if !run_t(&mut out, cfg) {
                continue;
            }
            for t in fixed_texts {
                for pre in [Pre::Gpt2, Pre::None] {
                    run_e(&mut out, &mut cache, cfg, t, &pre, Norm::None);
                }
            }
            run_e(&mut out, &mut cache, cfg, "The Cat É", &Pre::Gpt2, Norm::BertLower);
            run_e(&mut out, &mut cache, cfg, "e\u{301} the", &Pre::Gpt2, Norm::Nfc);
        }
    }

    // ---- end-to-end coverage sweep: real Split::gpt2 (= ByteLevel{use_regex:true}) and the
    // ByteLevel{use_regex:false} splitter + real byte-complete Bpe on chars of every general
    // category, singly and in context. Blocks of scalars are summarised in `#sweep` lines (not
    // compared with the model); every failing text is reported as a regular E case.
    {
        let cfg = Cfg {
            kind: Kind::Auto,
            merges: pairs(&[("Ġ", "x"), ("x", "x")]),
            vocab: mimic_vocab(&ctx, &pairs(&[("Ġ", "x"), ("x", "x")]), false),
            pass_vocab: false,
            eow: None,
            ignore: false,
            added: vec![],
        };
        if run_t(&mut out, &cfg) {
            // category representatives (Lu Ll Lt Lm Lo Mn Mc Me Nd Nl No Pc Pd Ps Pe Pi Pf Po Sm Sc Sk So
            // Zs Zl Zp Cc Cf Co Cn) + emoji ZWJ / flags / variation selectors: full E cases
            let reps: &[&str] = &[
                "A", "a", "\u{1C5}", "\u{2B0}", "\u{5D0}", "\u{301}", "\u{903}", "\u{20DD}", "7", "\u{663}",
                "\u{2167}", "\u{3007}", "\u{B2}", "\u{B9}", "\u{BD}", "\u{2460}", "\u{2074}", "\u{2153}",
                "_", "-", "(", ")", "\u{AB}", "\u{BB}", "!", "+", "$", "^", "\u{A9}", " ", "\u{A0}", "\u{3000}",
                "\u{2028}", "\u{2029}", "\u{0}", "\u{85}", "\n", "\r\n", "\t", "\u{AD}", "\u{200D}", "\u{FEFF}",
                "\u{E000}", "\u{378}", "\u{FFFF}", "\u{10FFFF}", "\u{1F468}\u{200D}\u{1F469}\u{200D}\u{1F467}",
                "\u{1F1E9}\u{1F1EA}", "\u{2764}\u{FE0F}", "x\u{B2}", "\u{BD} cup", "a\nb", "a\n\nb", "\n",
                "line1\r\nline2\n", "\u{2167}x 1\u{2460}",
            ];
            for r in reps {
                for ctxt in ["{}", " {}", "x{} x", "1{}", "{}\n"] {
                    let t = ctxt.replace("{}", r);
                    for pre in [Pre::Gpt2, Pre::ByteLevelNoRegex] {
                        run_e(&mut out, &mut cache, &cfg, &t, &pre, Norm::None);
                    }
                }
            }
            // sweep over scalar values (quick: all below U+3000, every 53rd above; thorough: all)
            let mk = |pre: &Pre, cache: &mut Cache| {
                if matches!(pre, Pre::ByteLevelNoRegex) {
                    return json_tokenizer(&cfg);
                }
                let bpe = cfg.build().ok()?;
                let p = cache.pre(pre)?;
                Some(Tokenizer::new(bpe, Default::default()).with_pre_tokenizer(Box::new(SharedPre(p))))
            };
            let toks: Vec<(Pre, Option<Tokenizer>)> = [Pre::Gpt2, Pre::ByteLevelNoRegex]
                .into_iter()
                .map(|p| {
                    let t = mk(&p, &mut cache);
                    (p, t)
                })
                .collect();
            let mut block_start = 0u32;
            let mut in_block = 0u32;
            let mut block_fail: Option<String> = None;
            let mut failing_texts: Vec<(String, Pre)> = Vec::new();
            let mut cp = 0u32;
            while cp <= 0x10FFFF {
                let step = if args.thorough || cp < 0x3000 { 1 } else { 53 };
                if let Some(ch) = char::from_u32(cp) {
                    for ctxt in ["{}", " x{}", "{}x ", "1{}"] {
                        let t = ctxt.replace("{}", &ch.to_string());
                        for (pre, tk) in &toks {
                            let Some(tk) = tk else { continue };
                            let ok = hcommon::catch(|| {
                                let enc = tk.encode(t.as_str(), None).ok()?;
                                let dec = tk.decode(enc.token_ids()).ok()?;
                                let mut cat = String::new();
                                for i in 0..enc.token_ids().len() {
                                    cat.push_str(enc.text_for_token_range(i..i + 1)?);
                                }
                                Some(dec == t && (cat == t || enc.token_ids().is_empty()))
                            });
                            if !matches!(ok, Ok(Some(true))) {
                                if block_fail.is_none() {
                                    block_fail = Some(format!(
                                        "sweep: {} end-to-end round trip / slice concatenation fails for {:?}",
                                        pre.kind(),
                                        t
                                    ));
                                }
                                if failing_texts.len() < 40 {
                                    failing_texts.push((t.clone(), pre.clone()));
                                }
                            }
                        }
                    }
                    in_block += 1;
                }
                cp += step;
                if in_block >= 4096 || cp > 0x10FFFF {
                    let req = format!("#sweep U+{:04X}..U+{:04X} {} scalars x 4 contexts x 2 pre-tokenizers", block_start, cp.saturating_sub(1).min(0x10FFFF), in_block);
                    out.bucket("sweep_block");
                    out.case(&req, "swept", block_fail.as_deref(), in_block > 0);
                    block_start = cp;
                    in_block = 0;
                    block_fail = None;
                }
            }
            // every (capped) failing text again as a full E case: concrete replay + model comparison
            for (t, pre) in &failing_texts {
                run_e(&mut out, &mut cache, &cfg, t, pre, Norm::None);
            }
        }
    }

    // ---- S lines: `Split::pre_tokenize` (invert x Remove/Isolate) against the Lean model of its
    // loop, which works on the regex match list (`find_iter` on the same text and pattern).
    {
        let n_s = if args.thorough { 40_000 } else { 3_000 };
        let mut pats: Vec<&str> = SPLIT_PATTERNS.to_vec();
        pats.push(pt::GPT2_REGEX);
        pats.push(r"[^\x00-\x7f]");
        pats.push(r"\b");
        for k in 0..n_s {
            let text = if k < 40 {
                ["", "a", " ", "a b", "a  b ", " a", "x²", "²", "\n", "a\nb", "1a2", "éé", "😀 😀", "aaa", "xx x"][k % 15].to_string()
            } else {
                gen_text(&mut rng, 12)
            };
            let pattern = pats[rng.usize_below(pats.len())];
            let Ok(re) = FancyRegex::new(pattern) else { continue };
            let mut ms: Vec<(usize, usize)> = Vec::new();
            let mut regex_err = false;
            for m in re.find_iter(&text) {
                match m {
                    Ok(m) => ms.push((m.start(), m.end())),
                    Err(_) => regex_err = true,
                }
            }
            if regex_err {
                out.bucket("S_dropped_regex_err");
                continue;
            }
            for (invert, isolate) in [(true, false), (true, true), (false, false), (false, true)] {
                let sp = Split::new(SplitOptions {
                    pattern,
                    invert,
                    delimiter: if isolate { SplitDelimiterBehavior::Isolate } else { SplitDelimiterBehavior::Remove },
                });
                let Ok(sp) = sp else { continue };
                let res = hcommon::catch(|| {
                    sp.pre_tokenize(&text).map(|v| {
                        v.iter()
                            .map(|c| {
                                let st = c.as_ptr() as usize - text.as_ptr() as usize;
                                (st, st + c.len())
                            })
                            .collect::<Vec<_>>()
                    })
                });
                let req = format!(
                    "S;{};{};{};{}",
                    invert as u8,
                    isolate as u8,
                    text.len(),
                    join(ms.iter().map(|(a, b)| format!("{a}-{b}")), ",")
                );
                let (ans, fail) = match &res {
                    Err(m) => ("panic".to_string(), Some(format!("panic: pre_tokenize: {m}"))),
                    Ok(Err(_)) => ("err:regex".to_string(), None),
                    Ok(Ok(chunks)) => {
                        // oracle: chunks in order, non-empty, non-overlapping, in bounds, on char
                        // boundaries; Isolate partitions the text
                        let mut fail = None;
                        let mut cur = 0usize;
                        let mut tiles = true;
                        for &(a, b) in chunks {
                            if a >= b || a < cur || b > text.len() || !text.is_char_boundary(a) || !text.is_char_boundary(b) {
                                fail = Some(format!("split: chunk {a}-{b} empty, out of order, out of bounds or off a char boundary (text {:?}, pattern {:?})", text, pattern));
                                break;
                            }
                            tiles &= a == cur;
                            cur = b;
                        }
                        tiles &= cur == text.len();
                        if fail.is_none() && isolate && !tiles {
                            fail = Some(format!("split: Isolate chunks do not partition the text {:?} (pattern {:?})", text, pattern));
                        }
                        out.bucket(if tiles { "S_partition" } else { "S_lossy" });
                        (join(chunks.iter().map(|(a, b)| format!("{a}-{b}")), ","), fail)
                    }
                };
                out.bucket(&format!("S_inv{}_iso{}", invert as u8, isolate as u8));
                if let Some(m) = &fail {
                    out.bucket(&format!("propfail_{}", first_word(m)));
                }
                out.case(&req, &ans, fail.as_deref(), !text.is_ascii() || ms.len() > 1);
            }
        }
    }

    // ---- D lines: decode of arbitrary id sequences (all 256 byte tokens singly, UTF-8 sequences
    // split across tokens, truncated / invalid sequences, unknown ids) on a byte-complete tokenizer
    {
        let cfg = Cfg {
            kind: Kind::Auto,
            merges: vec![],
            vocab: mimic_vocab(&ctx, &[], false),
            pass_vocab: false,
            eow: None,
            ignore: false,
            added: vec![(300, "<|endoftext|>".to_string())],
        };
        if run_t(&mut out, &cfg) {
            if let Ok(bpe) = cfg.build() {
                let tk = Tokenizer::new(bpe, Default::default());
                let id_of = |b: u8| ctx.rank[b as usize];
                let mut seqs: Vec<Vec<u32>> = (0..=255u8).map(|b| vec![id_of(b)]).collect();
                for s in ["é", "中", "😀", "a😀b", "e\u{301}", "\u{10FFFF}", "\u{7FF}\u{800}"] {
                    let bytes = s.as_bytes();
                    for k in 0..=bytes.len() {
                        seqs.push(bytes[..k].iter().map(|&b| id_of(b)).collect());
                        seqs.push(bytes[k..].iter().map(|&b| id_of(b)).collect());
                    }
                }
                // overlong / surrogate / out-of-range / stray continuation encodings
                for bs in [
                    &[0xC0u8, 0x80][..], &[0xC1, 0xBF], &[0xE0, 0x80, 0x80], &[0xE0, 0x9F, 0xBF], &[0xED, 0xA0, 0x80],
                    &[0xED, 0x9F, 0xBF], &[0xF0, 0x80, 0x80, 0x80], &[0xF0, 0x8F, 0xBF, 0xBF], &[0xF4, 0x90, 0x80, 0x80],
                    &[0xF4, 0x8F, 0xBF, 0xBF], &[0xF5, 0x80, 0x80, 0x80], &[0x80], &[0xBF, 0x41], &[0x41, 0xC3],
                    &[0xE2, 0x82], &[0xFF], &[0xFE],
                ] {
                    seqs.push(bs.iter().map(|&b| id_of(b)).collect());
                }
                seqs.push(vec![300]);
                seqs.push(vec![id_of(b'a'), 300, id_of(b'b')]);
                seqs.push(vec![256]);
                seqs.push(vec![id_of(b'a'), 99_999]);
                seqs.push(vec![]);
                let n_rand = if args.thorough { 20_000 } else { 2_000 };
                for _ in 0..n_rand {
                    let n = 1 + rng.usize_below(6);
                    seqs.push((0..n).map(|_| if rng.chance(1, 40) { 256 + rng.below(60) as u32 } else { id_of(rng.below(256) as u8) }).collect());
                }
                for ids in &seqs {
                    let res = hcommon::catch(|| tk.decode(ids));
                    let (ans, fail) = match &res {
                        Err(m) => ("d=panic".to_string(), Some(format!("panic: decode: {m}"))),
                        Ok(Ok(s)) => (format!("d=ok:{}", bytes_dot(s.as_bytes())), None),
                        Ok(Err(TokenizerError::DecodeError(DecodeError::InvalidTokenId(_)))) => ("d=err:id".to_string(), None),
                        Ok(Err(TokenizerError::DecodeError(DecodeError::InvalidUtf8))) => ("d=err:utf8".to_string(), None),
                        Ok(Err(_)) => ("d=err:other".to_string(), None),
                    };
                    out.bucket(&format!("D_{}", ans.split(':').next().unwrap_or("").trim_start_matches("d=")));
                    out.case(&format!("D;{}", join(ids.iter(), ",")), &ans, fail.as_deref(), ids.len() > 1);
                }
            }
        }
    }

    // ---- random block
    let (n_cfg, max_chars) = if args.thorough { (60_000, 48) } else { (4_000, 24) };
    for _ in 0..n_cfg {
        let n_texts = 3 + rng.usize_below(6);
        let texts: Vec<String> = (0..n_texts).map(|_| gen_text(&mut rng, max_chars)).collect();
        let cfg = gen_config(&mut rng, &ctx, &texts, args.thorough, &mut out);
        // all random choices for this config are made before anything is run
        let cases: Vec<(Pre, Norm)> = texts.iter().map(|t| (gen_pre(&mut rng, t), gen_norm(&mut rng))).collect();
        if !run_t(&mut out, &cfg) {
            continue;
        }
        for (t, (pre, norm)) in texts.iter().zip(&cases) {
            run_e(&mut out, &mut cache, &cfg, t, pre, *norm);
        }
    }
    out.finish(RULE);
}
