//! C28: BPE merging on the real `rten_text::models::Bpe` vs the Lean model and vs a naive
//! string-level reference BPE written here (independent oracle).
//!
//! Request lines (see lean/RtenVerif/Driver/C28.lean):
//!   `bpe V=<auto|tok:id,..> A=<alphabet> E=<suffix|-> M=<a+b,..|-> P=<piece,..>` → `ids=..;..` | `err:merge` | `err:vocab`
//!   `mrg M=<first.second.rank.merged,..|-> T=<id,..|->` → `ids=..`   (private `bpe_merge` through the verif hook)
//! `%` denotes the empty string.
//!
//! Oracle (PROPFAIL) for `bpe`: when the tokenizer builds and the vocabulary is injective, the ids
//! must equal `vocab(reference_bpe(piece))` where the reference repeatedly merges the lowest-ranked
//! adjacent pair, all non-overlapping occurrences left to right. A duplicated merge entry is ranked
//! by its last occurrence (what GPT-2's `dict(zip(merges, range(n)))` and HF tokenizers do, and what
//! theorem `c28_T3_refinement_lastwins` states); how often the first-occurrence reading would differ
//! is counted in the `dup_first_rank_differs` bucket (the point excluded by `c28_T3_refinement`).
//! Oracle for `mrg`: a naive id-level re-implementation (new vector per round) and the fixpoint test.
use hcommon::{Args, Out, Rng};
use rten_text::models::{char_to_byte, Bpe, BpeError, BpeOptions, Model};
use std::borrow::Cow;
use std::collections::HashMap;


fn show_tok(s: &str) -> String {
    if s.is_empty() { "%".to_string() } else { s.to_string() }
}

#[derive(Clone)]
struct Spec {
    /// Listed vocabulary entries (None = let `Bpe::new` build the vocabulary from the merges).
    vocab: Option<Vec<(String, u32)>>,
    /// Single-byte tokens the harness does *not* add by itself to a supplied vocabulary.
    alpha: String,
    eow: Option<String>,
    merges: Vec<(String, String)>,
    pieces: Vec<String>,
    /// `BpeOptions::ignore_merges`
    ignore: bool,
}

/// `byte_to_char` as the harness understands the GPT-2 table (printable bytes map to themselves,
/// the 68 others to U+0100 + k) - written down independently of the crate and of the Lean table.
fn is_printable_byte(b: u8) -> bool {
    (33..=126).contains(&b) || (161..=172).contains(&b) || b >= 174
}

fn byte_chars() -> Vec<char> {
    let mut k = 0;
    (0..=255u8)
        .map(|b| {
            if is_printable_byte(b) {
                char::from(b)
            } else {
                k += 1;
                char::from_u32(255 + k).unwrap()
            }
        })
        .collect()
}

fn byte_ranks() -> Vec<u32> {
    let np = (0..=255u8).filter(|&b| is_printable_byte(b)).count() as u32;
    (0..=255u8)
        .map(|b| {
            let below = (0..b).filter(|&x| is_printable_byte(x) == is_printable_byte(b)).count() as u32;
            if is_printable_byte(b) { below } else { np + below }
        })
        .collect()
}

impl Spec {
    /// An empty end-of-word suffix is documented to mean "no suffix" (`Bpe::new` normalises it).
    fn eff_eow(&self) -> Option<&String> {
        self.eow.as_ref().filter(|e| !e.is_empty())
    }

    fn request(&self) -> String {
        let v = match &self.vocab {
            None => "auto".to_string(),
            Some(l) if l.is_empty() => "-".to_string(),
            Some(l) => hcommon::join(l.iter().map(|(t, i)| format!("{}:{}", show_tok(t), i)), ","),
        };
        let m = if self.merges.is_empty() {
            "-".to_string()
        } else {
            hcommon::join(self.merges.iter().map(|(a, b)| format!("{}+{}", show_tok(a), show_tok(b))), ",")
        };
        let single_empty = self.pieces.len() == 1 && self.pieces[0].is_empty();
        // plain pieces when they are letters only, hex bytes otherwise
        let plain = self.pieces.iter().all(|p| p.bytes().all(|b| b.is_ascii_alphanumeric()));
        let p = if single_empty {
            "P=".to_string()
        } else if plain {
            format!("P={}", hcommon::join(self.pieces.iter().map(|p| show_tok(p)), ","))
        } else {
            let hex = |p: &String| {
                if p.is_empty() { "%".to_string() } else { p.bytes().map(|b| format!("{b:02x}")).collect::<String>() }
            };
            format!("X={}", hcommon::join(self.pieces.iter().map(hex), ","))
        };
        format!(
            "bpe V={} A={} E={} M={} I={} {}",
            v,
            if self.alpha.is_empty() { "-" } else { self.alpha.as_str() },
            self.eow.as_ref().map_or("-".to_string(), |e| show_tok(e)),
            m,
            self.ignore as u8,
            p
        )
    }
}

/// Naive string-level reference BPE. `last` selects the rank of duplicated entries.
fn ref_bpe(merges: &[(String, String)], last: bool, mut pieces: Vec<String>) -> Vec<String> {
    let rank = |a: &str, b: &str| -> Option<usize> {
        let mut it = merges.iter().enumerate().filter(|(_, (x, y))| x == a && y == b).map(|(i, _)| i);
        if last { it.last() } else { it.next() }
    };
    loop {
        let mut best: Option<(usize, usize)> = None; // (rank, position)
        for i in 0..pieces.len().saturating_sub(1) {
            if let Some(r) = rank(&pieces[i], &pieces[i + 1]) {
                if best.map_or(true, |(br, _)| r < br) {
                    best = Some((r, i));
                }
            }
        }
        let Some((_, pos)) = best else { break };
        let (a, b) = (pieces[pos].clone(), pieces[pos + 1].clone());
        let mut next = Vec::with_capacity(pieces.len());
        let mut i = 0;
        while i < pieces.len() {
            if i + 1 < pieces.len() && pieces[i] == a && pieces[i + 1] == b {
                next.push(format!("{a}{b}"));
                i += 2;
            } else {
                next.push(pieces[i].clone());
                i += 1;
            }
        }
        assert!(next.len() < pieces.len());
        pieces = next;
    }
    pieces
}

/// The harness's own idea of the vocabulary (string → id), independent of the Lean model.
fn oracle_vocab(spec: &Spec) -> HashMap<String, u32> {
    let mut v = HashMap::new();
    match &spec.vocab {
        Some(listed) => {
            for (t, i) in listed {
                v.insert(t.clone(), *i);
            }
        }
        None => {
            // documented layout: bytes 0..256 by "printable first" rank, then byte+suffix, then merges
            for (ch, rank) in byte_chars().into_iter().zip(byte_ranks()) {
                v.insert(ch.to_string(), rank);
                if let Some(sfx) = spec.eff_eow() {
                    v.insert(format!("{ch}{sfx}"), 256 + rank);
                }
            }
            let start = if spec.eff_eow().is_some() { 512 } else { 256 };
            for (i, (a, b)) in spec.merges.iter().enumerate() {
                v.insert(format!("{a}{b}"), start + i as u32);
            }
        }
    }
    v
}

fn run_impl(spec: &Spec) -> Result<Result<Vec<Vec<u32>>, String>, String> {
    hcommon::catch(|| {
        let merges: Vec<(Cow<str>, Cow<str>)> =
            spec.merges.iter().map(|(a, b)| (Cow::from(a.as_str()), Cow::from(b.as_str()))).collect();
        let vocab = spec.vocab.as_ref().map(|listed| {
            let mut all: Vec<(String, u32)> = listed.clone();
            for ch in char_to_byte().keys() {
                if !spec.alpha.contains(*ch) && !listed.iter().any(|(t, _)| *t == ch.to_string()) {
                    all.push((ch.to_string(), 100_000 + *ch as u32));
                }
            }
            all.into_iter().collect()
        });
        let opts = BpeOptions {
            merges: &merges,
            vocab,
            added_tokens: Default::default(),
            end_of_word_suffix: spec.eow.clone(),
            ignore_merges: spec.ignore,
        };
        let bpe = match Bpe::new(opts) {
            Ok(b) => b,
            Err(BpeError::InvalidMergeEntry(_)) => return Err("err:merge".to_string()),
            Err(BpeError::MissingVocabEntry(_)) => return Err("err:vocab".to_string()),
            Err(BpeError::InvalidVocabEntry(_)) => return Err("err:vocabentry".to_string()),
        };
        let mut outs = Vec::new();
        for p in &spec.pieces {
            let mut ids = Vec::new();
            match bpe.encode_with_offsets(p, &mut |_off, id| ids.push(id)) {
                Ok(()) => outs.push(ids),
                Err(_) => return Err("err:encode".to_string()),
            }
        }
        Ok(outs)
    })
}

fn one_bpe(out: &mut Out, spec: &Spec, tag: &str) {
    let req = spec.request();
    let res = run_impl(spec);
    let mut fail: Option<String> = None;
    let mut nontrivial = false;
    let ans = match &res {
        Err(m) => format!("panic {m}"),
        Ok(Err(e)) => e.clone(),
        Ok(Ok(outs)) => {
            // independent oracle
            let v = oracle_vocab(spec);
            let mut by_id: HashMap<u32, &String> = HashMap::new();
            let mut injective = true;
            for (t, i) in &v {
                if let Some(prev) = by_id.insert(*i, t) {
                    if prev != t {
                        injective = false;
                    }
                }
            }
            let has_dup = (0..spec.merges.len()).any(|i| spec.merges[..i].contains(&spec.merges[i]));
            out.bucket(if injective { "vocab_injective" } else { "vocab_NOT_injective(oracle n/a)" });
            if has_dup {
                out.bucket("merge_list_with_duplicates");
            }
            let mut dup_differs = false;
            for (p, ids) in spec.pieces.iter().zip(outs) {
                let table = byte_chars();
                let mut init: Vec<String> = p.bytes().map(|b| table[b as usize].to_string()).collect();
                if p.is_empty() {
                    if !ids.is_empty() && fail.is_none() {
                        fail = Some("empty piece produced tokens".into());
                    }
                    continue;
                }
                if spec.ignore {
                    // `ignore_merges`: a piece that is itself a vocabulary entry is that single token
                    let whole: String = init.concat();
                    if let Some(&id) = v.get(&whole) {
                        out.bucket("ignore_merges_whole_piece_hit");
                        if ids != &vec![id] && fail.is_none() {
                            fail = Some(format!("ignore_merges: piece {} is vocabulary entry {id} but encodes to {:?}", show_tok(p), ids));
                        }
                        continue;
                    }
                }
                if let (Some(sfx), Some(l)) = (spec.eff_eow(), init.last_mut()) {
                    l.push_str(sfx);
                }
                if ids.len() < init.len() {
                    nontrivial = true;
                }
                if !injective {
                    continue;
                }
                let r_last = ref_bpe(&spec.merges, true, init.clone());
                let expect: Option<Vec<u32>> = r_last.iter().map(|t| v.get(t).copied()).collect();
                match expect {
                    Some(e) if &e == ids => {}
                    Some(e) => {
                        if fail.is_none() {
                            fail = Some(format!(
                                "piece {} encodes to {:?} but reference BPE gives {:?} = ids {:?}",
                                show_tok(p), ids, r_last, e
                            ));
                        }
                    }
                    None if spec.vocab.is_some() && spec.eff_eow().is_some() => {
                        out.bucket("eow_token_missing_from_supplied_vocab(oracle n/a)");
                    }
                    None => {
                        if fail.is_none() {
                            fail = Some(format!("reference pieces {:?} for {} not all in the vocabulary", r_last, show_tok(p)));
                        }
                    }
                }
                if has_dup && ref_bpe(&spec.merges, false, init) != r_last {
                    dup_differs = true;
                }
            }
            if dup_differs {
                out.bucket("dup_first_rank_differs");
            }
            format!("ids={}", hcommon::join(outs.iter().map(|ids| hcommon::join(ids.iter(), ",")), ";"))
        }
    };
    out.bucket(tag);
    out.bucket(if ans.starts_with("ids=") { "built_ok" } else if ans.starts_with("err:") { "build_error" } else { "panic" });
    out.case(&req, &ans, fail.as_deref(), nontrivial);
}

// ---------------------------------------------------------------- id-level `bpe_merge`

fn naive_id_merge(map: &[((u32, u32), (u32, u32))], mut t: Vec<u32>) -> Vec<u32> {
    let get = |a: u32, b: u32| map.iter().find(|(k, _)| *k == (a, b)).map(|(_, v)| *v);
    loop {
        let mut best: Option<(u32, usize, u32)> = None;
        for i in 0..t.len().saturating_sub(1) {
            if let Some((r, m)) = get(t[i], t[i + 1]) {
                if best.map_or(true, |(br, _, _)| r < br) {
                    best = Some((r, i, m));
                }
            }
        }
        let Some((_, pos, m)) = best else { break };
        let (a, b) = (t[pos], t[pos + 1]);
        let mut next = Vec::new();
        let mut i = 0;
        while i < t.len() {
            if i + 1 < t.len() && t[i] == a && t[i + 1] == b {
                next.push(m);
                i += 2;
            } else {
                next.push(t[i]);
                i += 1;
            }
        }
        t = next;
    }
    t
}

fn one_mrg(out: &mut Out, map: &[((u32, u32), (u32, u32))], toks: &[u32]) {
    let m = if map.is_empty() {
        "-".to_string()
    } else {
        hcommon::join(map.iter().map(|((f, s), (r, id))| format!("{f}.{s}.{r}.{id}")), ",")
    };
    let t = if toks.is_empty() { "-".to_string() } else { hcommon::join(toks.iter(), ",") };
    let req = format!("mrg M={m} T={t}");
    let res = hcommon::catch(|| {
        let mut v = toks.to_vec();
        let n = rten_text::verif::bpe_merge(&mut v, map);
        (n, v)
    });
    let mut fail = None;
    let mut nontrivial = false;
    let ans = match res {
        Err(m) => format!("panic {m}"),
        Ok((n, v)) => {
            if n != v.len() {
                fail = Some("returned count differs from the vector length".to_string());
            }
            let expect = naive_id_merge(map, toks.to_vec());
            if expect != v {
                fail = Some(format!("bpe_merge gives {:?}, naive reference {:?}", v, expect));
            }
            if v.windows(2).any(|w| map.iter().any(|(k, _)| *k == (w[0], w[1]))) {
                fail = Some(format!("result {:?} still contains a mergeable pair", v));
            }
            nontrivial = v.len() < toks.len();
            format!("ids={}", hcommon::join(v.iter(), ","))
        }
    };
    out.bucket("mrg");
    out.case(&req, &ans, fail.as_deref(), nontrivial);
}

// ---------------------------------------------------------------- generators

fn all_strings(alpha: &[char], len: usize) -> Vec<String> {
    let mut v = vec![String::new()];
    for _ in 0..len {
        let mut n = Vec::with_capacity(v.len() * alpha.len());
        for s in &v {
            for c in alpha {
                let mut t = s.clone();
                t.push(*c);
                n.push(t);
            }
        }
        v = n;
    }
    v
}

/// Every merge table of exactly `depth` entries whose operands are letters or earlier results.
fn tables(alpha: &[char], depth: usize, cur: &mut Vec<(String, String)>, f: &mut dyn FnMut(&[(String, String)])) {
    if cur.len() == depth {
        f(cur);
        return;
    }
    let mut avail: Vec<String> = alpha.iter().map(|c| c.to_string()).collect();
    for (a, b) in cur.iter() {
        let m = format!("{a}{b}");
        if !avail.contains(&m) {
            avail.push(m);
        }
    }
    for a in &avail {
        for b in &avail {
            cur.push((a.clone(), b.clone()));
            tables(alpha, depth, cur, f);
            cur.pop();
        }
    }
}

/// All distinct orderings of a table (`Bpe::new` accepts any order: an entry may use a token that
/// only a *later* entry produces - such tables are not "training ordered").
fn permutations(t: &[(String, String)]) -> Vec<Vec<(String, String)>> {
    fn go(rest: &mut Vec<(String, String)>, cur: &mut Vec<(String, String)>, out: &mut Vec<Vec<(String, String)>>) {
        if rest.is_empty() {
            if !out.contains(cur) {
                out.push(cur.clone());
            }
            return;
        }
        for i in 0..rest.len() {
            let e = rest.remove(i);
            cur.push(e.clone());
            go(rest, cur, out);
            cur.pop();
            rest.insert(i, e);
        }
    }
    let mut out = Vec::new();
    go(&mut t.to_vec(), &mut Vec::new(), &mut out);
    out
}

fn exhaustive(out: &mut Out, alpha: &[char], max_depth: usize, max_len: usize, tag: &str) {
    let groups: Vec<Vec<String>> = (0..=max_len).map(|l| all_strings(alpha, l)).collect();
    let ptag = format!("{tag}_reordered");
    let astr: String = alpha.iter().collect();
    for depth in 0..=max_depth {
        let mut cur = Vec::new();
        tables(alpha, depth, &mut cur, &mut |t| {
            for (pi, perm) in permutations(t).into_iter().enumerate() {
                for g in &groups {
                    let spec = Spec { vocab: None, alpha: astr.clone(), eow: None, merges: perm.clone(), pieces: g.clone(), ignore: false };
                    one_bpe(out, &spec, if pi == 0 { tag } else { &ptag });
                }
            }
        });
    }
}

fn random_piece(rng: &mut Rng, alpha: &[char], toks: &[String]) -> String {
    let mut s = String::new();
    let target = rng.usize_below(25);
    while s.chars().count() < target {
        match rng.below(4) {
            0 => {
                // a run of one symbol (overlapping pairs compete)
                let c = *rng.pick(alpha);
                for _ in 0..1 + rng.usize_below(5) {
                    s.push(c);
                }
            }
            1 | 2 if !toks.is_empty() => s.push_str(rng.pick(toks).as_str()),
            _ => s.push(*rng.pick(alpha)),
        }
    }
    s.chars().take(24).collect()
}

fn random_bpe(out: &mut Out, rng: &mut Rng) {
    let letters = ['a', 'b', 'c', 'd', 'e', 'f'];
    let na = 2 + rng.usize_below(5);
    let alpha: Vec<char> = letters[..na].to_vec();
    // `Some("")` must behave exactly like `None`
    let eow = if rng.chance(1, 5) { Some("</w>".to_string()) } else if rng.chance(1, 12) { Some(String::new()) } else { None };
    let mut avail: Vec<String> = alpha.iter().map(|c| c.to_string()).collect();
    if let Some(s) = eow.as_ref().filter(|e| !e.is_empty()) {
        for c in &alpha {
            avail.push(format!("{c}{s}"));
        }
    }
    let mut merges: Vec<(String, String)> = Vec::new();
    let nm = rng.usize_below(13);
    let mut tag = "random";
    // empty-string operands are not tokens over the alphabet; they are generated (without the
    // end-of-word suffix, whose `last + 256` shortcut they break by re-numbering a byte token)
    // only to exercise termination and the vocabulary override order
    if eow.is_none() && rng.chance(1, 50) {
        merges.push((String::new(), String::new()));
        avail.push(String::new());
        tag = "random_empty_token";
    }
    for _ in 0..nm {
        if !merges.is_empty() && rng.chance(1, 10) {
            let e = rng.pick(&merges).clone();
            merges.push(e);
            continue;
        }
        if rng.chance(1, 40) {
            merges.push(("zz".into(), rng.pick(&avail).clone()));
            continue;
        }
        let a = rng.pick(&avail).clone();
        let b = rng.pick(&avail).clone();
        // a token carrying the end-of-word suffix can only be the right operand
        let has_sfx = |t: &String| eow.as_ref().map_or(false, |s| !s.is_empty() && t.ends_with(s.as_str()));
        let (a, b) = if has_sfx(&a) { (b, a) } else { (a, b) };
        if has_sfx(&a) {
            continue;
        }
        let m = format!("{a}{b}");
        merges.push((a, b));
        if !avail.contains(&m) {
            avail.push(m);
        }
    }
    if rng.chance(1, 3) {
        // any order is accepted by `Bpe::new`; a pair may be ranked before the merge producing its operand
        rng.shuffle(&mut merges);
    }
    let plain: Vec<String> = avail.iter().filter(|t| !t.contains('<')).cloned().collect();
    let np = 1 + rng.usize_below(6);
    let pieces: Vec<String> = (0..np).map(|_| random_piece(rng, &alpha, &plain)).collect();
    // supplied vocabulary; with an end-of-word suffix it lists the `{letter}{suffix}` tokens under
    // ids unrelated to `id(letter) + 256` (sometimes it omits them: fallback path, oracle n/a)
    let vocab = if rng.chance(3, 10) {
        let mut keys: Vec<String> = alpha.iter().map(|c| c.to_string()).collect();
        if let Some(sfx) = eow.as_ref().filter(|e| !e.is_empty()) {
            if !rng.chance(1, 10) {
                for c in &alpha {
                    keys.push(format!("{c}{sfx}"));
                }
            }
        }
        for (a, b) in &merges {
            let m = format!("{a}{b}");
            if !keys.contains(&m) {
                keys.push(m);
            }
            for t in [a, b] {
                if !keys.contains(t) && t != "zz" {
                    keys.push(t.clone());
                }
            }
        }
        let mut ids: Vec<u32> = (0..keys.len() as u32 * 2).collect();
        rng.shuffle(&mut ids);
        let mut listed: Vec<(String, u32)> = keys.into_iter().zip(ids).collect();
        tag = if eow.as_ref().map_or(false, |e| !e.is_empty()) { "random_supplied_vocab_eow" } else { "random_supplied_vocab" };
        if rng.chance(1, 8) && listed.len() > 1 {
            let i = rng.usize_below(listed.len());
            let j = rng.usize_below(listed.len());
            listed[i].1 = listed[j].1;
            tag = "random_supplied_vocab_collision";
        }
        if rng.chance(1, 12) {
            let i = rng.usize_below(listed.len());
            listed.remove(i);
            tag = "random_supplied_vocab_missing";
        }
        Some(listed)
    } else {
        None
    };
    let ignore = rng.chance(1, 8);
    if eow.as_ref().map_or(false, |e| e.is_empty()) {
        out.bucket("empty_eow_suffix");
    }
    let spec = Spec { vocab, alpha: alpha.iter().collect(), eow, merges, pieces, ignore };
    one_bpe(out, &spec, tag);
}

/// Byte-level family: pieces made of atoms with spaces, control characters and multi-byte UTF-8,
/// merges over the GPT-2 "encoded byte" characters (e.g. `Ġ` for a space).
fn random_bytes_bpe(out: &mut Out, rng: &mut Rng) {
    let atoms = ["a", "b", " ", "\n", "é", "ß", "€", "\t", "\u{7f}", "ÿ", "\u{a0}"];
    let table = byte_chars();
    let na = 2 + rng.usize_below(4);
    let mut chosen: Vec<&str> = Vec::new();
    while chosen.len() < na {
        let a = *rng.pick(&atoms);
        if !chosen.contains(&a) {
            chosen.push(a);
        }
    }
    let mut base: Vec<String> = Vec::new();
    for a in &chosen {
        for b in a.bytes() {
            let t = table[b as usize].to_string();
            if !base.contains(&t) {
                base.push(t);
            }
        }
    }
    let eow = if rng.chance(1, 6) { Some("</w>".to_string()) } else { None };
    let mut avail = base.clone();
    let mut merges: Vec<(String, String)> = Vec::new();
    for _ in 0..rng.usize_below(10) {
        let a = rng.pick(&avail).clone();
        let mut b = rng.pick(&avail).clone();
        if a.contains('<') {
            continue;
        }
        if eow.is_some() && !b.contains('<') && rng.chance(1, 4) {
            b.push_str("</w>");
        }
        let m = format!("{a}{b}");
        merges.push((a, b));
        if !avail.contains(&m) {
            avail.push(m);
        }
    }
    if rng.chance(1, 3) {
        rng.shuffle(&mut merges);
    }
    let pieces: Vec<String> = (0..1 + rng.usize_below(4))
        .map(|_| (0..rng.usize_below(11)).map(|_| *rng.pick(&chosen)).collect::<String>())
        .collect();
    let mut tag = "random_bytes";
    let vocab = if rng.chance(1, 4) {
        let mut keys = base.clone();
        if let Some(sfx) = &eow {
            for t in &base {
                keys.push(format!("{t}{sfx}"));
            }
        }
        for (a, b) in &merges {
            for t in [a.clone(), b.clone(), format!("{a}{b}")] {
                if !keys.contains(&t) {
                    keys.push(t);
                }
            }
        }
        let mut ids: Vec<u32> = (0..keys.len() as u32 * 2).collect();
        rng.shuffle(&mut ids);
        tag = "random_bytes_supplied_vocab";
        Some(keys.into_iter().zip(ids).collect())
    } else {
        None
    };
    let spec = Spec { vocab, alpha: base.concat(), eow, merges, pieces, ignore: rng.chance(1, 8) };
    one_bpe(out, &spec, tag);
}

/// `tbl`: the crate's `char_to_byte()` inverted; `rank`: the single-byte token of each id 0..256 in a
/// tokenizer whose vocabulary `build_vocab` generates. Both are compared with the generated Lean
/// table (translator) and checked here against the harness's own reading of the GPT-2 table.
fn table_requests(out: &mut Out) {
    let res = hcommon::catch(|| {
        let c2b = char_to_byte();
        let mut cps = vec![0u32; 256];
        for (ch, b) in &c2b {
            cps[*b as usize] = *ch as u32;
        }
        (c2b.len(), cps)
    });
    let (ans, fail) = match res {
        Err(m) => (format!("panic {m}"), None),
        Ok((n, cps)) => {
            let want: Vec<u32> = byte_chars().iter().map(|c| *c as u32).collect();
            let mut distinct = cps.clone();
            distinct.sort();
            distinct.dedup();
            let fail = if n != 256 || distinct.len() != 256 {
                Some("byte_to_char is not a bijection onto 256 characters".to_string())
            } else if cps != want {
                Some("byte_to_char differs from the GPT-2 table".to_string())
            } else {
                None
            };
            (format!("cps={}", hcommon::join(cps.iter(), ",")), fail)
        }
    };
    out.bucket("byte_table");
    out.case("tbl", &ans, fail.as_deref(), true);

    let res = hcommon::catch(|| {
        let bpe = Bpe::new(BpeOptions { merges: &[], ..Default::default() }).ok()?;
        (0..256u32)
            .map(|id| bpe.get_token_str(id).and_then(|s| {
                let mut it = s.chars();
                let c = it.next()?;
                if it.next().is_some() { None } else { Some(c as u32) }
            }))
            .collect::<Option<Vec<u32>>>()
    });
    let (ans, fail) = match res {
        Err(m) => (format!("panic {m}"), None),
        Ok(None) => ("err".to_string(), Some("single-byte token ids 0..256 not all present".to_string())),
        Ok(Some(cps)) => {
            let table = byte_chars();
            let ranks = byte_ranks();
            let ok = (0..256).all(|b| cps[ranks[b] as usize] == table[b] as u32);
            (format!("cps={}", hcommon::join(cps.iter(), ",")), if ok { None } else { Some("byte token ids differ from the printable-first numbering".to_string()) })
        }
    };
    out.bucket("byte_table");
    out.case("rank", &ans, fail.as_deref(), true);
}

fn random_mrg(out: &mut Out, rng: &mut Rng) {
    let nid = 2 + rng.below(4) as u32;
    let ne = rng.usize_below(7);
    let mut map: Vec<((u32, u32), (u32, u32))> = Vec::new();
    for _ in 0..ne {
        let k = (rng.below(nid as u64 + 2) as u32, rng.below(nid as u64 + 2) as u32);
        if map.iter().any(|(kk, _)| *kk == k) {
            continue;
        }
        map.push((k, (rng.below(4) as u32, rng.below(nid as u64 + 3) as u32)));
    }
    let n = rng.usize_below(15);
    let toks: Vec<u32> = (0..n).map(|_| rng.below(nid as u64) as u32).collect();
    one_mrg(out, &map, &toks);
}

fn main() {
    let args = hcommon::parse_args();
    hcommon::quiet_panics();
    run(&args)
}

fn run(args: &Args) {
    let mut out = Out::new(&args.out);
    let mut rng = Rng::new(args.seed);
    // hand-picked points: the witnesses of Props/C28.lean and the unit-test style cases
    let s = |m: &[(&str, &str)], p: &[&str]| Spec {
        vocab: None,
        alpha: "abc".into(),
        eow: None,
        merges: m.iter().map(|(a, b)| (a.to_string(), b.to_string())).collect(),
        pieces: p.iter().map(|x| x.to_string()).collect(),
        ignore: false,
    };
    table_requests(&mut out);
    // not training-ordered table: `ab a` ranked before the `a b` that produces `ab`
    // (theorem c28_T4_all_occurrences_not_first_only; seeded change C28_b)
    one_bpe(&mut out, &s(&[("ab", "a"), ("a", "b")], &["abab", "ababab", "aabab"]), "witness");
    let mut ign = s(&[("a", "b"), ("ab", "c")], &["ab", "abc", "abcab", "c"]);
    ign.ignore = true;
    one_bpe(&mut out, &ign, "witness");
    // empty end-of-word suffix = no suffix (ids 64,65 for `ab`, not 320,321)
    let mut empty_sfx = s(&[("b", "a")], &["ab", "barbar", "ba"]);
    empty_sfx.eow = Some(String::new());
    one_bpe(&mut out, &empty_sfx, "witness");
    let mut bytes = s(&[("Ġ", "a"), ("Ã", "©")], &[" a é", "\n", "a a"]);
    bytes.alpha = String::new();
    one_bpe(&mut out, &bytes, "witness");
    one_bpe(&mut out, &s(&[("a", "b"), ("b", "c"), ("a", "b")], &["abc"]), "witness");
    one_bpe(&mut out, &s(&[("a", "b"), ("b", "c"), ("ab", "c")], &["abcab"]), "witness");
    one_bpe(&mut out, &s(&[("a", "a"), ("aa", "aa"), ("aaaa", "aaaa")], &["aaaaaaaa", "aaaaaaa", "aaa"]), "witness");
    let mut coll = s(&[("a", "c")], &["bc", "ac"]);
    coll.vocab = Some(vec![("a".into(), 0), ("b".into(), 0), ("c".into(), 1), ("ac".into(), 2)]);
    one_bpe(&mut out, &coll, "witness");
    // supplied vocabulary whose end-of-word tokens are not numbered `id(letter) + 256`
    let mut eowv = s(&[("a", "b</w>")], &["ab", "ba", "a"]);
    eowv.eow = Some("</w>".into());
    eowv.vocab = Some(vec![
        ("a".into(), 0), ("b".into(), 1), ("c".into(), 2),
        ("a</w>".into(), 3), ("b</w>".into(), 4), ("c</w>".into(), 5), ("ab</w>".into(), 6),
    ]);
    one_bpe(&mut out, &eowv, "witness");

    if args.thorough {
        exhaustive(&mut out, &['a', 'b', 'c'], 3, 6, "exhaustive_abc");
        exhaustive(&mut out, &['a', 'b'], 3, 8, "exhaustive_ab");
        // 4-entry tables with all strings up to length 4
        let alpha = ['a', 'b', 'c'];
        let groups: Vec<Vec<String>> = (0..=4).map(|l| all_strings(&alpha, l)).collect();
        let mut cur = Vec::new();
        let mut k = 0u64;
        tables(&alpha, 4, &mut cur, &mut |t| {
            k += 1;
            let spec = Spec {
                vocab: None,
                alpha: "abc".into(),
                eow: None,
                merges: t.to_vec(),
                pieces: groups[(k % 3) as usize + 2].clone(),
                ignore: false,
            };
            one_bpe(&mut out, &spec, "exhaustive_abc_4merges");
            let mut rev = spec.clone();
            rev.merges.reverse();
            if rev.merges != spec.merges {
                one_bpe(&mut out, &rev, "exhaustive_abc_4merges_reordered");
            }
        });
    } else {
        exhaustive(&mut out, &['a', 'b', 'c'], 2, 5, "exhaustive_abc");
        // alphabet {a,b}: every table of <= 3 entries in every rank order x every input of <= 6 symbols
        exhaustive(&mut out, &['a', 'b'], 3, 6, "exhaustive_ab");
    }
    let n = if args.thorough { 200_000 } else { 20_000 };
    for _ in 0..n {
        random_bpe(&mut out, &mut rng);
    }
    for _ in 0..n / 2 {
        random_bytes_bpe(&mut out, &mut rng);
    }
    for _ in 0..n {
        random_mrg(&mut out, &mut rng);
    }
    out.note("one `bpe` request encodes several pieces; exhaustive lines carry all strings over {a,b,c} of one length");
    out.finish("tbl/rank: the 256-entry byte<->char table and the single-byte ids; exhaustive: every merge table over {a,b,c} with <=2 (quick) / <=3 (thorough, plus all 4-entry tables and their reversal on lengths 2..4) entries whose operands are letters or results of other entries, in every order (duplicates included) x every string of length <=5 / <=6; the same over {a,b} with <=3 entries in every order x every string of length <=6 / <=8; random_bytes: atoms with spaces, control and multi-byte UTF-8 characters, merges over the encoded-byte characters, ignore_merges on/off; random: alphabets of 2..6 letters, <=12 merges with duplicates, unknown operands, empty-string tokens, end-of-word suffix, supplied vocabularies (injective, colliding ids, missing entries), pieces biased to runs and concatenations of merged tokens; mrg: random explicit merge maps with rank ties and merged ids equal to operands, through the bpe_merge hook; non-trivial = at least one merge applied");
}
