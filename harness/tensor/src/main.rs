//! Correspondence harness for the rten-tensor properties (C06–C09).
mod c08;

fn main() {
    let args = hcommon::parse_args();
    hcommon::quiet_panics();
    match args.prop.as_str() {
        "C08" => c08::run(&args),
        p => {
            eprintln!("unknown property {p}");
            std::process::exit(2)
        }
    }
}
