//! C06: bounds / aliasing safety of the safe `rten-tensor` API, on the real crate.
//!
//! One request line = one small API program: a constructor followed by probes.
//!
//! ```text
//! t ovf=<0|1> k=<dyn|nd> c=<ctor> shape=<a,b,..|-> strides=<a,b,..|-> len=<n> p=<probe;probe;..|->
//! ```
//! ctor: `tfd` try_from_data(Vec) · `fd` from_data(Vec) · `fdws` from_data_with_strides(Vec) ·
//! `fsws` from_slice_with_strides(&[T]) · `fsalm` / `fsalv` from_storage_and_layout with a Vec /
//! an immutable view storage and a layout built by `from_shape_and_strides([1;n], strides,
//! AllowOverlap)` + `resize_dim` · `fs` `FromShape::from_shape` only.
//! probes: `g:i,j` get · `m:i,j` get_mut · `i:i,j` Index/IndexMut · `s:axis,mid` split_at(_mut) ·
//! `x:axis,start,end` slice_axis(_mut) · `b:a,b` try_broadcast · `it` iter(_mut).
//!
//! Answer: `ok mdl=<min_data_len> len=<len> st=<strides> | <probe answers>` or
//! `err:mismatch` / `err:short` / `err:overlap` / `panic` / `crash`.
//! Element references are reported as element offsets (pointer − storage base) / 4.
//!
//! Property oracle (independent of the model): every reference handed out lies inside the
//! storage the tensor was built from (and inside the sub-view's own storage), and the two
//! halves of a mutable split / the items of a mutable iterator never contain the same element.
//!
//! Requests containing huge numbers are executed in a child process (this binary re-invoked
//! with `--child`), so that a crash of the real code is observed as the answer `crash`.
use hcommon::{Out, Rng};
use rten_tensor::layout::{
    DynLayout, FromShape, Layout, MutLayout, NdLayout, OverlapPolicy,
};
use rten_tensor::prelude::*;
use rten_tensor::storage::{IntoStorage, ViewData};
use rten_tensor::{Storage, TensorBase};
use std::collections::HashSet;
use std::io::{BufRead, BufReader, Write};
use std::process::{Child, ChildStdin, ChildStdout, Command, Stdio};

const ENUM_LIMIT: u128 = 4096;

#[derive(Clone, Debug)]
enum Probe {
    Get(Vec<usize>),
    GetMut(Vec<usize>),
    Index(Vec<usize>),
    Split(usize, usize),
    SliceAxis(usize, usize, usize),
    Broadcast(Vec<usize>),
    Iter,
    /// `try_slice` / `try_slice_mut` with indices and step-1 (or step -1) ranges
    Slice(Vec<SI>),
}

/// One slice item: index, `start..end` / `start..` with step 1, or a range with step -1.
#[derive(Clone, Debug)]
enum SI {
    Idx(isize),
    Rng(isize, Option<isize>),
    Neg(isize, Option<isize>),
}

fn fmt_si(x: &SI) -> String {
    let e = |e: &Option<isize>| e.map(|v| v.to_string()).unwrap_or("_".into());
    match x {
        SI::Idx(i) => format!("i{i}"),
        SI::Rng(s, en) => format!("{s}:{}", e(en)),
        SI::Neg(s, en) => format!("n{s}:{}", e(en)),
    }
}

fn parse_si(w: &str) -> SI {
    if let Some(r) = w.strip_prefix('i') {
        return SI::Idx(r.parse().unwrap());
    }
    let (neg, w) = match w.strip_prefix('n') {
        Some(r) => (true, r),
        None => (false, w),
    };
    let (a, b) = w.split_once(':').unwrap();
    let s: isize = a.parse().unwrap();
    let e: Option<isize> = if b == "_" { None } else { Some(b.parse().unwrap()) };
    if neg { SI::Neg(s, e) } else { SI::Rng(s, e) }
}

#[derive(Clone, Debug)]
struct Case {
    ovf: bool,
    nd: bool,
    ctor: String,
    shape: Vec<usize>,
    strides: Option<Vec<usize>>,
    len: usize,
    probes: Vec<Probe>,
}

fn list(xs: &[usize]) -> String {
    if xs.is_empty() {
        "-".into()
    } else {
        hcommon::join(xs.iter(), ",")
    }
}

fn parse_list(s: &str) -> Vec<usize> {
    if s == "-" || s.is_empty() {
        vec![]
    } else {
        s.split(',').map(|x| x.parse().unwrap()).collect()
    }
}

fn fmt_probe(p: &Probe) -> String {
    match p {
        Probe::Get(i) => format!("g:{}", list(i)),
        Probe::GetMut(i) => format!("m:{}", list(i)),
        Probe::Index(i) => format!("i:{}", list(i)),
        Probe::Split(a, m) => format!("s:{a},{m}"),
        Probe::SliceAxis(a, s, e) => format!("x:{a},{s},{e}"),
        Probe::Broadcast(t) => format!("b:{}", list(t)),
        Probe::Iter => "it".into(),
        Probe::Slice(items) => {
            if items.is_empty() {
                "r:-".into()
            } else {
                format!("r:{}", hcommon::join(items.iter().map(fmt_si), "/"))
            }
        }
    }
}

fn fmt_case(c: &Case) -> String {
    let probes = if c.probes.is_empty() {
        "-".to_string()
    } else {
        hcommon::join(c.probes.iter().map(fmt_probe), ";")
    };
    format!(
        "t ovf={} k={} c={} shape={} strides={} len={} p={}",
        c.ovf as u8,
        if c.nd { "nd" } else { "dyn" },
        c.ctor,
        list(&c.shape),
        match &c.strides {
            Some(s) => list(s),
            None => "n".into(),
        },
        c.len,
        probes
    )
}

fn parse_case(line: &str) -> Case {
    let mut c = Case {
        ovf: false,
        nd: false,
        ctor: String::new(),
        shape: vec![],
        strides: None,
        len: 0,
        probes: vec![],
    };
    for w in line.split(' ') {
        let Some((k, v)) = w.split_once('=') else { continue };
        match k {
            "ovf" => c.ovf = v == "1",
            "k" => c.nd = v == "nd",
            "c" => c.ctor = v.to_string(),
            "shape" => c.shape = parse_list(v),
            "strides" => c.strides = if v == "n" { None } else { Some(parse_list(v)) },
            "len" => c.len = v.parse().unwrap(),
            "p" => {
                if v != "-" {
                    for p in v.split(';') {
                        let (kind, arg) = p.split_once(':').unwrap_or((p, ""));
                        if kind == "r" {
                            let items = if arg == "-" { vec![] } else { arg.split('/').map(parse_si).collect() };
                            c.probes.push(Probe::Slice(items));
                            continue;
                        }
                        let a = parse_list(arg);
                        c.probes.push(match kind {
                            "g" => Probe::Get(a),
                            "m" => Probe::GetMut(a),
                            "i" => Probe::Index(a),
                            "s" => Probe::Split(a[0], a[1]),
                            "x" => Probe::SliceAxis(a[0], a[1], a[2]),
                            "b" => Probe::Broadcast(a),
                            _ => Probe::Iter,
                        });
                    }
                }
            }
            _ => {}
        }
    }
    c
}

/// Storage region a reference must fall into: base address and element count.
#[derive(Clone, Copy)]
struct Region {
    base: usize,
    len: usize,
}

impl Region {
    /// Element offset of `p` relative to the region if it lies inside, else an error text.
    fn locate(&self, p: *const u32) -> Result<usize, String> {
        let a = p as usize;
        let off = a.wrapping_sub(self.base) / 4;
        if a >= self.base && (a - self.base) % 4 == 0 && off < self.len {
            Ok(off)
        } else {
            Err(format!(
                "reference at element offset {} outside storage of {} elements",
                (a.wrapping_sub(self.base) as isize) / 4,
                self.len
            ))
        }
    }
}

fn all_indices(shape: &[usize]) -> Option<Vec<Vec<usize>>> {
    let n: u128 = shape.iter().map(|&s| s as u128).product();
    if n > ENUM_LIMIT {
        return None;
    }
    let mut out = vec![];
    if n == 0 {
        return Some(out);
    }
    let mut idx = vec![0usize; shape.len()];
    loop {
        out.push(idx.clone());
        let mut d = shape.len();
        loop {
            if d == 0 {
                return Some(out);
            }
            d -= 1;
            idx[d] += 1;
            if idx[d] < shape[d] {
                break;
            }
            idx[d] = 0;
        }
    }
}

use rten_tensor::{SliceItem, SliceRange, TensorView, TensorViewMut};

fn si_to_item(x: &SI) -> SliceItem {
    match x {
        SI::Idx(i) => SliceItem::Index(*i),
        SI::Rng(s, e) => SliceItem::Range(SliceRange::new(*s, *e, 1)),
        SI::Neg(s, e) => SliceItem::Range(SliceRange::new(*s, *e, -1)),
    }
}

fn si_to_range(x: &SI) -> SliceRange {
    match x {
        SI::Rng(s, e) => SliceRange::new(*s, *e, 1),
        SI::Neg(s, e) => SliceRange::new(*s, *e, -1),
        SI::Idx(_) => unreachable!(),
    }
}

/// Ideal `min_data_len` of a shape/strides pair.
fn ideal_mdl(shape: &[usize], strides: &[usize]) -> u128 {
    if shape.iter().any(|&s| s == 0) {
        return 0;
    }
    shape.iter().zip(strides).map(|(&s, &st)| (s as u128 - 1) * st as u128).sum::<u128>() + 1
}

/// Describe a view produced by slicing and check it: its storage lies inside the parent's
/// region, it is long enough for the view's layout, and indexing stays inside it.
fn check_view_meta(what: &str, shape: &[usize], strides: &[usize], ptr: usize, slen: usize, region: Region) -> (usize, Option<String>) {
    let start = ptr.wrapping_sub(region.base) / 4;
    if ptr < region.base || start > region.len || slen > region.len - start.min(region.len) {
        return (start, Some(format!("{what}: storage [{start},+{slen}) outside parent storage of {}", region.len)));
    }
    let need = ideal_mdl(shape, strides);
    if need > slen as u128 {
        return (start, Some(format!("{what}: view of shape {:?} strides {:?} needs {need} elements but its storage has {slen}", shape, strides)));
    }
    (start, None)
}

fn report_view(what: &str, v: TensorView<u32>, region: Region) -> (String, Option<String>) {
    let shape = v.shape().to_vec();
    let strides = v.strides().to_vec();
    let slen = v.storage().len();
    let ptr = v.data_ptr() as usize;
    let (start, mut msg) = check_view_meta(what, &shape, &strides, ptr, slen, region);
    let len = hcommon::catch(|| v.len()).map(|x| x.to_string()).unwrap_or("panic".into());
    let hreg = Region { base: ptr, len: slen };
    let probe = |i: &Vec<usize>, msg: &mut Option<String>| {
        if let Ok(Some(e)) = hcommon::catch(|| v.get(i.as_slice()).map(|r| r as *const u32)) {
            if let Err(m) = hreg.locate(e) {
                if msg.is_none() {
                    *msg = Some(format!("{what}: index {:?}: {m}", i));
                }
            }
        }
    };
    match all_indices(&shape) {
        Some(ix) => {
            for i in ix {
                probe(&i, &mut msg);
            }
        }
        None => {
            probe(&shape.iter().map(|s| s.saturating_sub(1)).collect(), &mut msg);
            probe(&shape.iter().map(|s| (*s > 1) as usize).collect(), &mut msg);
        }
    }
    (format!("V{start}+{slen}[{}]st[{}]len={len}", list(&shape), list(&strides)), msg)
}

fn report_view_mut(what: &str, mut v: TensorViewMut<u32>, region: Region) -> (String, Option<String>) {
    let shape = v.shape().to_vec();
    let strides = v.strides().to_vec();
    let slen = v.storage_mut().len();
    let ptr = v.data_ptr() as usize;
    let (start, mut msg) = check_view_meta(what, &shape, &strides, ptr, slen, region);
    let len = hcommon::catch(|| v.len()).map(|x| x.to_string()).unwrap_or("panic".into());
    let hreg = Region { base: ptr, len: slen };
    let mut seen: HashSet<usize> = HashSet::new();
    let idxs: Vec<Vec<usize>> = match all_indices(&shape) {
        Some(ix) => ix,
        None => vec![
            shape.iter().map(|s| s.saturating_sub(1)).collect(),
            shape.iter().map(|s| (*s > 1) as usize).collect(),
        ],
    };
    let enumerated = all_indices(&shape).is_some();
    for i in idxs {
        if let Ok(Some(e)) = hcommon::catch(|| v.get_mut(i.as_slice()).map(|r| r as *mut u32 as *const u32)) {
            match hreg.locate(e) {
                Err(m) => {
                    if msg.is_none() {
                        msg = Some(format!("{what}: index {:?}: {m}", i));
                    }
                }
                Ok(o) => {
                    if enumerated && !seen.insert(o) && msg.is_none() {
                        msg = Some(format!("{what}: two indices of the mutable view map to element {o}"));
                    }
                }
            }
        }
    }
    (format!("V{start}+{slen}[{}]st[{}]len={len}", list(&shape), list(&strides)), msg)
}

/// `try_slice` on an immutable view. NdLayout tensors sliced with ranges only take the
/// static-rank path (`NdLayout::slice::<N>` via a tuple), everything else `slice_dyn`.
fn slice_probe_view(t: TensorView<u32>, items: &[SI], is_nd: bool, region: Region) -> (String, Option<String>) {
    let all_ranges = items.iter().all(|i| !matches!(i, SI::Idx(_)));
    let n = t.ndim();
    if is_nd && all_ranges && items.len() == n && (1..=3).contains(&n) {
        let r: Vec<SliceRange> = items.iter().map(si_to_range).collect();
        let res = match n {
            1 => t.nd_view::<1>().try_slice((r[0],)).map(|v| v.as_dyn()),
            2 => t.nd_view::<2>().try_slice((r[0], r[1])).map(|v| v.as_dyn()),
            _ => t.nd_view::<3>().try_slice((r[0], r[1], r[2])).map(|v| v.as_dyn()),
        };
        match res {
            Ok(v) => report_view("slice", v, region),
            Err(_) => ("err".into(), None),
        }
    } else {
        let its: Vec<SliceItem> = items.iter().map(si_to_item).collect();
        match t.try_slice(its.as_slice()) {
            Ok(v) => report_view("slice", v, region),
            Err(_) => ("err".into(), None),
        }
    }
}

fn slice_probe_mut(mut t: TensorViewMut<u32>, items: &[SI], is_nd: bool, region: Region) -> (String, Option<String>) {
    let all_ranges = items.iter().all(|i| !matches!(i, SI::Idx(_)));
    let n = t.ndim();
    if is_nd && all_ranges && items.len() == n && (1..=3).contains(&n) {
        let r: Vec<SliceRange> = items.iter().map(si_to_range).collect();
        match n {
            1 => {
                let mut v = t.nd_view_mut::<1>();
                match v.try_slice_mut((r[0],)) {
                    Ok(mut s) => report_view_mut("slice_mut", s.as_dyn_mut(), region),
                    Err(_) => ("err".into(), None),
                }
            }
            2 => {
                let mut v = t.nd_view_mut::<2>();
                match v.try_slice_mut((r[0], r[1])) {
                    Ok(mut s) => report_view_mut("slice_mut", s.as_dyn_mut(), region),
                    Err(_) => ("err".into(), None),
                }
            }
            _ => {
                let mut v = t.nd_view_mut::<3>();
                match v.try_slice_mut((r[0], r[1], r[2])) {
                    Ok(mut s) => report_view_mut("slice_mut", s.as_dyn_mut(), region),
                    Err(_) => ("err".into(), None),
                }
            }
        }
    } else {
        let its: Vec<SliceItem> = items.iter().map(si_to_item).collect();
        match t.try_slice_mut(its.as_slice()) {
            Ok(s) => report_view_mut("slice_mut", s, region),
            Err(_) => ("err".into(), None),
        }
    }
}

struct Fail(Option<String>);
impl Fail {
    fn set(&mut self, m: String) {
        if self.0.is_none() {
            self.0 = Some(m);
        }
    }
}

macro_rules! cv_dyn {
    ($v:expr) => {
        $v.as_slice()
    };
}
macro_rules! cv_nd {
    ($v:expr) => {
        <[usize; N]>::try_from($v.as_slice()).unwrap()
    };
}

fn sizes<S: rten_tensor::SizeArray>(s: &S) -> Vec<usize> {
    rten_tensor::SizeArray::iter(s).collect()
}

fn fmt_meta<L: Layout>(l: &L) -> String {
    let mdl = hcommon::catch(|| l.min_data_len()).map(|x| x.to_string()).unwrap_or("panic".into());
    let len = hcommon::catch(|| l.len()).map(|x| x.to_string()).unwrap_or("panic".into());
    let st: Vec<usize> = sizes(&l.strides());
    format!("ok mdl={} len={} st={}", mdl, len, list(&st))
}

fn err_name(e: &rten_tensor::errors::FromDataError) -> &'static str {
    use rten_tensor::errors::FromDataError::*;
    match e {
        StorageTooShort => "err:short",
        StorageLengthMismatch => "err:mismatch",
        MayOverlap => "err:overlap",
    }
}

macro_rules! gen_runner {
    ($name:ident, $L:ty, $cv:ident) => {
        #[allow(unused_mut, unused_variables)]
        fn $name<const N: usize>(c: &Case) -> (String, Option<String>) {
            let mut fail = Fail(None);
            let data: Vec<u32> = (0..c.len as u32).collect();
            let strides = c.strides.clone().unwrap_or_default();
            let shape = c.shape.clone();
            let mk_layout = || {
                let ones = vec![1usize; shape.len()];
                let mut layout = <$L as MutLayout>::from_shape_and_strides(
                    $cv!(ones),
                    $cv!(strides),
                    OverlapPolicy::AllowOverlap,
                )
                .unwrap();
                for d in 0..shape.len() {
                    layout.resize_dim(d, shape[d]);
                }
                layout
            };
            // Probes on an immutable view.
            macro_rules! probes_view {
                ($t:expr, $region:expr) => {{
                    let t = $t;
                    let region: Region = $region;
                    let mut answers: Vec<String> = vec![];
                    for p in &c.probes {
                        let r = hcommon::catch(|| -> (String, Option<String>) {
                            match p {
                                Probe::Get(i) | Probe::GetMut(i) => match t.get($cv!(i)) {
                                    None => ("none".into(), None),
                                    Some(r) => match region.locate(r as *const u32) {
                                        Ok(o) => (o.to_string(), None),
                                        Err(m) => ("oob".into(), Some(format!("get {:?}: {m}", i))),
                                    },
                                },
                                Probe::Index(i) => {
                                    let r = &t[$cv!(i)];
                                    match region.locate(r as *const u32) {
                                        Ok(o) => (o.to_string(), None),
                                        Err(m) => ("oob".into(), Some(format!("index {:?}: {m}", i))),
                                    }
                                }
                                Probe::Split(axis, mid) => {
                                    let (l, r) = t.split_at(*axis, *mid);
                                    let mut msg = None;
                                    let mut parts = vec![];
                                    for (name, h) in [("L", &l), ("R", &r)] {
                                        let hs: Vec<usize> = sizes(&h.shape());
                                        let hlen = h.storage().len();
                                        let hptr = h.data_ptr() as usize;
                                        let start = hptr.wrapping_sub(region.base) / 4;
                                        if hptr < region.base || start > region.len || hlen > region.len - start.min(region.len) {
                                            msg = Some(format!("split half {name} storage [{start},+{hlen}) outside parent storage of {}", region.len));
                                        } else if let Some(ix) = all_indices(&hs) {
                                            let hreg = Region { base: hptr, len: hlen };
                                            for i in ix {
                                                if let Some(e) = h.get($cv!(i)) {
                                                    if let Err(m) = hreg.locate(e as *const u32) {
                                                        msg = Some(format!("split half {name} index {:?}: {m}", i));
                                                    }
                                                }
                                            }
                                        }
                                        parts.push(format!("{name}{start}+{hlen}[{}]", list(&hs)));
                                    }
                                    (parts.join(","), msg)
                                }
                                Probe::SliceAxis(axis, s, e) => {
                                    let h = t.slice_axis(*axis, *s..*e);
                                    let hs: Vec<usize> = sizes(&h.shape());
                                    let hlen = h.storage().len();
                                    let hptr = h.data_ptr() as usize;
                                    let start = hptr.wrapping_sub(region.base) / 4;
                                    let mut msg = None;
                                    if hptr < region.base || start > region.len || hlen > region.len - start.min(region.len) {
                                        msg = Some(format!("slice storage [{start},+{hlen}) outside parent storage of {}", region.len));
                                    } else if let Some(ix) = all_indices(&hs) {
                                        let hreg = Region { base: hptr, len: hlen };
                                        for i in ix {
                                            if let Some(e) = h.get($cv!(i)) {
                                                if let Err(m) = hreg.locate(e as *const u32) {
                                                    msg = Some(format!("slice index {:?}: {m}", i));
                                                }
                                            }
                                        }
                                    }
                                    (format!("S{start}+{hlen}[{}]", list(&hs)), msg)
                                }
                                Probe::Broadcast(target) => match t.try_broadcast($cv!(target)) {
                                    Err(_) => ("err".into(), None),
                                    Ok(b) => {
                                        let st: Vec<usize> = sizes(&b.strides());
                                        let bs: Vec<usize> = sizes(&b.shape());
                                        let mut msg = None;
                                        let blen = hcommon::catch(|| b.len()).map(|x| x.to_string()).unwrap_or("panic".into());
                                        if let Some(ix) = all_indices(&bs) {
                                            for i in ix {
                                                if let Some(e) = b.get($cv!(i)) {
                                                    if let Err(m) = region.locate(e as *const u32) {
                                                        msg = Some(format!("broadcast index {:?}: {m}", i));
                                                    }
                                                }
                                            }
                                        }
                                        (format!("B[{}]len={}", list(&st), blen), msg)
                                    }
                                },
                                Probe::Slice(items) => slice_probe_view(t.as_dyn(), items, c.nd, region),
                                Probe::Iter => {
                                    if (t.len() as u128) > ENUM_LIMIT {
                                        ("big".into(), None)
                                    } else {
                                        let mut n = 0usize;
                                        let mut msg = None;
                                        for e in t.iter() {
                                            n += 1;
                                            if let Err(m) = region.locate(e as *const u32) {
                                                msg = Some(format!("iter item {n}: {m}"));
                                            }
                                        }
                                        (format!("n={n}"), msg)
                                    }
                                }
                            }
                        });
                        match r {
                            Ok((a, m)) => {
                                answers.push(a);
                                if let Some(m) = m {
                                    fail.set(m);
                                }
                            }
                            Err(_) => answers.push("panic".into()),
                        }
                    }
                    answers.join(" ")
                }};
            }
            // Probes on an owned (mutable) tensor.
            macro_rules! probes_owned {
                ($t:expr, $region:expr) => {{
                    let mut t = $t;
                    let region: Region = $region;
                    let mut answers: Vec<String> = vec![];
                    for p in &c.probes {
                        let r = hcommon::catch(|| -> (String, Option<String>) {
                            match p {
                                Probe::Get(i) => match t.get($cv!(i)) {
                                    None => ("none".into(), None),
                                    Some(r) => match region.locate(r as *const u32) {
                                        Ok(o) => (o.to_string(), None),
                                        Err(m) => ("oob".into(), Some(format!("get {:?}: {m}", i))),
                                    },
                                },
                                Probe::GetMut(i) => match t.get_mut($cv!(i)) {
                                    None => ("none".into(), None),
                                    Some(r) => match region.locate(r as *const u32) {
                                        Ok(o) => {
                                            *r = r.wrapping_add(0); // write through the reference
                                            (o.to_string(), None)
                                        }
                                        Err(m) => ("oob".into(), Some(format!("get_mut {:?}: {m}", i))),
                                    },
                                },
                                Probe::Index(i) => {
                                    let r = &mut t[$cv!(i)];
                                    match region.locate(r as *const u32) {
                                        Ok(o) => (o.to_string(), None),
                                        Err(m) => ("oob".into(), Some(format!("index_mut {:?}: {m}", i))),
                                    }
                                }
                                Probe::Split(axis, mid) => {
                                    let v = t.view_mut();
                                    let (mut l, mut r) = v.split_at_mut(*axis, *mid);
                                    let mut msg = None;
                                    let mut parts = vec![];
                                    let mut seen: HashSet<usize> = HashSet::new();
                                    for (name, h) in [("L", &mut l), ("R", &mut r)] {
                                        let hs: Vec<usize> = sizes(&h.shape());
                                        let hlen = h.storage_mut().len();
                                        let hptr = h.data_ptr() as usize;
                                        let start = hptr.wrapping_sub(region.base) / 4;
                                        if hptr < region.base || start > region.len || hlen > region.len - start.min(region.len) {
                                            msg = Some(format!("split half {name} storage [{start},+{hlen}) outside parent storage of {}", region.len));
                                        } else if let Some(ix) = all_indices(&hs) {
                                            let hreg = Region { base: hptr, len: hlen };
                                            for i in ix {
                                                if let Some(e) = h.get_mut($cv!(i)) {
                                                    match hreg.locate(e as *const u32) {
                                                        Err(m) => msg = Some(format!("split half {name} index {:?}: {m}", i)),
                                                        Ok(o) => {
                                                            if !seen.insert(start + o) {
                                                                msg = Some(format!("split_at_mut hands out element {} twice (half {name} index {:?})", start + o, i));
                                                            }
                                                        }
                                                    }
                                                }
                                            }
                                        }
                                        parts.push(format!("{name}{start}+{hlen}[{}]", list(&hs)));
                                    }
                                    (parts.join(","), msg)
                                }
                                Probe::SliceAxis(axis, s, e) => {
                                    let mut h = t.slice_axis_mut(*axis, *s..*e);
                                    let hs: Vec<usize> = sizes(&h.shape());
                                    let hlen = h.storage_mut().len();
                                    let hptr = h.data_ptr() as usize;
                                    let start = hptr.wrapping_sub(region.base) / 4;
                                    let mut msg = None;
                                    let mut seen: HashSet<usize> = HashSet::new();
                                    if hptr < region.base || start > region.len || hlen > region.len - start.min(region.len) {
                                        msg = Some(format!("slice storage [{start},+{hlen}) outside parent storage of {}", region.len));
                                    } else if let Some(ix) = all_indices(&hs) {
                                        let hreg = Region { base: hptr, len: hlen };
                                        for i in ix {
                                            if let Some(e) = h.get_mut($cv!(i)) {
                                                match hreg.locate(e as *const u32) {
                                                    Err(m) => msg = Some(format!("slice index {:?}: {m}", i)),
                                                    Ok(o) => {
                                                        if !seen.insert(o) {
                                                            msg = Some(format!("slice_axis_mut view maps two indices to element {o}"));
                                                        }
                                                    }
                                                }
                                            }
                                        }
                                    }
                                    (format!("S{start}+{hlen}[{}]", list(&hs)), msg)
                                }
                                Probe::Broadcast(target) => match t.view().try_broadcast($cv!(target)) {
                                    Err(_) => ("err".into(), None),
                                    Ok(b) => {
                                        let st: Vec<usize> = sizes(&b.strides());
                                        let bs: Vec<usize> = sizes(&b.shape());
                                        let mut msg = None;
                                        let blen = hcommon::catch(|| b.len()).map(|x| x.to_string()).unwrap_or("panic".into());
                                        if let Some(ix) = all_indices(&bs) {
                                            for i in ix {
                                                if let Some(e) = b.get($cv!(i)) {
                                                    if let Err(m) = region.locate(e as *const u32) {
                                                        msg = Some(format!("broadcast index {:?}: {m}", i));
                                                    }
                                                }
                                            }
                                        }
                                        (format!("B[{}]len={}", list(&st), blen), msg)
                                    }
                                },
                                Probe::Slice(items) => slice_probe_mut(t.as_dyn_mut(), items, c.nd, region),
                                Probe::Iter => {
                                    if (t.len() as u128) > ENUM_LIMIT {
                                        ("big".into(), None)
                                    } else {
                                        let mut n = 0usize;
                                        let mut msg = None;
                                        let mut seen: HashSet<usize> = HashSet::new();
                                        for e in t.iter_mut() {
                                            n += 1;
                                            match region.locate(e as *const u32) {
                                                Err(m) => msg = Some(format!("iter_mut item {n}: {m}")),
                                                Ok(o) => {
                                                    if !seen.insert(o) {
                                                        msg = Some(format!("iter_mut yields element {o} twice"));
                                                    }
                                                }
                                            }
                                        }
                                        (format!("n={n}"), msg)
                                    }
                                }
                            }
                        });
                        match r {
                            Ok((a, m)) => {
                                answers.push(a);
                                if let Some(m) = m {
                                    fail.set(m);
                                }
                            }
                            Err(_) => answers.push("panic".into()),
                        }
                    }
                    answers.join(" ")
                }};
            }

            let base = data.as_ptr() as usize;
            let region = Region { base, len: data.len() };
            let ans: String = match c.ctor.as_str() {
                "fs" => match hcommon::catch(|| <$L as FromShape>::from_shape($cv!(shape))) {
                    Ok(l) => fmt_meta(&l),
                    Err(_) => "panic".into(),
                },
                "tfd" | "fd" | "fdws" | "fsalm" => {
                    let d = data;
                    let built = hcommon::catch(|| match c.ctor.as_str() {
                        "tfd" => TensorBase::<Vec<u32>, $L>::try_from_data($cv!(shape), d),
                        "fd" => Ok(TensorBase::<Vec<u32>, $L>::from_data($cv!(shape), d)),
                        "fdws" => TensorBase::<Vec<u32>, $L>::from_data_with_strides($cv!(shape), d, $cv!(strides)),
                        _ => Ok(TensorBase::<Vec<u32>, $L>::from_storage_and_layout(d, mk_layout())),
                    });
                    match built {
                        Err(_) => "panic".into(),
                        Ok(Err(e)) => err_name(&e).into(),
                        Ok(Ok(t)) => {
                            let meta = fmt_meta(t.layout());
                            if t.data_ptr() as usize != base {
                                fail.set("tensor storage pointer differs from the Vec it was built from".into());
                            }
                            let pa = probes_owned!(t, region);
                            format!("{meta} | {pa}")
                        }
                    }
                }
                _ => {
                    let slice: &[u32] = &data;
                    let built = hcommon::catch(|| match c.ctor.as_str() {
                        "fsws" => TensorBase::<ViewData<u32>, $L>::from_slice_with_strides($cv!(shape), slice, $cv!(strides)),
                        _ => Ok(TensorBase::<ViewData<u32>, $L>::from_storage_and_layout(slice.into_storage(), mk_layout())),
                    });
                    match built {
                        Err(_) => "panic".into(),
                        Ok(Err(e)) => err_name(&e).into(),
                        Ok(Ok(t)) => {
                            let meta = fmt_meta(t.layout());
                            let pa = probes_view!(t, region);
                            format!("{meta} | {pa}")
                        }
                    }
                }
            };
            (ans, fail.0)
        }
    };
}

gen_runner!(run_dyn, DynLayout, cv_dyn);
gen_runner!(run_nd, NdLayout<N>, cv_nd);

fn run_case(c: &Case) -> (String, Option<String>) {
    let r = hcommon::catch(|| {
        if !c.nd {
            run_dyn::<0>(c)
        } else {
            match c.shape.len() {
                1 => run_nd::<1>(c),
                2 => run_nd::<2>(c),
                3 => run_nd::<3>(c),
                4 => run_nd::<4>(c),
                _ => ("skip".into(), None),
            }
        }
    });
    match r {
        Ok(x) => x,
        Err(m) => (format!("panic-outside {m}"), None),
    }
}


// ---------------------------------------------------------------------------------------------
// Growing / shrinking owned tensors: has_capacity, append, clip_dim.
//
// Request: `a ovf=<0|1> k=<dyn|nd> shape=.. strides=<..|n> len=<n> cap=<n> ops=<op;op;..>`
// ops: `hc:axis,new_size` has_capacity · `ap:axis/<other shape>` append of a zero-stride view
// with that shape · `cl:dim,start,end` clip_dim.
// Answer: `ok st=<strides> | <op answers>`; op answers `1`/`0`, `ok[shape]dl=<storage len>`,
// `err:shape`, `err:cap`, `noother` (the other tensor itself is not constructible), `panic`.
// Oracle after every op (also after a panicking one): the storage pointer is unchanged, the
// storage length is within the capacity, and every valid index maps to a distinct element
// inside the storage.

#[derive(Clone, Debug)]
enum Op {
    HasCap(usize, usize),
    Append(usize, Vec<usize>),
    Clip(usize, usize, usize),
    /// `remove_axis(index)` / `insert_axis(index)` (DynLayout only: `ResizeLayout`)
    RemoveAxis(usize),
    InsertAxis(usize),
    MoveAxis(usize, usize),
    /// `Layout::size(dim)` / `Layout::stride(dim)`
    Size(usize),
    Stride(usize),
    /// `Tensor::reshape(shape)` (in place; `TensorBase<Vec<T>, DynLayout>` only)
    Reshape(Vec<usize>),
    /// `make_contiguous()`
    MakeContig,
}

#[derive(Clone, Debug)]
struct GCase {
    ovf: bool,
    nd: bool,
    shape: Vec<usize>,
    strides: Option<Vec<usize>>,
    len: usize,
    cap: usize,
    ops: Vec<Op>,
}

fn fmt_gcase(c: &GCase) -> String {
    let ops: Vec<String> = c
        .ops
        .iter()
        .map(|o| match o {
            Op::HasCap(a, n) => format!("hc:{a},{n}"),
            Op::Append(a, sh) => format!("ap:{a}/{}", list(sh)),
            Op::Clip(d, s, e) => format!("cl:{d},{s},{e}"),
            Op::RemoveAxis(i) => format!("ra:{i}"),
            Op::InsertAxis(i) => format!("ia:{i}"),
            Op::MoveAxis(f, t) => format!("mv:{f},{t}"),
            Op::Size(d) => format!("sz:{d}"),
            Op::Stride(d) => format!("sd:{d}"),
            Op::Reshape(sh) => format!("rs:{}", list(sh)),
            Op::MakeContig => "mc:-".into(),
        })
        .collect();
    format!(
        "a ovf={} k={} shape={} strides={} len={} cap={} ops={}",
        c.ovf as u8,
        if c.nd { "nd" } else { "dyn" },
        list(&c.shape),
        match &c.strides {
            Some(s) => list(s),
            None => "n".into(),
        },
        c.len,
        c.cap,
        if ops.is_empty() { "-".to_string() } else { ops.join(";") }
    )
}

fn parse_gcase(line: &str) -> GCase {
    let mut c = GCase { ovf: false, nd: false, shape: vec![], strides: None, len: 0, cap: 0, ops: vec![] };
    for w in line.split(' ') {
        let Some((k, v)) = w.split_once('=') else { continue };
        match k {
            "ovf" => c.ovf = v == "1",
            "k" => c.nd = v == "nd",
            "shape" => c.shape = parse_list(v),
            "strides" => c.strides = if v == "n" { None } else { Some(parse_list(v)) },
            "len" => c.len = v.parse().unwrap(),
            "cap" => c.cap = v.parse().unwrap(),
            "ops" => {
                if v != "-" {
                    for o in v.split(';') {
                        let (kind, arg) = o.split_once(':').unwrap();
                        c.ops.push(match kind {
                            "hc" => {
                                let a = parse_list(arg);
                                Op::HasCap(a[0], a[1])
                            }
                            "ap" => {
                                let (ax, sh) = arg.split_once('/').unwrap();
                                Op::Append(ax.parse().unwrap(), parse_list(sh))
                            }
                            "ra" => Op::RemoveAxis(arg.parse().unwrap()),
                            "ia" => Op::InsertAxis(arg.parse().unwrap()),
                            "mv" => {
                                let a = parse_list(arg);
                                Op::MoveAxis(a[0], a[1])
                            }
                            "sz" => Op::Size(arg.parse().unwrap()),
                            "sd" => Op::Stride(arg.parse().unwrap()),
                            "rs" => Op::Reshape(parse_list(arg)),
                            "mc" => Op::MakeContig,
                            _ => {
                                let a = parse_list(arg);
                                Op::Clip(a[0], a[1], a[2])
                            }
                        });
                    }
                }
            }
            _ => {}
        }
    }
    c
}

/// `ResizeLayout` operations exist for `DynLayout` only.
macro_rules! rz_dyn {
    ($t:expr, $op:expr) => {
        match $op {
            Op::RemoveAxis(i) => Some(hcommon::catch(|| $t.remove_axis(*i)).is_ok()),
            Op::InsertAxis(i) => Some(hcommon::catch(|| $t.insert_axis(*i)).is_ok()),
            Op::Reshape(sh) => Some(hcommon::catch(|| $t.reshape(sh.as_slice())).is_ok()),
            _ => None,
        }
    };
}
macro_rules! rz_nd {
    ($t:expr, $op:expr) => {
        None::<bool>
    };
}

macro_rules! gen_grow_runner {
    ($name:ident, $L:ty, $cv:ident, $rz:ident) => {
        #[allow(unused_mut, unused_variables)]
        fn $name<const N: usize>(c: &GCase) -> (String, Option<String>) {
            let mut fail = Fail(None);
            let mut v: Vec<u32> = Vec::with_capacity(c.cap);
            v.extend(0..c.len as u32);
            if v.capacity() != c.cap {
                return ("capacity-differs".into(), None);
            }
            let mut base = v.as_ptr() as usize;
            let mut cap_known = true;
            let shape = c.shape.clone();
            let strides = c.strides.clone().unwrap_or_default();
            let built = hcommon::catch(|| match &c.strides {
                None => TensorBase::<Vec<u32>, $L>::try_from_data($cv!(shape), v),
                Some(_) => TensorBase::<Vec<u32>, $L>::from_data_with_strides($cv!(shape), v, $cv!(strides)),
            });
            let mut t = match built {
                Err(_) => return ("panic".into(), None),
                Ok(Err(e)) => return (err_name(&e).into(), None),
                Ok(Ok(t)) => t,
            };
            let st = sizes(&t.strides());
            let mut answers: Vec<String> = vec![];
            let one = [7u32];
            for op in &c.ops {
                let a = match op {
                    Op::HasCap(axis, n) => match hcommon::catch(|| t.has_capacity(*axis, *n)) {
                        Ok(b) => (b as u8).to_string(),
                        Err(_) => "panic".into(),
                    },
                    Op::Append(axis, oshape) => {
                        if c.nd && oshape.len() != N {
                            "noother".into()
                        } else {
                            let zeros = vec![0usize; oshape.len()];
                            match hcommon::catch(|| {
                                TensorBase::<ViewData<u32>, $L>::from_slice_with_strides($cv!(oshape), &one[..], $cv!(zeros))
                            }) {
                                Ok(Ok(other)) => match hcommon::catch(|| t.append(*axis, &other)) {
                                    Ok(Ok(())) => format!("ok[{}]dl={}", list(&sizes(&t.shape())), t.storage_mut().len()),
                                    Ok(Err(rten_tensor::errors::ExpandError::ShapeMismatch)) => "err:shape".into(),
                                    Ok(Err(rten_tensor::errors::ExpandError::InsufficientCapacity)) => "err:cap".into(),
                                    Err(_) => "panic".into(),
                                },
                                _ => "noother".into(),
                            }
                        }
                    }
                    Op::Clip(d, s, e) => match hcommon::catch(|| t.clip_dim(*d, *s..*e)) {
                        Ok(()) => format!("ok[{}]dl={}", list(&sizes(&t.shape())), t.storage_mut().len()),
                        Err(_) => "panic".into(),
                    },
                    Op::MakeContig => match hcommon::catch(|| t.make_contiguous()) {
                        Ok(()) => "ok".into(),
                        Err(_) => "panic".into(),
                    },
                    Op::RemoveAxis(_) | Op::InsertAxis(_) | Op::Reshape(_) => match $rz!(t, op) {
                        Some(true) => "ok".into(),
                        Some(false) => "panic".into(),
                        None => "n/a".into(),
                    },
                    Op::MoveAxis(f, to) => match hcommon::catch(|| t.move_axis(*f, *to)) {
                        Ok(()) => "ok".into(),
                        Err(_) => "panic".into(),
                    },
                    Op::Size(d) => match hcommon::catch(|| t.size(*d)) {
                        Ok(x) => x.to_string(),
                        Err(_) => "panic".into(),
                    },
                    Op::Stride(d) => match hcommon::catch(|| t.stride(*d)) {
                        Ok(x) => x.to_string(),
                        Err(_) => "panic".into(),
                    },
                };
                // the layout as it is now (also after a panic): `<answer>@shape|strides`
                let a = format!("{a}@{}|{}", list(&sizes(&t.shape())), list(&sizes(&t.strides())));
                // oracle on the tensor as it is now
                let dl = t.storage_mut().len();
                if matches!(op, Op::Reshape(_) | Op::MakeContig) {
                    // these may move the elements into a new Vec (also when they panic later)
                    if t.data_ptr() as usize != base {
                        base = t.data_ptr() as usize;
                        cap_known = false;
                    }
                } else if t.data_ptr() as usize != base {
                    fail.set(format!("after {:?}: storage pointer changed", op));
                }
                let a = format!("{a};dl={dl}");
                if cap_known && dl > c.cap {
                    fail.set(format!("after {:?}: storage length {dl} exceeds capacity {}", op, c.cap));
                }
                let cur = sizes(&t.shape());
                if let Some(ix) = all_indices(&cur) {
                    let region = Region { base, len: dl };
                    let mut seen: HashSet<usize> = HashSet::new();
                    for i in ix {
                        match hcommon::catch(|| t.get_mut($cv!(i)).map(|r| r as *mut u32 as *const u32)) {
                            Ok(Some(p)) => match region.locate(p) {
                                Err(m) => fail.set(format!("after {:?}: index {:?}: {m}", op, i)),
                                Ok(o) => {
                                    if !seen.insert(o) {
                                        fail.set(format!("after {:?}: two indices map to element {o}", op));
                                    }
                                }
                            },
                            Ok(None) => fail.set(format!("after {:?}: valid index {:?} rejected", op, i)),
                            Err(_) => {}
                        }
                    }
                } else {
                    // too many indices to enumerate: probe the corners
                    let last: Vec<usize> = cur.iter().map(|s| s.saturating_sub(1)).collect();
                    if cur.iter().all(|s| *s > 0) {
                        let region = Region { base, len: dl };
                        if let Ok(Some(p)) = hcommon::catch(|| t.get_mut($cv!(last)).map(|r| r as *mut u32 as *const u32)) {
                            if let Err(m) = region.locate(p) {
                                fail.set(format!("after {:?}: index {:?}: {m}", op, last));
                            }
                        }
                    }
                }
                answers.push(a);
            }
            (format!("ok st={} | {}", list(&st), answers.join(" ")), fail.0)
        }
    };
}

gen_grow_runner!(grow_dyn, DynLayout, cv_dyn, rz_dyn);
gen_grow_runner!(grow_nd, NdLayout<N>, cv_nd, rz_nd);

fn run_gcase(c: &GCase) -> (String, Option<String>) {
    let r = hcommon::catch(|| {
        if !c.nd {
            grow_dyn::<0>(c)
        } else {
            match c.shape.len() {
                1 => grow_nd::<1>(c),
                2 => grow_nd::<2>(c),
                3 => grow_nd::<3>(c),
                4 => grow_nd::<4>(c),
                _ => ("skip".into(), None),
            }
        }
    });
    match r {
        Ok(x) => x,
        Err(m) => (format!("panic-outside {m}"), None),
    }
}

/// Execute one request line of either kind.
fn run_line(line: &str) -> (String, Option<String>) {
    if line.starts_with("a ") {
        run_gcase(&parse_gcase(line))
    } else {
        run_case(&parse_case(line))
    }
}

fn gen_grow(rng: &mut Rng, ovf: bool, huge: bool) -> GCase {
    let nd = rng.chance(1, 2);
    let rank = 1 + rng.usize_below(3);
    let full: Vec<usize> = (0..rank).map(|_| 1 + rng.usize_below(4)).collect();
    let d = rng.usize_below(rank);
    let mut shape = full.clone();
    shape[d] = match rng.below(4) {
        0 => 0,
        1 => 1.min(full[d]),
        _ => rng.usize_below(full[d] + 1),
    };
    let mut strides = contiguous(&full);
    let mut use_strides = rng.chance(2, 3);
    if rng.chance(1, 6) {
        // a gap / permuted variant
        let k = 1 + rng.usize_below(2);
        for s in strides.iter_mut() {
            *s *= k;
        }
        use_strides = true;
    }
    if !huge && rng.chance(1, 4) {
        // while the growth axis has at most one entry its stride is unconstrained: pick a small
        // one, so that growing may overlap (the overlap check of the *new* layout must refuse)
        use_strides = true;
        shape[d] = rng.usize_below(2);
        strides[d] = rng.usize_below(5);
    }
    if huge {
        use_strides = true;
        // a stride that makes (new_size - 1) * stride wrap; only legal while size <= 1
        shape[d] = rng.usize_below(2);
        strides[d] = match rng.below(6) {
            0 => TWO63,
            1 => 1 << 62,
            2 => (1 << 62) + 1,
            3 => 1 << 61,
            4 => usize::MAX / 3 + 1,
            _ => huge_value(rng),
        };
    }
    let len = wrapping_mdl(&shape, &strides).min(1 << 16);
    let full_len = wrapping_mdl(&full, &strides).min(1 << 12);
    let cap = match rng.below(4) {
        0 => len,
        1 => len + rng.usize_below(4),
        _ => full_len.max(len) + rng.usize_below(3),
    };
    let mut ops = vec![];
    let mut cur = shape.clone();
    // an axis argument: usually valid, sometimes just past the end, inside the stride half of
    // DynLayout's shape_and_strides array, past it, or near usize::MAX
    let pick_axis = |rng: &mut Rng, rank: usize, prefer: Option<usize>| -> usize {
        if rng.chance(1, 8) {
            match rng.below(6) {
                0 => rank,
                1 => rank + rng.usize_below(rank.max(1)),
                2 => 2 * rank,
                3 => 2 * rank + 1,
                4 => usize::MAX - rng.usize_below(2 * rank + 2),
                _ => rank + 1,
            }
        } else {
            match prefer {
                Some(d) if d < rank && rng.chance(3, 4) => d,
                _ => rng.usize_below(rank.max(1)),
            }
        }
    };
    for _ in 0..1 + rng.usize_below(4) {
        let rank = cur.len();
        match rng.below(18) {
            0 | 1 | 2 => {
                let axis = pick_axis(rng, rank, None);
                let n = match rng.below(6) {
                    0 => huge_value(rng),
                    1 if huge => *rng.pick(&[3usize, 5, 9, 2, 4]),
                    _ => rng.usize_below(7),
                };
                ops.push(Op::HasCap(axis, n));
            }
            3 | 4 => {
                let dim = pick_axis(rng, rank, None);
                let size = cur.as_slice().get(dim).copied().unwrap_or(1).min(1 << 20);
                let s = rng.usize_below(size + 1);
                let e = if rng.chance(1, 8) { size + 1 } else { s + rng.usize_below(size - s + 1) };
                ops.push(Op::Clip(dim, s, e));
                if dim < rank && e <= size && s <= e {
                    cur[dim] = e - s;
                }
            }
            10 => {
                let i = if rng.chance(1, 2) {
                    cur.iter().position(|&x| x == 1).unwrap_or_else(|| pick_axis(rng, rank, None))
                } else {
                    pick_axis(rng, rank, None)
                };
                ops.push(Op::RemoveAxis(i));
                if !nd && i < rank && cur[i] == 1 {
                    cur.remove(i);
                }
            }
            11 => {
                let i = if rng.chance(1, 6) { rank + 1 + rng.usize_below(rank + 2) } else { rng.usize_below(rank + 1) };
                ops.push(Op::InsertAxis(i));
                if !nd && i <= rank && rank < 4 {
                    cur.insert(i, 1);
                }
            }
            12 => {
                let f = pick_axis(rng, rank, None);
                let t = pick_axis(rng, rank, None);
                ops.push(Op::MoveAxis(f, t));
                if f < rank && t < rank {
                    let x = cur.remove(f);
                    cur.insert(t, x);
                }
            }
            13 => ops.push(if rng.chance(1, 2) { Op::Size(pick_axis(rng, rank, None)) } else { Op::Stride(pick_axis(rng, rank, None)) }),
            14 => {
                // reshape: same element count (flattened, reversed, with a unit dim), or a
                // mismatching / too large shape (the call panics)
                let n: usize = cur.iter().fold(1usize, |a, &b| a.wrapping_mul(b));
                let target: Vec<usize> = match rng.below(8) {
                    0 => vec![n],
                    1 => cur.iter().rev().copied().collect(),
                    2 => {
                        let mut t = vec![1];
                        t.extend(cur.iter().copied());
                        t
                    }
                    3 => vec![n.wrapping_add(1)],
                    4 => vec![5],
                    5 => vec![huge_value(rng), 2],
                    6 if rank >= 2 => {
                        let mut t = cur.clone();
                        let a = t.remove(0);
                        t[0] = t[0].wrapping_mul(a);
                        t
                    }
                    _ => vec![n, 1],
                };
                let ok = !nd && target.iter().fold(1usize, |a, &b| a.wrapping_mul(b)) == n && target.iter().all(|&x| x < (1 << 30));
                ops.push(Op::Reshape(target.clone()));
                if ok {
                    cur = target;
                }
            }
            15 => ops.push(Op::MakeContig),
            _ => {
                let axis = pick_axis(rng, rank, Some(d));
                let mut other = cur.clone();
                let k = if huge { *rng.pick(&[2usize, 3, 4, 5, 8, 9, 1]) } else { rng.usize_below(4) };
                if axis < rank {
                    other[axis] = k;
                }
                match rng.below(16) {
                    0 if rank > 0 => {
                        let j = rng.usize_below(rank);
                        other[j] += 1;
                    }
                    1 if !nd => other.push(1),
                    // (not for empty tensors: appending an empty tensor with a huge outer dim is
                    // accepted and then spends ~forever in `copy_from` iterating empty rows)
                    2 if axis < rank && !cur.iter().any(|&s| s == 0) => other[axis] = huge_value(rng),
                    _ => {}
                }
                if axis < rank && other.len() == rank {
                    cur[axis] = cur[axis].wrapping_add(other[axis]);
                }
                ops.push(Op::Append(axis, other));
            }
        }
    }
    GCase { ovf, nd, shape, strides: if use_strides { Some(strides) } else { None }, len, cap, ops }
}

fn gcase_danger(c: &GCase) -> bool {
    const T: usize = 1 << 24;
    let big = |v: &[usize]| v.iter().any(|&x| x > T);
    big(&c.shape)
        || c.strides.as_ref().map_or(false, |s| big(s))
        || c.ops.iter().any(|o| match o {
            Op::HasCap(_, n) => *n > T,
            Op::Append(_, sh) => big(sh),
            Op::Clip(_, s, e) => *s > T || *e > T,
            Op::RemoveAxis(i) | Op::InsertAxis(i) | Op::Size(i) | Op::Stride(i) => *i > T,
            Op::MoveAxis(f, t) => *f > T || *t > T,
            Op::Reshape(sh) => big(sh),
            Op::MakeContig => false,
        })
}

/// Audit round 2 (open finding): raw storage handles.  `storage_mut()` returns the whole storage
/// of a view (including elements the view's layout does not address), `ViewMutData::split_mut`
/// documents that it does not check disjointness, and `from_storage_and_layout` is safe.
/// Returns (answer, oracle failure).
fn storage_route(route: u32) -> (String, Option<String>) {
    use rten_tensor::NdTensor;
    let r = hcommon::catch(|| match route {
        1 => {
            let mut t = NdTensor::<u32, 1>::from_data([4], vec![0, 1, 2, 3]);
            let (a, b) = t.storage_mut().split_mut(0..4, 0..4);
            let mut va = TensorBase::<_, NdLayout<1>>::from_storage_and_layout(a, NdLayout::from_shape([4]));
            let mut vb = TensorBase::<_, NdLayout<1>>::from_storage_and_layout(b, NdLayout::from_shape([4]));
            // both views are alive here
            let pa = va.get_mut([1]).map(|r| r as *mut u32 as usize);
            let pb = vb.get_mut([1]).map(|r| r as *mut u32 as usize);
            (pa, pb)
        }
        _ => {
            let mut t = NdTensor::<u32, 2>::from_data([2, 3], vec![0, 1, 2, 3, 4, 5]);
            let (mut l, mut r) = t.view_mut().split_at_mut(1, 1);
            // storage ranges of the halves: 0..4 and 1..6
            let sl = l.storage_mut();
            let sr = r.storage_mut();
            let mut va = TensorBase::<_, NdLayout<1>>::from_storage_and_layout(sl, NdLayout::from_shape([4]));
            let mut vb = TensorBase::<_, NdLayout<1>>::from_storage_and_layout(sr, NdLayout::from_shape([5]));
            let pa = va.get_mut([1]).map(|r| r as *mut u32 as usize);
            let pb = vb.get_mut([0]).map(|r| r as *mut u32 as usize);
            (pa, pb)
        }
    });
    match r {
        Ok((Some(pa), Some(pb))) if pa == pb => (
            "alias=1".into(),
            Some(format!("storage handles route {route}: two live mutable views built with safe calls address the same element")),
        ),
        Ok(_) => ("alias=0".into(), None),
        Err(_) => ("panic".into(), None),
    }
}

/// Child process that executes requests read from stdin, one answer line each.
struct Worker {
    child: Child,
    stdin: ChildStdin,
    stdout: BufReader<ChildStdout>,
}

impl Worker {
    fn spawn() -> Worker {
        let exe = std::env::current_exe().unwrap();
        let mut child = Command::new(exe)
            .arg("--child")
            .stdin(Stdio::piped())
            .stdout(Stdio::piped())
            .stderr(Stdio::null())
            .spawn()
            .unwrap();
        let stdin = child.stdin.take().unwrap();
        let stdout = BufReader::new(child.stdout.take().unwrap());
        Worker { child, stdin, stdout }
    }
    /// `None` = the child died while executing the request.
    fn run(&mut self, req: &str) -> Option<String> {
        if writeln!(self.stdin, "{req}").is_err() || self.stdin.flush().is_err() {
            return None;
        }
        let mut line = String::new();
        match self.stdout.read_line(&mut line) {
            Ok(n) if n > 0 && line.ends_with('\n') => Some(line.trim_end_matches('\n').to_string()),
            _ => None,
        }
    }
    fn kill(mut self) {
        drop(self.stdin);
        let _ = self.child.kill();
        let _ = self.child.wait();
    }
}

fn child_main() {
    hcommon::quiet_panics();
    // Exit when the parent goes away (e.g. killed on a timeout while this process spins inside
    // the code under test), so no orphan keeps a core busy.
    let parent = std::os::unix::process::parent_id();
    std::thread::spawn(move || loop {
        std::thread::sleep(std::time::Duration::from_millis(500));
        if std::os::unix::process::parent_id() != parent {
            std::process::exit(3);
        }
    });
    let stdin = std::io::stdin();
    let stdout = std::io::stdout();
    for line in stdin.lock().lines() {
        let Ok(line) = line else { break };
        let (ans, fail) = run_line(&line);
        let mut o = stdout.lock();
        match fail {
            Some(m) => writeln!(o, "{ans}\tPROPFAIL {}", m.replace(['\n', '\t'], " ")).unwrap(),
            None => writeln!(o, "{ans}").unwrap(),
        }
        o.flush().unwrap();
    }
}

// ---------------------------------------------------------------------------------------------
// Generators

const TWO63: usize = 1 << 63;

fn contiguous(shape: &[usize]) -> Vec<usize> {
    let mut st = vec![0usize; shape.len()];
    let mut p = 1usize;
    for d in (0..shape.len()).rev() {
        st[d] = p;
        p = p.wrapping_mul(shape[d]);
    }
    st
}

fn wrapping_mdl(shape: &[usize], strides: &[usize]) -> usize {
    if shape.iter().any(|&s| s == 0) {
        return 0;
    }
    let mut m = 0usize;
    for (s, st) in shape.iter().zip(strides) {
        m = m.wrapping_add((s - 1).wrapping_mul(*st));
    }
    m.wrapping_add(1)
}

fn huge_value(rng: &mut Rng) -> usize {
    const P: &[usize] = &[
        1 << 16, 1 << 31, (1 << 31) + 1, 1 << 32, (1 << 32) + 1, (1 << 32) - 1, 1 << 33, 1 << 40, 1 << 62,
        (1 << 62) + 1, TWO63 - 1, TWO63, TWO63 + 1, usize::MAX, usize::MAX - 1, usize::MAX / 2, usize::MAX / 3,
        usize::MAX / 3 + 1, 3074457345618258603, 6148914691236517206, 4294967311, 2147483659,
    ];
    if rng.chance(1, 6) {
        let sh = 20 + rng.below(44);
        (1usize << sh).wrapping_add(rng.below(5) as usize).wrapping_sub(2)
    } else {
        *rng.pick(P)
    }
}

/// Shapes `[d, (2^64 + k) / d]` whose wrapped product is the small number `k`.
fn wrap_to_small(rng: &mut Rng) -> Option<(Vec<usize>, usize)> {
    let k = rng.below(9) as u128;
    let d = 2 + rng.below(30) as u128;
    let n = (1u128 << 64) + k;
    if n % d != 0 {
        return None;
    }
    let q = n / d;
    if q > u64::MAX as u128 {
        return None;
    }
    Some((vec![d as usize, q as usize], k as usize))
}

/// Slice items for `shape`: per axis an index or a step-1 range in every spelling (positive,
/// negative, open end), in-bounds reversed (`5..2`), empty (`3..3`), out of bounds; rarely a
/// range with step -1 (rejected by `slice_layout`) or more items than dimensions.
fn gen_slice_items(rng: &mut Rng, shape: &[usize]) -> Vec<SI> {
    let rank = shape.len();
    let n_items = if rng.chance(1, 20) { rank + 1 } else if rng.chance(2, 3) { rank } else { rng.usize_below(rank + 1) };
    let mut items = vec![];
    for d in 0..n_items {
        let size = shape.get(d).copied().unwrap_or(2).min(1 << 20) as isize;
        let spell = |rng: &mut Rng, v: isize| -> isize {
            // a position 0..=size written from the front or from the back
            if rng.chance(1, 3) && v >= 0 && v < size { v - size } else { v }
        };
        let pos = |rng: &mut Rng| -> isize {
            match rng.below(40) {
                38 => return isize::MIN + rng.below(2) as isize,
                39 => return isize::MAX - rng.below(2) as isize,
                _ => {}
            }
            match rng.below(8) {
                0 => size + 1 + rng.below(2) as isize,
                1 => -size - 1 - rng.below(2) as isize,
                _ => rng.below(size as u64 + 1) as isize,
            }
        };
        items.push(match rng.below(12) {
            0 | 1 => {
                let i = pos(rng);
                SI::Idx(spell(rng, i))
            }
            2 => SI::Rng(0, None),
            3 => {
                let a = pos(rng);
                SI::Rng(spell(rng, a), None)
            }
            4 => {
                // step -1 is always rejected by slice_layout; its resolution (offset_from_end,
                // which computes `-index - 1`) is C09's subject, so no isize::MIN endpoints here:
                // overflow-checks builds panic on them instead of returning the error
                let lim = 1isize << 20;
                let a = pos(rng).clamp(-lim, lim);
                SI::Neg(a, if rng.chance(1, 2) { None } else { Some(pos(rng).clamp(-lim, lim)) })
            }
            5 | 6 | 7 => {
                // reversed or empty, in bounds
                let a = rng.below(size as u64 + 1) as isize;
                let b = rng.below(a as u64 + 1) as isize;
                SI::Rng(spell(rng, a), Some(spell(rng, b)))
            }
            _ => {
                let a = pos(rng);
                let b = pos(rng);
                SI::Rng(spell(rng, a), Some(spell(rng, b)))
            }
        });
    }
    items
}

/// Every `start..end` pair (both spellings, incl. one step out of bounds) on every axis of two
/// small tensors, through every slicing entry point.
fn slice_sweep(ovf: bool) -> Vec<Case> {
    let mut out = vec![];
    for (shape, nd) in [(vec![5usize], false), (vec![5], true), (vec![2, 3], false), (vec![2, 3], true), (vec![3, 1, 2], false)] {
        let len: usize = shape.iter().product();
        for axis in 0..shape.len() {
            let size = shape[axis] as isize;
            let mut probes = vec![];
            for a in -size - 1..=size + 1 {
                for b in -size - 1..=size + 1 {
                    let mut items: Vec<SI> = (0..axis).map(|_| SI::Rng(0, None)).collect();
                    items.push(SI::Rng(a, Some(b)));
                    if nd {
                        // pad so the static-rank path is taken
                        while items.len() < shape.len() {
                            items.push(SI::Rng(0, None));
                        }
                    }
                    probes.push(Probe::Slice(items));
                }
            }
            for chunk in probes.chunks(12) {
                for ctor in ["tfd", "fsws"] {
                    out.push(Case {
                        ovf, nd, ctor: ctor.into(), shape: shape.clone(),
                        strides: if ctor == "fsws" { Some(contiguous(&shape)) } else { None },
                        len, probes: chunk.to_vec(),
                    });
                }
            }
        }
    }
    out
}

fn small_probes(rng: &mut Rng, shape: &[usize], owned: bool) -> Vec<Probe> {
    let rank = shape.len();
    let mut ps = vec![];
    let n = 1 + rng.usize_below(5);
    for _ in 0..n {
        let idx = |rng: &mut Rng, oob: bool| -> Vec<usize> {
            let mut v: Vec<usize> = shape
                .iter()
                .map(|&s| if s == 0 { 0 } else { rng.usize_below(s) })
                .collect();
            if rng.chance(1, 3) {
                for (i, s) in shape.iter().enumerate() {
                    if *s > 0 && rng.chance(1, 2) {
                        v[i] = s - 1;
                    }
                }
            }
            if oob && rank > 0 {
                let d = rng.usize_below(rank);
                v[d] = match rng.below(5) {
                    0 => shape[d],
                    1 => shape[d].wrapping_add(1),
                    2 => usize::MAX,
                    3 => huge_value(rng),
                    _ => shape[d].wrapping_add(rng.usize_below(4)),
                };
            }
            v
        };
        let oob = rng.chance(1, 4);
        match rng.below(13) {
            10 | 11 | 12 => ps.push(Probe::Slice(gen_slice_items(rng, shape))),
            0 | 1 => ps.push(Probe::Get(idx(rng, oob))),
            2 | 3 => ps.push(if owned { Probe::GetMut(idx(rng, oob)) } else { Probe::Get(idx(rng, oob)) }),
            4 | 5 => ps.push(Probe::Index(idx(rng, oob))),
            6 => {
                if rank > 0 {
                    let axis = if rng.chance(1, 12) { rank } else { rng.usize_below(rank) };
                    let size = shape.get(axis).copied().unwrap_or(1);
                    let mid = if rng.chance(1, 10) { size.wrapping_add(1) } else { rng.usize_below(size.min(1 << 20) + 1) };
                    ps.push(Probe::Split(axis, mid));
                }
            }
            7 => {
                if rank > 0 {
                    let axis = if rng.chance(1, 12) { rank } else { rng.usize_below(rank) };
                    let size = shape.get(axis).copied().unwrap_or(1);
                    let s = rng.usize_below(size.min(1 << 20) + 1);
                    let e = if rng.chance(1, 8) {
                        size.wrapping_add(1)
                    } else if rng.chance(1, 8) {
                        s.saturating_sub(1)
                    } else {
                        s + rng.usize_below(size.min(1 << 20) - s + 1)
                    };
                    ps.push(Probe::SliceAxis(axis, s, e));
                }
            }
            8 => {
                let mut t: Vec<usize> = shape.to_vec();
                for x in t.iter_mut() {
                    if *x == 1 && rng.chance(2, 3) {
                        *x = match rng.below(6) {
                            0 => huge_value(rng),
                            1 => 0,
                            _ => 1 + rng.usize_below(4),
                        };
                    } else if rng.chance(1, 10) {
                        *x = x.wrapping_add(1);
                    }
                }
                ps.push(Probe::Broadcast(t));
            }
            _ => ps.push(Probe::Iter),
        }
    }
    if rank == 0 && rng.chance(1, 2) {
        ps.push(Probe::Get(vec![]));
    }
    ps
}

fn pick_ctor(rng: &mut Rng, with_strides: bool) -> &'static str {
    if with_strides {
        *rng.pick(&["fdws", "fdws", "fsws", "fsalm", "fsalv"])
    } else {
        *rng.pick(&["tfd", "tfd", "fd", "fs"])
    }
}

fn gen_small(rng: &mut Rng, ovf: bool) -> Case {
    let nd = rng.chance(1, 2);
    let rank = if nd { 1 + rng.usize_below(4) } else { rng.usize_below(5) };
    let mut shape: Vec<usize> = (0..rank)
        .map(|_| if rng.chance(1, 14) { 0 } else { 1 + rng.usize_below(5) })
        .collect();
    let with_strides = rng.chance(3, 5);
    let ctor = pick_ctor(rng, with_strides);
    let mut strides = contiguous(&shape.iter().map(|&s| s.max(1)).collect::<Vec<_>>());
    if with_strides {
        match rng.below(7) {
            0 => {}
            1 => {
                let mut perm: Vec<usize> = (0..rank).collect();
                rng.shuffle(&mut perm);
                shape = perm.iter().map(|&i| shape[i]).collect();
                strides = perm.iter().map(|&i| strides[i]).collect();
            }
            2 => {
                for d in 0..rank {
                    if rng.chance(1, 2) && shape[d] > 1 {
                        let step = 1 + rng.usize_below(3);
                        shape[d] = (shape[d] + step - 1) / step;
                        strides[d] *= step;
                    }
                }
            }
            3 => {
                for d in 0..rank {
                    if rng.chance(1, 3) {
                        strides[d] = 0;
                    }
                }
            }
            4 => {
                if rank > 0 {
                    let d = rng.usize_below(rank);
                    strides[d] = (strides[d] as i64 + rng.range_i64(-2, 2)).max(0) as usize;
                }
            }
            5 => {
                for d in 0..rank {
                    strides[d] = rng.usize_below(40);
                }
            }
            _ => {
                // gap: scale all strides
                let k = 1 + rng.usize_below(3);
                for d in 0..rank {
                    strides[d] *= k;
                }
            }
        }
    }
    let exact = wrapping_mdl(&shape, &strides);
    let len = match rng.below(8) {
        0 => exact.saturating_sub(1),
        1 => exact + 1,
        2 => rng.usize_below(exact + 3),
        3 => exact + rng.usize_below(6),
        _ => exact,
    };
    let owned = matches!(ctor, "tfd" | "fd" | "fdws" | "fsalm");
    let probes = if ctor == "fs" { vec![] } else { small_probes(rng, &shape, owned) };
    Case { ovf, nd, ctor: ctor.into(), shape, strides: if with_strides { Some(strides) } else { None }, len, probes }
}

fn gen_huge(rng: &mut Rng, ovf: bool) -> Case {
    let nd = rng.chance(1, 2);
    let with_strides = rng.chance(1, 2);
    let ctor = pick_ctor(rng, with_strides);
    let (mut shape, mut len_hint): (Vec<usize>, Option<usize>) = match rng.below(6) {
        0 => match wrap_to_small(rng) {
            Some((s, k)) => (s, Some(k)),
            None => (vec![1 << 32, 1 << 32], Some(0)),
        },
        1 => (vec![1 << 32, 1 << 32], Some(0)),
        _ => {
            let rank = 1 + rng.usize_below(4);
            let s = (0..rank)
                .map(|_| match rng.below(6) {
                    0 => 0,
                    1 | 2 => 1 + rng.usize_below(4),
                    _ => huge_value(rng),
                })
                .collect();
            (s, None)
        }
    };
    // sprinkle extra unit / zero / small dims and permute
    while shape.len() < 4 && rng.chance(1, 3) {
        let pos = rng.usize_below(shape.len() + 1);
        let v = match rng.below(5) {
            0 => 0,
            1 => 2,
            _ => 1,
        };
        if v != 1 {
            len_hint = None;
        }
        shape.insert(pos, v);
    }
    if rng.chance(1, 3) {
        shape.reverse();
    }
    let mut strides = contiguous(&shape);
    if with_strides {
        match rng.below(5) {
            0 => {}
            1 => {
                for s in strides.iter_mut() {
                    if rng.chance(1, 2) {
                        *s = huge_value(rng);
                    }
                }
            }
            2 => {
                for s in strides.iter_mut() {
                    *s = if rng.chance(1, 2) { 0 } else { rng.usize_below(4) };
                }
            }
            3 => {
                // the [3,2] x [2^63,1] family: (size-1)*stride wraps to 0
                if shape.len() >= 1 {
                    let d = rng.usize_below(shape.len());
                    for (i, s) in shape.iter_mut().enumerate() {
                        if *s > 8 {
                            *s = 1 + rng.usize_below(4);
                        }
                        strides[i] = if i == d { 0 } else { rng.usize_below(3) };
                    }
                    shape[d] = *rng.pick(&[3usize, 5, 2, 9]);
                    strides[d] = match shape[d] {
                        3 => TWO63,
                        5 => 1 << 62,
                        9 => 1 << 61,
                        _ => usize::MAX,
                    };
                    if rng.chance(1, 2) {
                        strides[d] = strides[d].wrapping_add(rng.usize_below(2));
                    }
                    len_hint = None;
                }
            }
            _ => {
                for s in strides.iter_mut() {
                    *s = huge_value(rng);
                }
            }
        }
    }
    let wrapped = wrapping_mdl(&shape, &strides);
    let len = match len_hint {
        Some(k) if rng.chance(3, 4) => k,
        _ => {
            if wrapped <= 64 && rng.chance(3, 4) {
                wrapped
            } else {
                rng.usize_below(9)
            }
        }
    };
    let owned = matches!(ctor, "tfd" | "fd" | "fdws" | "fsalm");
    let mut probes = vec![];
    if ctor != "fs" {
        let rank = shape.len();
        let ones: Vec<usize> = shape.iter().map(|&s| if s > 1 { 1 } else { 0 }).collect();
        let last: Vec<usize> = shape.iter().map(|&s| s.saturating_sub(1)).collect();
        probes.push(Probe::Get(ones.clone()));
        probes.push(if owned { Probe::GetMut(last.clone()) } else { Probe::Get(last.clone()) });
        probes.push(Probe::Index(ones));
        if rng.chance(1, 2) {
            probes.push(Probe::Index(last));
        }
        if rank > 0 {
            let axis = rng.usize_below(rank);
            let size = shape[axis];
            let mid = match rng.below(4) {
                0 => 0,
                1 => size,
                2 => size / 2,
                _ => size.min(1),
            };
            probes.push(Probe::Split(axis, mid));
            let s = size.min(1);
            probes.push(Probe::SliceAxis(axis, s, size));
        }
        if rng.chance(1, 2) {
            probes.push(Probe::Iter);
        }
        if rng.chance(1, 3) {
            probes.push(Probe::Broadcast(shape.clone()));
        }
        probes.extend(small_probes(rng, &shape, owned).into_iter().take(2));
    }
    Case { ovf, nd, ctor: ctor.into(), shape, strides: if with_strides { Some(strides) } else { None }, len, probes }
}

/// Valid small tensor broadcast to a huge shape (view-level overflow of `len`).
fn gen_broadcast_huge(rng: &mut Rng, ovf: bool) -> Case {
    let nd = rng.chance(1, 2);
    let rank = 1 + rng.usize_below(3);
    let shape: Vec<usize> = (0..rank).map(|_| if rng.chance(1, 2) { 1 } else { 1 + rng.usize_below(3) }).collect();
    let len: usize = shape.iter().product();
    let mut target = shape.clone();
    for t in target.iter_mut() {
        if *t == 1 {
            *t = if rng.chance(2, 3) { huge_value(rng) } else { rng.usize_below(3) };
        }
    }
    if !nd && rng.chance(1, 3) {
        target.insert(0, huge_value(rng));
    }
    let probes = vec![Probe::Broadcast(target), Probe::Iter];
    Case { ovf, nd, ctor: (*rng.pick(&["tfd", "fd"])).into(), shape, strides: None, len, probes }
}

fn is_danger(c: &Case) -> bool {
    const T: usize = 1 << 24;
    let big = |v: &[usize]| v.iter().any(|&x| x > T);
    big(&c.shape)
        || c.strides.as_ref().map_or(false, |s| big(s))
        || c.probes.iter().any(|p| match p {
            Probe::Get(i) | Probe::GetMut(i) | Probe::Index(i) | Probe::Broadcast(i) => big(i),
            Probe::Split(_, m) => *m > T,
            Probe::SliceAxis(_, s, e) => *s > T || *e > T,
            Probe::Iter => false,
            // slices always run in the child process (a wrapped size makes every accessor unchecked)
            Probe::Slice(_) => true,
        })
}

fn main() {
    if std::env::args().any(|a| a == "--child") {
        child_main();
        return;
    }
    let args = hcommon::parse_args();
    if std::env::var("C06_LOUD").is_err() {
        hcommon::quiet_panics();
    }
    let ovf = hcommon::catch(|| {
        let x = std::hint::black_box(usize::MAX);
        std::hint::black_box(x + std::hint::black_box(1))
    })
    .is_err();
    let mut out = Out::new(&args.out);
    let mut rng = Rng::new(args.seed);
    out.note(&format!("overflow-checks build: {ovf}"));

    let mut cases: Vec<Case> = vec![];
    // fixed regression cases (the inputs named in the property's design notes)
    for nd in [false, true] {
        for ctor in ["tfd", "fd"] {
            cases.push(Case {
                ovf, nd, ctor: ctor.into(), shape: vec![1 << 32, 1 << 32], strides: None, len: 0,
                probes: vec![Probe::Get(vec![1, 1]), Probe::Index(vec![1, 1]), Probe::Get(vec![0, 0]), Probe::Iter],
            });
        }
        for ctor in ["fdws", "fsws", "fsalm", "fsalv"] {
            cases.push(Case {
                ovf, nd, ctor: ctor.into(), shape: vec![3, 2], strides: Some(vec![TWO63, 1]), len: 2,
                probes: vec![Probe::Get(vec![1, 0]), Probe::Index(vec![1, 1]), Probe::Get(vec![2, 1]), Probe::Split(0, 1)],
            });
            cases.push(Case {
                ovf, nd, ctor: ctor.into(), shape: vec![1 << 32, 1 << 32], strides: Some(vec![0, 0]), len: 1,
                probes: vec![Probe::Get(vec![1, 1]), Probe::SliceAxis(0, 0, 1 << 32), Probe::Iter],
            });
        }
        cases.push(Case {
            ovf, nd, ctor: "tfd".into(), shape: vec![1, 1], strides: None, len: 1,
            probes: vec![Probe::Broadcast(vec![1 << 32, 1 << 32]), Probe::Broadcast(vec![1 << 62, 2]), Probe::Broadcast(vec![3, 2])],
        });
        cases.push(Case {
            ovf, nd, ctor: "fs".into(), shape: vec![0, 1 << 40, 1 << 40], strides: None, len: 0, probes: vec![],
        });
    }
    cases.extend(slice_sweep(ovf));
    let (n_small, n_huge, n_bc) = if args.thorough { (600_000, 60_000, 6_000) } else { (60_000, 6_000, 600) };
    for _ in 0..n_small {
        cases.push(gen_small(&mut rng, ovf));
    }
    for _ in 0..n_huge {
        cases.push(gen_huge(&mut rng, ovf));
    }
    for _ in 0..n_bc {
        cases.push(gen_broadcast_huge(&mut rng, ovf));
    }

    let mut worker: Option<Worker> = None;
    let mut crashes = 0u64;
    for c in &cases {
        let req = fmt_case(c);
        let danger = is_danger(c);
        let (ans, fail) = if danger {
            let w = worker.get_or_insert_with(Worker::spawn);
            match w.run(&req) {
                Some(line) => match line.split_once("\tPROPFAIL ") {
                    Some((a, m)) => (a.to_string(), Some(m.to_string())),
                    None => (line, None),
                },
                None => {
                    crashes += 1;
                    worker.take().unwrap().kill();
                    ("crash".to_string(), Some("the process executing this request died (crash/abort)".to_string()))
                }
            }
        } else {
            run_case(c)
        };
        out.bucket(&format!("ctor_{}", c.ctor));
        out.bucket(if c.nd { "layout_nd" } else { "layout_dyn" });
        out.bucket(if danger { "huge_numbers(child process)" } else { "small_numbers(in process)" });
        let class = ans.split(' ').next().unwrap_or("").to_string();
        out.bucket(&format!("outcome_{class}"));
        for p in &c.probes {
            out.bucket(match p {
                Probe::Get(_) => "probe_get",
                Probe::GetMut(_) => "probe_get_mut",
                Probe::Index(_) => "probe_index",
                Probe::Split(..) => "probe_split",
                Probe::SliceAxis(..) => "probe_slice_axis",
                Probe::Broadcast(_) => "probe_broadcast",
                Probe::Iter => "probe_iter",
                Probe::Slice(items) => {
                    if items.iter().any(|i| matches!(i, SI::Rng(s, Some(e)) if (*s >= 0) == (*e >= 0) && e < s)) {
                        "probe_slice_reversed_range"
                    } else {
                        "probe_slice"
                    }
                }
            });
        }
        let nontrivial = class == "ok" && c.shape.len() >= 2 && c.shape.iter().all(|&s| s > 0) && c.shape.iter().any(|&s| s > 1) && !c.probes.is_empty();
        out.case(&req, &ans, fail.as_deref(), nontrivial);
    }
    // growing / shrinking owned tensors
    let mut gcases: Vec<GCase> = vec![];
    for nd in [false, true] {
        // the witness of C06.T3 for expanded_layout: an empty tensor with a huge stride grows
        gcases.push(GCase {
            ovf, nd, shape: vec![0, 2], strides: Some(vec![TWO63, 1]), len: 0, cap: 8,
            ops: vec![Op::HasCap(0, 3), Op::Append(0, vec![3, 2])],
        });
        gcases.push(GCase {
            ovf, nd, shape: vec![1, 2], strides: Some(vec![1 << 62, 1]), len: 2, cap: 8,
            ops: vec![Op::HasCap(0, 5), Op::Append(0, vec![4, 2])],
        });
        gcases.push(GCase {
            ovf, nd, shape: vec![2, 2], strides: None, len: 4, cap: 4,
            ops: vec![Op::HasCap(0, TWO63 + 1), Op::HasCap(0, 2), Op::HasCap(0, 3)],
        });
    }
    // audit H1: DynLayout axis arguments that index the stride half of shape_and_strides
    for nd in [false, true] {
        gcases.push(GCase { ovf, nd, shape: vec![2, 3], strides: None, len: 6, cap: 6, ops: vec![Op::Clip(2, 0, 1)] });
        gcases.push(GCase { ovf, nd, shape: vec![1, 3, 2], strides: Some(vec![6, 1, 3]), len: 6, cap: 6, ops: vec![Op::RemoveAxis(4)] });
        gcases.push(GCase { ovf, nd, shape: vec![2, 3], strides: None, len: 6, cap: 6, ops: vec![Op::InsertAxis(3)] });
        gcases.push(GCase { ovf, nd, shape: vec![2, 3], strides: None, len: 6, cap: 12, ops: vec![Op::Size(2), Op::Stride(2), Op::Stride(usize::MAX), Op::HasCap(3, 2), Op::Append(2, vec![2, 3]), Op::MoveAxis(0, 2)] });
    }
    // audit round 2: reshape of a non-contiguous tensor to a mismatching shape
    gcases.push(GCase { ovf, nd: false, shape: vec![2, 3], strides: None, len: 6, cap: 6, ops: vec![Op::Clip(1, 0, 1), Op::Reshape(vec![5]), Op::Size(0)] });
    gcases.push(GCase { ovf, nd: false, shape: vec![2, 3], strides: None, len: 6, cap: 6, ops: vec![Op::Clip(1, 0, 2), Op::Reshape(vec![4]), Op::MakeContig, Op::Reshape(vec![2, 2, 1])] });
    let (n_grow, n_grow_huge) = if args.thorough { (200_000, 40_000) } else { (20_000, 4_000) };
    for _ in 0..n_grow {
        gcases.push(gen_grow(&mut rng, ovf, false));
    }
    for _ in 0..n_grow_huge {
        gcases.push(gen_grow(&mut rng, ovf, true));
    }
    for c in &gcases {
        let req = fmt_gcase(c);
        let danger = gcase_danger(c);
        if std::env::var("C06_TRACE").is_ok() {
            eprintln!("{req}");
        }
        let (ans, fail) = if danger {
            let w = worker.get_or_insert_with(Worker::spawn);
            match w.run(&req) {
                Some(line) => match line.split_once("\tPROPFAIL ") {
                    Some((a, m)) => (a.to_string(), Some(m.to_string())),
                    None => (line, None),
                },
                None => {
                    crashes += 1;
                    worker.take().unwrap().kill();
                    ("crash".to_string(), Some("the process executing this request died (crash/abort)".to_string()))
                }
            }
        } else {
            run_gcase(c)
        };
        out.bucket("grow_programs");
        out.bucket(if danger { "huge_numbers(child process)" } else { "small_numbers(in process)" });
        for o in &c.ops {
            out.bucket(match o {
                Op::HasCap(..) => "op_has_capacity",
                Op::Append(..) => "op_append",
                Op::Clip(..) => "op_clip_dim",
                Op::RemoveAxis(..) => "op_remove_axis",
                Op::InsertAxis(..) => "op_insert_axis",
                Op::MoveAxis(..) => "op_move_axis",
                Op::Size(..) | Op::Stride(..) => "op_size_stride",
                Op::Reshape(..) => "op_reshape",
                Op::MakeContig => "op_make_contiguous",
            });
            let rank = c.shape.len();
            let oob_axis = match o {
                Op::HasCap(a, _) | Op::Append(a, _) | Op::Clip(a, _, _) | Op::RemoveAxis(a) | Op::Size(a) | Op::Stride(a) => *a >= rank,
                Op::InsertAxis(a) => *a > rank,
                Op::MoveAxis(f, t) => *f >= rank || *t >= rank,
                Op::Reshape(_) | Op::MakeContig => false,
            };
            if oob_axis {
                out.bucket(if c.nd { "op_axis_out_of_range_nd" } else { "op_axis_out_of_range_dyn" });
            }
        }
        for a in ans.split(' ') {
            if a.starts_with("ok[") {
                out.bucket("grow_op_accepted");
            } else if a.starts_with("err:") {
                out.bucket(&format!("grow_op_{a}"));
            }
        }
        let nontrivial = ans.contains("ok[");
        out.case(&req, &ans, fail.as_deref(), nontrivial);
    }
    // raw storage handles (oracle-only lines: there is no model of storage identity)
    for route in [1u32, 2] {
        let (ans, fail) = storage_route(route);
        out.bucket("storage_handle_routes(oracle only)");
        out.case(&format!("# storage-handles route={route}"), &ans, fail.as_deref(), false);
    }
    if let Some(w) = worker {
        w.kill();
    }
    out.note(&format!("child-process crashes observed: {crashes}"));
    out.finish("random API programs on rten-tensor: constructor (try_from_data, from_data, from_data_with_strides, from_slice_with_strides, from_storage_and_layout after resize_dim, from_shape; NdLayout rank 1-4 and DynLayout rank 0-4) with small shapes (contiguous, permuted, stepped, broadcast, perturbed, arbitrary strides; exact, short, long storage) and huge/overflowing shapes and strides (products wrapping to small numbers, (size-1)*stride wrapping, zero dims mixed with huge dims), followed by probes get/get_mut/Index/IndexMut (in and out of bounds), split_at(_mut), slice_axis(_mut), try_broadcast (incl. huge targets), iter(_mut), try_slice / try_slice_mut with indices and step-1 ranges in every spelling (negative, open, empty, in-bounds reversed, out of bounds; static-rank and dynamic paths; an exhaustive start/end sweep on small tensors) whose result views are checked for storage containment, storage length >= ideal min_data_len and in-storage indexing; plus programs on owned tensors with spare capacity (contiguous / gapped / huge-stride layouts with an empty or unit growth axis): has_capacity (small and huge sizes), append of zero-stride views (matching, mismatching, huge), clip_dim, remove_axis / insert_axis (DynLayout), move_axis, size / stride, in-place reshape (matching, mismatching, too large) and make_contiguous — each with valid axes and, for both layout kinds, axes past the rank (inside and beyond the stride half of DynLayout's array, near usize::MAX); every answer carries the layout as it is afterwards, with the no-alias / in-storage oracle re-evaluated after every operation including panicking ones; non-trivial = accepted, rank>=2, no empty dim, some dim>1, at least one probe; distinct by request text");
}
