//! C08: `may_have_internal_overlap` / `is_contiguous` on the real crate.
//!
//! Request line: `ov <size>,<stride> <size>,<stride> ...` (possibly no dims).
//! Answer: `overlap=<0|1> contig=<0|1>`.
//! Property oracle (on the implementation's own verdict): if the check says
//! "no overlap" then brute-force enumeration of all valid indices must find no
//! two indices with equal offset (only for shapes with ≤ 4096 elements).
//!
//! Completeness oracle (C08.T2, second clause of the property): section (c) builds layouts by
//! applying random chains of real `TensorView` operations (permuted / transposed / move_axis /
//! slice with positive steps and indices / slice_axis / index_axis / split_at / insert_axis /
//! remove_axis / squeezed / merge_axes) to a contiguous tensor.  After every operation the
//! view's own `(shape, strides)` is sent through the same `ov` request (so the model is
//! compared too) and `may_have_internal_overlap` must answer `false`:
//! PROPFAIL `derived layout rejected` otherwise.  `Derived` in `Props/C08.lean` is the proved
//! counterpart; `Props/C08Views.lean` proves `Derived` closed under C09's layout model of these
//! operations, and each whole chain is also replayed through that model (`dv <shape> | op | …`
//! request, answer `dims=<size,stride …> overlap=.. contig=..`).
//!
//! Capacity-expansion oracle (first clause, "accepted … for capacity expansion"): section (d)
//! builds owned tensors with spare capacity whose growth axis has size 0/1 and any stride
//! (`from_data_with_strides`, permutes/transposes of tensors with unit dims, `with_capacity`),
//! then calls `has_capacity(axis, n)` and `append(axis, …)`.  Whenever `has_capacity` answers
//! true or `append` succeeds, the GROWN `(shape, strides)` is sent as an `ov` request and must
//! be accepted by `may_have_internal_overlap` and injective by brute force: PROPFAIL
//! `capacity expansion accepted …` otherwise (Lean: `c08_expansion_checks_grown_layout`).
//!
//! Storage / constructor / conversion family (section (e), clause "accepted … for mutable
//! tensors … or explicit construction"): every explicit constructor (`from_data_with_strides`,
//! `from_slice_with_strides`, `from_storage_and_layout`; dynamic and `NdLayout<2>` variants)
//! over every storage type (`Vec`, `&[T]`, `&mut [T]`, `Cow` borrowed / owned, `Arc<Vec>`),
//! followed by chains of storage-converting methods (`into_cow`, `into_arc`, `into_owned`,
//! `to_tensor`, `as_cow`, `clone`, `to_contiguous`, `reshaped`, `into_shape`,
//! `into_contiguous`).  Request `mk <ctor> <kind> <len> <size,stride …> | <conv> | …`, answer
//! `rej` or `ok <kind> <size,stride …>` (compared with `Model/OverlapCtor.lean`).  Oracles:
//! whatever ends up on MUTABLE storage must pass the overlap check and be injective by brute
//! force; a pair `from_data_with_strides` accepts must not alias (any storage).  The `cov`
//! request lists every tensor-returning method found in `$VERIF_REPO/rten-tensor/src/tensor.rs`;
//! (and, as `mut:<name>`, every `&mut self` method that assigns or mutates `self.layout`); the
//! model answers `all-classified` only if each is in its `apiTable`.  Tensors that end up on
//! `Vec` / `&mut [T]` storage are then pushed through in-place layout mutators and `_mut` view
//! operations (`Reach.viewop`); each resulting mutable layout is an `ov` case that must be
//! accepted and injective.
use hcommon::{Args, Out, Rng};
use rten_tensor::layout::{MutLayout, OverlapPolicy};
use rten_tensor::storage::{CowData, IntoStorage};
use rten_tensor::{
    ArcNdTensor, ArcTensor, CowNdTensor, CowTensor, DynLayout, NdLayout, NdTensor, NdTensorView,
    NdTensorViewMut, TensorBase, TensorViewMut,
};
use std::borrow::Cow;
use std::sync::Arc;
use rten_tensor::prelude::*;
use rten_tensor::verif::{is_contiguous, may_have_internal_overlap};
use rten_tensor::{SliceItem, SliceRange, Tensor, TensorView};
use std::collections::HashSet;

fn brute_injective(shape: &[usize], strides: &[usize]) -> Option<bool> {
    let n: u128 = shape.iter().map(|&s| s as u128).product();
    if n > 4096 {
        return None;
    }
    let mut seen = HashSet::new();
    let mut idx = vec![0usize; shape.len()];
    if n == 0 {
        return Some(true);
    }
    loop {
        let off: u128 = idx.iter().zip(strides).map(|(&i, &s)| i as u128 * s as u128).sum();
        if !seen.insert(off) {
            return Some(false);
        }
        let mut d = shape.len();
        loop {
            if d == 0 {
                return Some(true);
            }
            d -= 1;
            idx[d] += 1;
            if idx[d] < shape[d] {
                break;
            }
            idx[d] = 0;
        }
    }
}

fn one(out: &mut Out, shape: &[usize], strides: &[usize]) {
    one_ex(out, shape, strides, Want::Nothing)
}

/// What the property additionally demands of a layout.
#[derive(Clone, Copy)]
enum Want<'a> {
    Nothing,
    /// result of real view operations on a contiguous tensor (chain text): must be accepted
    Derived(&'a str),
    /// layout that `has_capacity` / `append` of an owned tensor accepted (context text): must be
    /// accepted by the overlap check and alias-free
    Expanded(&'a str),
    /// layout of a tensor / view on MUTABLE storage reached by view operations or in-place layout
    /// mutations (context text): must be accepted and alias-free
    Mutable(&'a str),
}

fn one_ex(out: &mut Out, shape: &[usize], strides: &[usize], want: Want) {
    let derived = matches!(want, Want::Derived(_)).then_some(());
    let req = format!(
        "ov {}",
        hcommon::join(shape.iter().zip(strides).map(|(a, b)| format!("{a},{b}")), " ")
    );
    let res = hcommon::catch(|| {
        (
            may_have_internal_overlap(shape, strides),
            is_contiguous(&shape, &strides),
        )
    });
    let (ans, fail) = match res {
        Ok((ov, c)) => {
            let mut fail = None;
            if !ov {
                if let Some(false) = brute_injective(shape, strides) {
                    fail = Some("accepted layout maps two valid indices to one offset".to_string());
                }
            } else if let Want::Derived(chain) = want {
                fail = Some(format!("derived layout rejected: contiguous {chain}"));
            }
            if let Want::Mutable(ctx) = want {
                let inj = brute_injective(shape, strides);
                if ov || inj == Some(false) {
                    fail = Some(format!(
                        "mutable tensor/view with a layout that {}: {ctx}",
                        if inj == Some(false) { "maps two valid indices to one offset" } else { "the overlap check rejects" }
                    ));
                }
                out.bucket("mutop_layouts");
            }
            if let Want::Expanded(ctx) = want {
                let inj = brute_injective(shape, strides);
                if ov || inj == Some(false) {
                    fail = Some(format!(
                        "capacity expansion accepted a layout that {}{}: {ctx}",
                        if ov { "the overlap check rejects" } else { "aliases" },
                        if ov && inj == Some(false) { " and in which two valid indices share an offset" } else { "" }
                    ));
                }
                out.bucket(if ov { "expand_grown_rejected" } else { "expand_grown_accepted" });
            }
            if derived.is_some() {
                out.bucket(if shape.contains(&0) {
                    "derived_empty"
                } else if c {
                    "derived_contig"
                } else {
                    "derived_noncontig"
                });
            }
            (format!("overlap={} contig={}", ov as u8, c as u8), fail)
        }
        Err(m) => (format!("panic {m}"), None),
    };
    let fail = fail.as_deref();
    let nontrivial = shape.len() >= 2 && shape.iter().all(|&s| s > 0) && shape.iter().any(|&s| s > 1);
    out.bucket(&format!("rank{}", shape.len()));
    out.bucket(if ans.starts_with("overlap=1") { "verdict_overlap" } else { "verdict_ok" });
    out.case(&req, &ans, fail, nontrivial);
}

/// One random chain of view operations on a contiguous tensor; every intermediate view is a
/// case.  Operations are generated valid for the current shape (an `Err`/skipped op is
/// counted in `derived_op_skipped`).
fn derived_chain(out: &mut Out, rng: &mut Rng, thorough: bool) {
    let rank = if rng.chance(1, 10) {
        rng.usize_below(2)
    } else {
        2 + rng.usize_below(if thorough { 5 } else { 4 })
    };
    let max_size = match rank {
        0..=3 => 9,
        4 => 6,
        5 => 5,
        _ => 4,
    };
    let shape: Vec<usize> = (0..rank)
        .map(|_| {
            if rng.chance(1, 24) {
                0
            } else if rng.chance(1, 8) {
                1
            } else {
                1 + rng.usize_below(max_size)
            }
        })
        .collect();
    let t = Tensor::<u8>::zeros(shape.as_slice());
    let mut v: TensorView<u8> = t.view();
    let mut chain = if shape.is_empty() { "-".to_string() } else { hcommon::join(shape.iter(), ",") };
    one_ex(out, v.shape().as_ref(), v.strides().as_ref(), Want::Derived(&chain));
    let n_ops = 1 + rng.usize_below(if thorough { 10 } else { 6 });
    for k in 0..n_ops {
        let nd = v.ndim();
        let sh: Vec<usize> = v.shape().to_vec();
        let op = rng.below(14);
        let (name, text): (&str, String) = match op {
            0 | 11 if nd > 0 => {
                let mut perm: Vec<usize> = (0..nd).collect();
                rng.shuffle(&mut perm);
                v = v.permuted(perm.as_slice());
                ("perm", format!("perm {}", hcommon::join(perm.iter(), ",")))
            }
            1 => {
                v = v.transposed();
                ("tr", "tr".into())
            }
            2 if nd > 0 => {
                let (a, b) = (rng.usize_below(nd), rng.usize_below(nd));
                v.move_axis(a, b);
                ("mv", format!("mv {a} {b}"))
            }
            3 | 4 | 12 | 13 if nd > 0 => {
                // slice a prefix of the axes with ranges (positive steps) and indices
                let n_items = 1 + rng.usize_below(nd);
                let mut items = Vec::new();
                let mut txt = String::from("sl");
                for d in 0..n_items {
                    let size = sh[d];
                    if size > 0 && rng.chance(1, 5) {
                        let i = rng.usize_below(size) as isize;
                        let i = if rng.chance(1, 3) { i - size as isize } else { i };
                        items.push(SliceItem::Index(i));
                        txt += &format!(" i:{i}");
                    } else {
                        let (start, end) = pick_range(rng, size);
                        let step = if rng.chance(1, 3) { 1 } else { 1 + rng.usize_below(4) } as isize;
                        let (mut s0, mut e0) = (start as isize, Some(end as isize));
                        if rng.chance(1, 4) && start < size {
                            s0 -= size as isize; // negative (from the end) spelling of the same start
                        }
                        if rng.chance(1, 4) {
                            e0 = if end == size { None } else { Some(end as isize - size as isize) };
                        }
                        items.push(SliceItem::Range(SliceRange::new(s0, e0, step)));
                        txt += &format!(" r:{s0}:{}:{step}", e0.map(|e| e.to_string()).unwrap_or("_".into()));
                    }
                }
                match v.try_slice(items.as_slice()) {
                    Ok(nv) => {
                        v = nv;
                        ("slice", txt)
                    }
                    Err(_) => ("skipped", String::new()),
                }
            }
            5 if nd > 0 => {
                let a = rng.usize_below(nd);
                let (s0, e0) = pick_range(rng, sh[a]);
                v = v.slice_axis(a, s0..e0);
                ("slice_axis", format!("sa {a} {s0} {e0}"))
            }
            6 if nd > 0 => {
                let a = rng.usize_below(nd);
                if sh[a] == 0 {
                    ("skipped", String::new())
                } else {
                    let i = rng.usize_below(sh[a]);
                    v = v.index_axis(a, i);
                    ("index_axis", format!("ix {a} {i}"))
                }
            }
            7 if nd > 0 => {
                let a = rng.usize_below(nd);
                let mid = if sh[a] >= 2 && !rng.chance(1, 8) {
                    1 + rng.usize_below(sh[a] - 1)
                } else {
                    rng.usize_below(sh[a] + 1)
                };
                let (l, r) = v.split_at(a, mid);
                let right = rng.chance(1, 2);
                v = if right { r } else { l };
                ("split_at", format!("sp{} {a} {mid}", if right { "r" } else { "l" }))
            }
            8 => {
                let a = rng.usize_below(nd + 1);
                v.insert_axis(a);
                ("insert_axis", format!("ia {a}"))
            }
            9 => {
                let units: Vec<usize> = (0..nd).filter(|&d| sh[d] == 1).collect();
                if units.is_empty() {
                    ("skipped", String::new())
                } else if rng.chance(1, 3) {
                    v = v.squeezed();
                    ("squeezed", "sq".into())
                } else {
                    let a = *rng.pick(&units);
                    v.remove_axis(a);
                    ("remove_axis", format!("ra {a}"))
                }
            }
            10 => {
                v.merge_axes();
                ("merge_axes", "ma".into())
            }
            _ => ("skipped", String::new()),
        };
        out.bucket(&format!("derived_op_{name}"));
        if name == "skipped" {
            continue;
        }
        chain += " | ";
        chain += &text;
        out.bucket(&format!("derived_step{}", (k + 1).min(9)));
        one_ex(out, v.shape().as_ref(), v.strides().as_ref(), Want::Derived(&chain));
        if v.shape().contains(&0) && !rng.chance(1, 4) {
            break; // an empty view stays empty; only sometimes keep going
        }
    }
    // the whole chain replayed through C09's layout model (`dv` request): the model must
    // arrive at the same (size, stride) list and verdict as the real view operations
    let (sh, st): (Vec<usize>, Vec<usize>) = (v.shape().to_vec(), v.strides().to_vec());
    let ov = may_have_internal_overlap(sh.as_slice(), st.as_slice());
    let c = is_contiguous(&sh.as_slice(), &st.as_slice());
    let ans = format!(
        "dims={} overlap={} contig={}",
        hcommon::join(sh.iter().zip(&st).map(|(a, b)| format!("{a},{b}")), " "),
        ov as u8,
        c as u8
    );
    out.bucket("derived_chain_model_replay");
    out.case(&format!("dv {chain}"), &ans, None, sh.len() >= 2 && !c && !sh.contains(&0));
}

/// `start..end` within `0..size`, non-empty 7 times out of 8 when possible.
fn pick_range(rng: &mut Rng, size: usize) -> (usize, usize) {
    if size > 0 && !rng.chance(1, 8) {
        let start = rng.usize_below(size);
        (start, start + 1 + rng.usize_below(size - start))
    } else {
        let start = rng.usize_below(size + 1);
        (start, start + rng.usize_below(size - start + 1))
    }
}

fn list(xs: &[usize]) -> String {
    format!("[{}]", hcommon::join(xs.iter(), ","))
}

/// One owned tensor with spare capacity + growth probes.
fn expansion_case(out: &mut Out, rng: &mut Rng, thorough: bool) {
    let rank = 1 + rng.usize_below(if thorough { 5 } else { 4 });
    let axis = rng.usize_below(rank);
    let ctor = rng.below(3);
    let spare = *rng.pick(&[0usize, 1, 2, 3, 5, 8, 16, 40, 200]);
    let mut ctx;
    // -- build ------------------------------------------------------------------------------
    let built: Result<Tensor<u32>, String> = match ctor {
        0 => {
            // from_data_with_strides: growth axis of size 0/1 with an arbitrary stride; the other
            // dims contiguous / permuted / stepped (so the layout itself is legal).
            let mut shape: Vec<usize> = (0..rank).map(|_| 1 + rng.usize_below(4)).collect();
            shape[axis] = rng.usize_below(2);
            let mut order: Vec<usize> = (0..rank).filter(|&d| d != axis).collect();
            if rng.chance(1, 2) {
                rng.shuffle(&mut order);
            }
            let mut strides = vec![0usize; rank];
            let mut p = 1usize;
            for &d in order.iter().rev() {
                let step = if rng.chance(1, 4) { 1 + rng.usize_below(3) } else { 1 };
                strides[d] = p * step;
                p = strides[d] * shape[d];
            }
            strides[axis] = match rng.below(6) {
                0 => 0,
                1 => 1,
                2 => p,                              // dominating: steps over everything
                3 => p.saturating_sub(1),            // just short of dominating
                4 => *rng.pick(&strides),            // equal to another stride
                _ => rng.usize_below(2 * p + 2),
            };
            let min_len = if shape.contains(&0) {
                0
            } else {
                1 + shape.iter().zip(&strides).map(|(&n, &st)| (n - 1) * st).sum::<usize>()
            };
            let len = min_len + if rng.chance(1, 4) { rng.usize_below(3) } else { 0 };
            let mut v: Vec<u32> = Vec::with_capacity(len + spare);
            v.extend(0..len as u32);
            ctx = format!("from_data_with_strides({},{}) len={len} cap={}", list(&shape), list(&strides), v.capacity());
            Tensor::from_data_with_strides(shape.as_slice(), v, strides.as_slice()).map_err(|e| format!("{e:?}"))
        }
        1 => {
            // from_data with unit dims, then permute / transpose / move_axis: the unit dims keep
            // row-major strides that no longer step over the dims now inside them.
            let mut shape: Vec<usize> = (0..rank)
                .map(|_| if rng.chance(1, 3) { 1 } else { 1 + rng.usize_below(4) })
                .collect();
            shape[rng.usize_below(rank)] = 1;
            let len: usize = shape.iter().product();
            let mut v: Vec<u32> = Vec::with_capacity(len + spare);
            v.extend(0..len as u32);
            let cap = v.capacity();
            let mut t = Tensor::from_data(shape.as_slice(), v);
            match rng.below(3) {
                0 => {
                    t.transpose();
                    ctx = format!("from_data({}) cap={cap} transpose", list(&shape));
                }
                1 => {
                    let mut perm: Vec<usize> = (0..rank).collect();
                    rng.shuffle(&mut perm);
                    t.permute(perm.as_slice());
                    ctx = format!("from_data({}) cap={cap} permute{perm:?}", list(&shape));
                }
                _ => {
                    let (a, b) = (rng.usize_below(rank), rng.usize_below(rank));
                    t.move_axis(a, b);
                    ctx = format!("from_data({}) cap={cap} move_axis({a},{b})", list(&shape));
                }
            }
            Ok(t)
        }
        _ => {
            // with_capacity(shape, expand_dim), optionally permuted afterwards
            let shape: Vec<usize> = (0..rank)
                .map(|_| if rng.chance(1, 4) { 1 } else { 1 + rng.usize_below(4) })
                .collect();
            let dim = rng.usize_below(rank);
            let mut t = Tensor::<u32>::with_capacity(shape.as_slice(), dim);
            ctx = format!("with_capacity({},{dim})", list(&shape));
            if rng.chance(1, 2) {
                let mut perm: Vec<usize> = (0..rank).collect();
                rng.shuffle(&mut perm);
                t.permute(perm.as_slice());
                ctx += &format!(" permute{perm:?}");
            }
            Ok(t)
        }
    };
    out.bucket(["expand_ctor_fdws", "expand_ctor_unitperm", "expand_ctor_withcap"][ctor as usize]);
    let mut t = match built {
        Ok(t) => t,
        Err(_) => {
            out.bucket("expand_ctor_rejected");
            return;
        }
    };
    // the starting layout is an accepted layout too
    one(out, t.shape().as_ref(), t.strides().as_ref());
    // -- probe ------------------------------------------------------------------------------
    // grow along a size-0/1 axis when there is one (3 times out of 4), else any axis
    let small: Vec<usize> = (0..rank).filter(|&d| t.size(d) <= 1).collect();
    let n_probes = 1 + rng.usize_below(3);
    for _ in 0..n_probes {
        let axis = if !small.is_empty() && !rng.chance(1, 4) { *rng.pick(&small) } else { rng.usize_below(rank) };
        let shape: Vec<usize> = t.shape().to_vec();
        let strides: Vec<usize> = t.strides().to_vec();
        let new_size = shape[axis] + rng.usize_below(4) + rng.usize_below(2);
        let mut grown = shape.clone();
        grown[axis] = new_size;
        {
            // would the grown layout be legal at all? (independent of the capacity)
            let mut two = shape.clone();
            two[axis] = two[axis].max(2);
            out.bucket(if may_have_internal_overlap(two.as_slice(), strides.as_slice()) {
                "expand_axis_nondominating"
            } else {
                "expand_axis_dominating"
            });
        }
        let hc = t.has_capacity(axis, new_size);
        out.bucket(if hc { "expand_hc_true" } else { "expand_hc_false" });
        if hc {
            let c = format!("{ctx} | has_capacity({axis},{new_size}) = true");
            one_ex(out, &grown, &strides, Want::Expanded(&c));
        }
        if rng.chance(1, 2) {
            // append a zero-stride view of matching shape with `k` entries along `axis`
            let k = new_size - shape[axis];
            let mut oshape = shape.clone();
            oshape[axis] = k;
            let zeros = vec![0usize; rank];
            let cell = [7u32];
            let other = TensorView::from_slice_with_strides(oshape.as_slice(), &cell[..], zeros.as_slice()).unwrap();
            match t.append(axis, &other) {
                Ok(()) => {
                    out.bucket("expand_append_ok");
                    ctx += &format!(" | append({axis},+{k})");
                    let (sh, st): (Vec<usize>, Vec<usize>) = (t.shape().to_vec(), t.strides().to_vec());
                    let c = format!("{ctx} succeeded");
                    one_ex(out, &sh, &st, Want::Expanded(&c));
                    if !hc {
                        out.case("# expansion", "append-ok", Some(&format!("append succeeded although has_capacity said false: {c}")), false);
                    }
                }
                Err(_) => {
                    out.bucket("expand_append_err");
                    if hc {
                        out.case("# expansion", "append-err", Some(&format!("append failed although has_capacity({axis},{new_size}) said true: {ctx}")), false);
                    }
                }
            }
        }
    }
}

// ---------------------------------------------------------------- storage × ctor × conversion

enum AnyT<'a> {
    Vec(Tensor<u32>),
    View(TensorView<'a, u32>),
    ViewMut(TensorViewMut<'a, u32>),
    /// `true` = `CowData::Owned`
    Cow(CowTensor<'a, u32>, bool),
    Arc(ArcTensor<u32>),
}

impl AnyT<'_> {
    fn kind(&self) -> &'static str {
        match self {
            AnyT::Vec(_) => "vec",
            AnyT::View(_) => "view",
            AnyT::ViewMut(_) => "viewmut",
            AnyT::Cow(_, false) => "cowb",
            AnyT::Cow(_, true) => "cowo",
            AnyT::Arc(_) => "arc",
        }
    }
    fn mutable(&self) -> bool {
        matches!(self, AnyT::Vec(_) | AnyT::ViewMut(_) | AnyT::Arc(_))
    }
    fn dims(&self) -> (Vec<usize>, Vec<usize>) {
        match self {
            AnyT::Vec(t) => (t.shape().to_vec(), t.strides().to_vec()),
            AnyT::View(t) => (t.shape().to_vec(), t.strides().to_vec()),
            AnyT::ViewMut(t) => (t.shape().to_vec(), t.strides().to_vec()),
            AnyT::Cow(t, _) => (t.shape().to_vec(), t.strides().to_vec()),
            AnyT::Arc(t) => (t.shape().to_vec(), t.strides().to_vec()),
        }
    }
}

const KINDS: [&str; 6] = ["vec", "view", "viewmut", "cowb", "cowo", "arc"];

/// Run one explicit constructor.  `Err(())` = rejected (`Err(..)` or panic).
fn build<'a>(
    ctor: &str,
    kind: &str,
    nd: bool,
    shape: &[usize],
    strides: &[usize],
    data: Vec<u32>,
    buf: &'a [u32],
    bufm: &'a mut [u32],
) -> Result<AnyT<'a>, ()> {
    let len = data.len();
    let (sh2, st2) = if nd { ([shape[0], shape[1]], [strides[0], strides[1]]) } else { ([0, 0], [0, 0]) };
    let r = hcommon::catch(move || -> Result<AnyT<'a>, ()> {
        macro_rules! ok {
            ($e:expr) => {
                $e.map_err(|_| ())?
            };
        }
        Ok(match (ctor, kind, nd) {
            // ---- from_data_with_strides, dynamic rank
            ("fdws", "vec", false) => AnyT::Vec(ok!(Tensor::from_data_with_strides(shape, data, strides))),
            ("fdws", "view", false) => AnyT::View(ok!(TensorView::from_data_with_strides(shape, &buf[..len], strides))),
            ("fdws", "viewmut", false) => {
                AnyT::ViewMut(ok!(TensorViewMut::from_data_with_strides(shape, &mut bufm[..len], strides)))
            }
            ("fdws", "cowb", false) => {
                AnyT::Cow(ok!(CowTensor::from_data_with_strides(shape, Cow::Borrowed(&buf[..len]), strides)), false)
            }
            ("fdws", "cowo", false) => {
                let c: Cow<'a, [u32]> = Cow::Owned(data);
                AnyT::Cow(ok!(CowTensor::from_data_with_strides(shape, c, strides)), true)
            }
            ("fdws", "arc", false) => AnyT::Arc(ok!(ArcTensor::from_data_with_strides(shape, Arc::new(data), strides))),
            // ---- from_data_with_strides, NdLayout<2>
            ("fdws", "vec", true) => AnyT::Vec(ok!(NdTensor::<u32, 2>::from_data_with_strides(sh2, data, st2)).into_dyn()),
            ("fdws", "view", true) => {
                AnyT::View(ok!(NdTensorView::<u32, 2>::from_data_with_strides(sh2, &buf[..len], st2)).into_dyn())
            }
            ("fdws", "viewmut", true) => {
                AnyT::ViewMut(ok!(NdTensorViewMut::<u32, 2>::from_data_with_strides(sh2, &mut bufm[..len], st2)).into_dyn())
            }
            ("fdws", "cowb", true) => AnyT::Cow(
                ok!(CowNdTensor::<u32, 2>::from_data_with_strides(sh2, Cow::Borrowed(&buf[..len]), st2)).into_dyn(),
                false,
            ),
            ("fdws", "cowo", true) => {
                let c: Cow<'a, [u32]> = Cow::Owned(data);
                AnyT::Cow(ok!(CowNdTensor::<u32, 2>::from_data_with_strides(sh2, c, st2)).into_dyn(), true)
            }
            ("fdws", "arc", true) => {
                AnyT::Arc(ok!(ArcNdTensor::<u32, 2>::from_data_with_strides(sh2, Arc::new(data), st2)).into_dyn())
            }
            // ---- from_slice_with_strides (views only)
            ("fsws", "view", false) => AnyT::View(ok!(TensorView::from_slice_with_strides(shape, &buf[..len], strides))),
            ("fsws", "view", true) => {
                AnyT::View(ok!(NdTensorView::<u32, 2>::from_slice_with_strides(sh2, &buf[..len], st2)).into_dyn())
            }
            // ---- from_storage_and_layout (layout built with AllowOverlap)
            ("fsl", k, false) => {
                let l = ok!(DynLayout::from_shape_and_strides(shape, strides, OverlapPolicy::AllowOverlap));
                match k {
                    "vec" => AnyT::Vec(TensorBase::from_storage_and_layout(data, l)),
                    "view" => AnyT::View(TensorBase::from_storage_and_layout((&buf[..len]).into_storage(), l)),
                    "viewmut" => AnyT::ViewMut(TensorBase::from_storage_and_layout((&mut bufm[..len]).into_storage(), l)),
                    "cowb" => AnyT::Cow(
                        TensorBase::from_storage_and_layout(CowData::Borrowed((&buf[..len]).into_storage()), l),
                        false,
                    ),
                    "cowo" => AnyT::Cow(TensorBase::from_storage_and_layout(CowData::Owned(data), l), true),
                    _ => AnyT::Arc(TensorBase::from_storage_and_layout(Arc::new(data), l)),
                }
            }
            ("fsl", k, true) => {
                let l = ok!(NdLayout::<2>::from_shape_and_strides(sh2, st2, OverlapPolicy::AllowOverlap));
                match k {
                    "vec" => AnyT::Vec(TensorBase::from_storage_and_layout(data, l).into_dyn()),
                    "view" => AnyT::View(TensorBase::from_storage_and_layout((&buf[..len]).into_storage(), l).into_dyn()),
                    "viewmut" => {
                        AnyT::ViewMut(TensorBase::from_storage_and_layout((&mut bufm[..len]).into_storage(), l).into_dyn())
                    }
                    "cowb" => AnyT::Cow(
                        TensorBase::from_storage_and_layout(CowData::Borrowed((&buf[..len]).into_storage()), l).into_dyn(),
                        false,
                    ),
                    "cowo" => AnyT::Cow(TensorBase::from_storage_and_layout(CowData::Owned(data), l).into_dyn(), true),
                    _ => AnyT::Arc(TensorBase::from_storage_and_layout(Arc::new(data), l).into_dyn()),
                }
            }
            _ => return Err(()),
        })
    });
    match r {
        Ok(x) => x,
        Err(_) => Err(()), // panic (failed assertion in from_storage_and_layout)
    }
}

/// Conversions applicable to a storage kind (must match `OverlapCtor.convert`).
fn convs_for(kind: &str) -> &'static [&'static str] {
    match kind {
        "vec" => &[
            "into_cow", "into_arc", "to_tensor", "clone", "into_shape", "into_contiguous", "into_dyn", "into_permuted",
        ],
        "view" => &["to_tensor", "as_cow", "clone", "to_contiguous", "reshaped", "into_dyn", "into_permuted"],
        "viewmut" => &["to_tensor", "into_dyn", "into_permuted"],
        "cowb" | "cowo" => &["into_owned", "to_tensor", "into_dyn", "into_permuted"],
        _ => &["to_tensor", "clone", "into_dyn", "into_permuted"],
    }
}

fn convert<'a>(t: AnyT<'a>, conv: &str) -> AnyT<'a> {
    match (conv, t) {
        ("into_cow", AnyT::Vec(t)) => AnyT::Cow(t.into_cow(), true),
        ("into_arc", AnyT::Vec(t)) => AnyT::Arc(t.into_arc()),
        ("into_owned", AnyT::Cow(t, _)) => AnyT::Vec(t.into_owned()),
        ("to_tensor", AnyT::Vec(t)) => AnyT::Vec(t.to_tensor()),
        ("to_tensor", AnyT::View(t)) => AnyT::Vec(t.to_tensor()),
        ("to_tensor", AnyT::ViewMut(t)) => AnyT::Vec(t.to_tensor()),
        ("to_tensor", AnyT::Cow(t, _)) => AnyT::Vec(t.to_tensor()),
        ("to_tensor", AnyT::Arc(t)) => AnyT::Vec(t.to_tensor()),
        ("as_cow", AnyT::View(t)) => AnyT::Cow(t.as_cow(), false),
        ("clone", AnyT::Vec(t)) => AnyT::Vec(t.clone()),
        ("clone", AnyT::View(t)) => AnyT::View(t.clone()),
        ("clone", AnyT::Arc(t)) => AnyT::Arc(t.clone()),
        ("to_contiguous", AnyT::View(t)) => {
            let c = t.to_contiguous().into_inner();
            let owned = c.data_ptr() != t.data_ptr();
            AnyT::Cow(c, owned)
        }
        ("reshaped", AnyT::View(t)) => {
            let shape = t.shape().to_vec();
            let c = t.reshaped(shape.as_slice());
            let owned = c.data_ptr() != t.data_ptr();
            AnyT::Cow(c, owned)
        }
        ("into_shape", AnyT::Vec(t)) => {
            let shape = t.shape().to_vec();
            AnyT::Vec(t.into_shape(shape.as_slice()))
        }
        ("into_contiguous", AnyT::Vec(t)) => AnyT::Vec(t.into_contiguous().into_inner()),
        ("into_dyn", AnyT::Vec(t)) => AnyT::Vec(t.into_dyn()),
        ("into_dyn", AnyT::View(t)) => AnyT::View(t.into_dyn()),
        ("into_dyn", AnyT::ViewMut(t)) => AnyT::ViewMut(t.into_dyn()),
        ("into_dyn", AnyT::Cow(t, o)) => AnyT::Cow(t.into_dyn(), o),
        ("into_dyn", AnyT::Arc(t)) => AnyT::Arc(t.into_dyn()),
        ("into_permuted", t) => {
            let n = t.dims().0.len();
            let rev: Vec<usize> = (0..n).rev().collect();
            match t {
                AnyT::Vec(t) => AnyT::Vec(t.into_permuted(rev.as_slice())),
                AnyT::View(t) => AnyT::View(t.into_permuted(rev.as_slice())),
                AnyT::ViewMut(t) => AnyT::ViewMut(t.into_permuted(rev.as_slice())),
                AnyT::Cow(t, o) => AnyT::Cow(t.into_permuted(rev.as_slice()), o),
                AnyT::Arc(t) => AnyT::Arc(t.into_permuted(rev.as_slice())),
            }
        }
        (c, t) => panic!("conversion {c} not applicable to {}", t.kind()),
    }
}

fn dims_text(shape: &[usize], strides: &[usize]) -> String {
    hcommon::join(shape.iter().zip(strides).map(|(a, b)| format!("{a},{b}")), " ")
}

/// Property oracle for one tensor on the path.
fn storage_oracle(t: &AnyT, path: &str, fdws_accepted: bool) -> Option<String> {
    let (sh, st) = t.dims();
    let ov = may_have_internal_overlap(sh.as_slice(), st.as_slice());
    let inj = brute_injective(&sh, &st);
    if t.mutable() && (ov || inj == Some(false)) {
        return Some(format!(
            "mutable tensor ({}) with a layout that {}: {path} -> [{}]",
            t.kind(),
            if inj == Some(false) { "maps two valid indices to one offset" } else { "the overlap check rejects" },
            dims_text(&sh, &st)
        ));
    }
    if fdws_accepted && (ov || inj == Some(false)) {
        return Some(format!(
            "from_data_with_strides accepted an overlapping shape/strides pair on {} storage: {path}",
            t.kind()
        ));
    }
    None
}

fn storage_case(out: &mut Out, rng: &mut Rng) {
    let nd = rng.chance(1, 3);
    let rank = if nd { 2 } else { 1 + rng.usize_below(3) };
    let shape: Vec<usize> = (0..rank).map(|_| 1 + rng.usize_below(4)).collect();
    // strides: contiguous / permuted / stepped / broadcast / duplicated / arbitrary
    let mut strides = vec![0usize; rank];
    let mut p = 1usize;
    for d in (0..rank).rev() {
        strides[d] = p;
        p *= shape[d];
    }
    let class = rng.below(6);
    match class {
        0 => {}
        1 => {
            let mut perm: Vec<usize> = (0..rank).collect();
            rng.shuffle(&mut perm);
            let s0 = strides.clone();
            for d in 0..rank {
                strides[d] = s0[perm[d]];
            }
            // sizes stay put, so this may or may not overlap
        }
        2 => {
            let k = 1 + rng.usize_below(3);
            for s in strides.iter_mut() {
                *s *= k;
            }
        }
        3 => {
            let d = rng.usize_below(rank);
            strides[d] = 0;
        }
        4 => {
            let d = rng.usize_below(rank);
            strides[d] = strides[rng.usize_below(rank)];
        }
        _ => {
            for s in strides.iter_mut() {
                *s = rng.usize_below(8);
            }
        }
    }
    out.bucket(["stor_contig", "stor_permuted", "stor_stepped", "stor_broadcast", "stor_dup", "stor_arbitrary"][class as usize]);
    let min_len = 1 + shape.iter().zip(&strides).map(|(&n, &st)| (n - 1) * st).sum::<usize>();
    let len = if rng.chance(1, 12) { min_len - 1 } else { min_len + rng.usize_below(3) };
    let ctor = *rng.pick(&["fdws", "fdws", "fsl", "fsl", "fsws"]);
    let kind = if ctor == "fsws" { "view" } else { *rng.pick(&KINDS) };
    let data: Vec<u32> = (0..len as u32).collect();
    let buf: Vec<u32> = (0..len as u32).collect();
    let mut bufm: Vec<u32> = (0..len as u32).collect();
    let head = format!(
        "mk {ctor}{} {kind} {len} {}",
        if nd { "_nd" } else { "" },
        dims_text(&shape, &strides)
    );
    out.bucket(&format!("stor_ctor_{ctor}_{kind}"));
    let overlapping = may_have_internal_overlap(shape.as_slice(), strides.as_slice());
    let built = build(ctor, kind, nd, &shape, &strides, data, &buf, &mut bufm);
    let mut t = match built {
        Err(()) => {
            out.bucket(if overlapping { "stor_rejected_overlapping" } else { "stor_rejected_other" });
            out.case(&head, "rej", None, false);
            return;
        }
        Ok(t) => t,
    };
    out.bucket(if overlapping { "stor_accepted_overlapping" } else { "stor_accepted_clean" });
    let mut req = head.clone();
    let mut fail = storage_oracle(&t, &req, ctor == "fdws");
    let n_conv = rng.usize_below(5);
    for _ in 0..n_conv {
        let cs = convs_for(t.kind());
        let c = *rng.pick(cs);
        t = convert(t, c);
        req += " | ";
        req += c;
        out.bucket(&format!("stor_conv_{c}"));
        if fail.is_none() {
            fail = storage_oracle(&t, &req, false);
        }
    }
    if t.mutable() {
        out.bucket("stor_final_mutable");
    }
    let (sh, st) = t.dims();
    let ans = format!("ok {} {}", t.kind(), dims_text(&sh, &st));
    out.case(&req, &ans, fail.as_deref(), overlapping || n_conv >= 2);
    // in-place layout mutators and `_mut` views of whatever ended up on mutable storage
    match &mut t {
        AnyT::Vec(x) => {
            let mut path = format!("{req} ::");
            for _ in 0..rng.usize_below(4) {
                mutate_in_place(out, rng, x, &mut path);
            }
            mut_view_probe(out, rng, &mut x.view_mut(), &path);
        }
        AnyT::ViewMut(x) => mut_view_probe(out, rng, x, &format!("{req} ::")),
        _ => {}
    }
    // terminal probe: AsView::as_cow (borrowed) -> into_owned is a copy
    let copy = match &t {
        AnyT::Vec(x) => x.as_cow().into_owned(),
        AnyT::View(x) => x.as_cow().into_owned(),
        AnyT::ViewMut(x) => x.as_cow().into_owned(),
        AnyT::Cow(x, _) => x.as_cow().into_owned(),
        AnyT::Arc(x) => x.as_cow().into_owned(),
    };
    let c = AnyT::Vec(copy);
    if let Some(m) = storage_oracle(&c, &format!("{req} | as_cow | into_owned"), false) {
        out.case("# storage", "probe", Some(&m), false);
    }
}

/// One in-place layout mutation of an owned tensor (`permute`, `transpose`, `move_axis`,
/// `insert_axis`, `remove_axis`, `merge_axes`, `clip_dim`); its new layout is a case.
fn mutate_in_place(out: &mut Out, rng: &mut Rng, x: &mut Tensor<u32>, path: &mut String) {
    let nd = x.ndim();
    let sh: Vec<usize> = x.shape().to_vec();
    let name = match rng.below(7) {
        0 if nd > 0 => {
            let mut perm: Vec<usize> = (0..nd).collect();
            rng.shuffle(&mut perm);
            x.permute(perm.as_slice());
            format!("permute {}", hcommon::join(perm.iter(), ","))
        }
        1 => {
            x.transpose();
            "transpose".into()
        }
        2 if nd > 0 => {
            let (a, b) = (rng.usize_below(nd), rng.usize_below(nd));
            x.move_axis(a, b);
            format!("move_axis {a} {b}")
        }
        3 => {
            let k = rng.usize_below(nd + 1);
            x.insert_axis(k);
            format!("insert_axis {k}")
        }
        4 => {
            let units: Vec<usize> = (0..nd).filter(|&d| sh[d] == 1).collect();
            if units.is_empty() {
                return;
            }
            let k = *rng.pick(&units);
            x.remove_axis(k);
            format!("remove_axis {k}")
        }
        5 => {
            x.merge_axes();
            "merge_axes".into()
        }
        6 if nd > 0 => {
            let a = rng.usize_below(nd);
            let (s0, e0) = pick_range(rng, sh[a]);
            x.clip_dim(a, s0..e0);
            format!("clip_dim {a} {s0}..{e0}")
        }
        _ => return,
    };
    out.bucket(&format!("mutop_{}", name.split(' ').next().unwrap()));
    *path += " ";
    *path += &name;
    *path += ";";
    one_ex(out, x.shape().as_ref(), x.strides().as_ref(), Want::Mutable(path));
}

/// One `_mut` view operation on a mutable view; the resulting mutable view's layout is a case.
fn mut_view_probe(out: &mut Out, rng: &mut Rng, v: &mut TensorViewMut<u32>, path: &str) {
    let nd = v.ndim();
    let sh: Vec<usize> = v.shape().to_vec();
    let mut emit = |out: &mut Out, name: String, shape: Vec<usize>, strides: Vec<usize>| {
        out.bucket(&format!("mutop_{}", name.split(' ').next().unwrap()));
        let ctx = format!("{path} {name}");
        one_ex(out, &shape, &strides, Want::Mutable(&ctx));
    };
    match rng.below(7) {
        0 if nd > 0 => {
            let mut items = Vec::new();
            let mut txt = String::from("slice_mut");
            for d in 0..1 + rng.usize_below(nd) {
                if sh[d] > 0 && rng.chance(1, 5) {
                    let i = rng.usize_below(sh[d]) as isize;
                    items.push(SliceItem::Index(i));
                    txt += &format!(" i:{i}");
                } else {
                    let (a, b) = pick_range(rng, sh[d]);
                    let step = 1 + rng.usize_below(3) as isize;
                    items.push(SliceItem::Range(SliceRange::new(a as isize, Some(b as isize), step)));
                    txt += &format!(" r:{a}:{b}:{step}");
                }
            }
            if let Ok(w) = v.try_slice_mut(items.as_slice()) {
                emit(out, txt, w.shape().to_vec(), w.strides().to_vec());
            }
        }
        1 if nd > 0 => {
            let mut perm: Vec<usize> = (0..nd).collect();
            rng.shuffle(&mut perm);
            let w = v.permuted_mut(perm.as_slice());
            emit(out, format!("permuted_mut {}", hcommon::join(perm.iter(), ",")), w.shape().to_vec(), w.strides().to_vec());
        }
        2 if nd > 0 => {
            let a = rng.usize_below(nd);
            if sh[a] > 0 {
                let i = rng.usize_below(sh[a]);
                let w = v.index_axis_mut(a, i);
                emit(out, format!("index_axis_mut {a} {i}"), w.shape().to_vec(), w.strides().to_vec());
            }
        }
        3 if nd > 0 => {
            let a = rng.usize_below(nd);
            let mid = rng.usize_below(sh[a] + 1);
            let (l, r) = v.view_mut().split_at_mut(a, mid);
            emit(out, format!("split_at_mut {a} {mid} L"), l.shape().to_vec(), l.strides().to_vec());
            emit(out, format!("split_at_mut {a} {mid} R"), r.shape().to_vec(), r.strides().to_vec());
        }
        4 if nd > 0 => {
            let a = rng.usize_below(nd);
            let (s0, e0) = pick_range(rng, sh[a]);
            let w = v.slice_axis_mut(a, s0..e0);
            emit(out, format!("slice_axis_mut {a} {s0}..{e0}"), w.shape().to_vec(), w.strides().to_vec());
        }
        5 if nd == 2 => {
            let w = v.nd_view_mut::<2>();
            emit(out, "nd_view_mut".into(), w.shape().to_vec(), w.strides().to_vec());
        }
        _ => {
            let w = v.view_mut();
            emit(out, "view_mut".into(), w.shape().to_vec(), w.strides().to_vec());
        }
    }
}

/// Tensor-returning methods of `tensor.rs` in the tree under test (`cov` request).
fn api_coverage(out: &mut Out) {
    let repo = std::env::var("VERIF_REPO").unwrap_or_else(|_| "/repo".into());
    let Ok(src) = std::fs::read_to_string(format!("{repo}/rten-tensor/src/tensor.rs")) else {
        out.note("cov: tensor.rs not readable, coverage request skipped");
        return;
    };
    let lines: Vec<&str> = src.lines().collect();
    let mut names: Vec<String> = vec![];
    for i in 0..lines.len() {
        let l = lines[i].trim_start();
        let l = l.strip_prefix("pub(crate) ").or_else(|| l.strip_prefix("pub ")).unwrap_or(l);
        let l = l.strip_prefix("unsafe ").unwrap_or(l);
        let Some(rest) = l.strip_prefix("fn ") else { continue };
        let name: String = rest.chars().take_while(|c| c.is_ascii_alphanumeric() || *c == '_').collect();
        let mut sig = String::new();
        let mut j = i;
        loop {
            sig += lines[j];
            sig.push(' ');
            if lines[j].contains('{') || lines[j].trim_end().ends_with(';') || j >= i + 40 || j + 1 >= lines.len() {
                break;
            }
            j += 1;
        }
        let sig = sig.split('{').next().unwrap_or("");
        let Some((_, ret)) = sig.split_once("->") else { continue };
        let ret = ret.split(" where ").next().unwrap_or("");
        let plain_self = ret
            .match_indices("Self")
            .any(|(k, _)| !ret[k + 4..].starts_with("::") && !ret[..k].ends_with(|c: char| c.is_ascii_alphanumeric()));
        if ret.contains("TensorBase<") || ret.contains("Contiguous<") || ret.contains("WeaklyCheckedView<") || plain_self {
            names.push(name);
        }
    }
    // `&mut self` methods that assign or mutate `self.layout`
    const MUTATORS: [&str; 8] = [
        "permute(", "transpose(", "move_axis(", "insert_axis(", "remove_axis(", "merge_axes(", "resize_dim(",
        "remove_axis_of_any_size(",
    ];
    for i in 0..lines.len() {
        let raw = lines[i];
        let indent: String = raw.chars().take_while(|c| *c == ' ').collect();
        let l = raw.trim_start();
        let l = l.strip_prefix("pub(crate) ").or_else(|| l.strip_prefix("pub ")).unwrap_or(l);
        let l = l.strip_prefix("unsafe ").unwrap_or(l);
        let Some(rest) = l.strip_prefix("fn ") else { continue };
        let name: String = rest.chars().take_while(|c| c.is_ascii_alphanumeric() || *c == '_').collect();
        let mut j = i;
        let mut sig = String::new();
        loop {
            sig += lines[j];
            if lines[j].contains('{') || lines[j].trim_end().ends_with(';') || j >= i + 40 || j + 1 >= lines.len() {
                break;
            }
            j += 1;
        }
        if !sig.split('{').next().unwrap_or("").contains("&mut self") || !lines[j].contains('{') {
            continue;
        }
        let close = format!("{indent}}}");
        let mut k = j + 1;
        let mut hit = false;
        while k < lines.len() && lines[k] != close {
            let b = lines[k];
            if let Some(pos) = b.find("self.layout") {
                let after = b[pos + "self.layout".len()..].trim_start();
                if (after.starts_with('=') && !after.starts_with("=="))
                    || MUTATORS.iter().any(|m| after.strip_prefix('.').is_some_and(|a| a.starts_with(m)))
                {
                    hit = true;
                }
            }
            k += 1;
        }
        if hit {
            names.push(format!("mut:{name}"));
        }
    }
    names.sort();
    names.dedup();
    out.bucket("api_coverage");
    out.case(&format!("cov {}", names.join(" ")), "all-classified", None, false);
}

fn main() {
    let args = hcommon::parse_args();
    hcommon::quiet_panics();
    run(&args)
}

fn run(args: &Args) {
    let mut out = Out::new(&args.out);
    let mut rng = Rng::new(args.seed);
    // (a) exhaustive small space: rank ≤ 3, sizes 0..=3, strides 0..=7 (thorough: rank ≤ 3, strides 0..=12)
    let smax = if args.thorough { 12 } else { 7 };
    for rank in 0..=3usize {
        let mut shape = vec![0usize; rank];
        let mut strides = vec![0usize; rank];
        let total = (4usize * (smax + 1)).pow(rank as u32);
        for mut code in 0..total {
            for d in 0..rank {
                shape[d] = code % 4;
                code /= 4;
                strides[d] = code % (smax + 1);
                code /= smax + 1;
            }
            one(&mut out, &shape, &strides);
        }
    }
    // (b) random: derived from contiguous layouts by permute / step / broadcast / perturbation.
    let n = if args.thorough { 400_000 } else { 40_000 };
    for _ in 0..n {
        let rank = rng.usize_below(6);
        let shape: Vec<usize> = (0..rank)
            .map(|_| if rng.chance(1, 12) { 0 } else { 1 + rng.usize_below(5) })
            .collect();
        // contiguous strides
        let mut strides = vec![0usize; rank];
        let mut p = 1usize;
        for d in (0..rank).rev() {
            strides[d] = p;
            p *= shape[d].max(1);
        }
        let mut shape = shape;
        match rng.below(6) {
            0 => {}
            1 => {
                // permute
                let mut perm: Vec<usize> = (0..rank).collect();
                rng.shuffle(&mut perm);
                shape = perm.iter().map(|&i| shape[i]).collect();
                strides = perm.iter().map(|&i| strides[i]).collect();
            }
            2 => {
                // stepped slice of a random dim
                for d in 0..rank {
                    if rng.chance(1, 2) && shape[d] > 1 {
                        let step = 1 + rng.usize_below(3);
                        shape[d] = (shape[d] + step - 1) / step;
                        strides[d] *= step;
                    }
                }
            }
            3 => {
                // broadcast
                for d in 0..rank {
                    if rng.chance(1, 3) {
                        strides[d] = 0;
                    }
                }
            }
            4 => {
                // perturb one stride by ±1..2
                if rank > 0 {
                    let d = rng.usize_below(rank);
                    let delta = rng.range_i64(-2, 2);
                    strides[d] = (strides[d] as i64 + delta).max(0) as usize;
                }
            }
            _ => {
                // arbitrary strides
                for d in 0..rank {
                    strides[d] = rng.usize_below(40);
                }
            }
        }
        one(&mut out, &shape, &strides);
    }
    // (c) completeness oracle: chains of real view operations on contiguous tensors.
    let n = if args.thorough { 500_000 } else { 60_000 };
    for _ in 0..n {
        if let Err(m) = hcommon::catch(|| derived_chain(&mut out, &mut rng, args.thorough)) {
            // a panic inside a view operation the generator believed valid
            out.bucket("derived_chain_panic");
            out.case(
                "# derived chain",
                "panic",
                Some(&format!("view operation panicked on arguments valid for the current shape: {m}")),
                false,
            );
        }
    }
    // (d) capacity expansion of owned tensors (has_capacity / append).
    let n = if args.thorough { 300_000 } else { 30_000 };
    for _ in 0..n {
        if let Err(m) = hcommon::catch(|| expansion_case(&mut out, &mut rng, args.thorough)) {
            out.bucket("expand_panic");
            out.case(
                "# expansion",
                "panic",
                Some(&format!("constructor / has_capacity / append panicked on valid arguments: {m}")),
                false,
            );
        }
    }
    // (e) storage types × explicit constructors × storage conversions.
    api_coverage(&mut out);
    let n = if args.thorough { 400_000 } else { 40_000 };
    for _ in 0..n {
        if let Err(m) = hcommon::catch(|| storage_case(&mut out, &mut rng)) {
            out.bucket("stor_panic");
            out.case("# storage", "panic", Some(&format!("storage conversion panicked: {m}")), false);
        }
    }
    out.finish("exhaustive (size,stride) lists of rank<=3 with sizes 0..3 and small strides, plus random layouts derived from contiguous ones by permutation, stepping, broadcasting, stride perturbation, arbitrary strides; plus (completeness oracle) every intermediate view of random chains of 1..6 (thorough 1..10) real TensorView operations (permuted, transposed, move_axis, slice with ranges of step 1..4 / indices incl. negative spellings, slice_axis, index_axis, split_at, insert_axis, remove_axis, squeezed, merge_axes) applied to contiguous tensors of rank 0..5 (thorough 0..6), sizes 0..9, which must all be accepted; plus (capacity expansion) owned tensors of rank 1..4 (thorough 1..5) with spare capacity 0..200 built by from_data_with_strides (growth axis of size 0/1 with zero / unit / dominating / just-short / duplicate / random stride), by transposing / permuting / move_axis-ing from_data tensors with unit dims, and by with_capacity (optionally permuted), probed with has_capacity(axis, size+0..4) and append of zero-stride views, where every layout has_capacity or append accepts must pass the overlap check and brute-force injectivity; plus (storage family) from_data_with_strides / from_slice_with_strides / from_storage_and_layout (dynamic rank 1..3 and NdLayout<2>) over Vec, &[T], &mut [T], Cow borrowed/owned and Arc<Vec> storage with contiguous / permuted-stride / stepped / broadcast / duplicate-stride / arbitrary layouts (sizes 1..4, exact / slack / short storage), followed by 0..4 storage conversions (into_cow, into_arc, into_owned, to_tensor, as_cow, clone, to_contiguous, reshaped, into_shape, into_contiguous), where every tensor on mutable storage must pass the overlap check and brute-force injectivity and from_data_with_strides must not accept an aliasing pair on any storage; then 0..3 in-place layout mutations (permute, transpose, move_axis, insert_axis, remove_axis, merge_axes, clip_dim) and one _mut view operation (slice_mut, permuted_mut, index_axis_mut, split_at_mut, slice_axis_mut, nd_view_mut, view_mut) on whatever ended up on Vec / &mut storage, each resulting mutable layout being a case that must be accepted and injective; one coverage request listing the tensor-returning methods and the &mut self layout mutators of tensor.rs; non-trivial = rank>=2, no empty dim, some dim >1; distinct by request text");
}
