//! C08: `may_have_internal_overlap` / `is_contiguous` on the real crate.
//!
//! Request line: `ov <size>,<stride> <size>,<stride> ...` (possibly no dims).
//! Answer: `overlap=<0|1> contig=<0|1>`.
//! Property oracle (on the implementation's own verdict): if the check says
//! "no overlap" then brute-force enumeration of all valid indices must find no
//! two indices with equal offset (only for shapes with ≤ 4096 elements).
//!
//! Completeness oracle (C08.T2, second clause of the property): section (c) builds layouts by
//! applying random chains of real `TensorView` operations (permuted / transposed / move_axis /
//! slice with positive steps and indices / slice_axis / index_axis / split_at / insert_axis /
//! remove_axis / squeezed / merge_axes) to a contiguous tensor.  After every operation the
//! view's own `(shape, strides)` is sent through the same `ov` request (so the model is
//! compared too) and `may_have_internal_overlap` must answer `false`:
//! PROPFAIL `derived layout rejected` otherwise.  `Derived` in `Props/C08.lean` is the proved
//! counterpart; `Props/C08Views.lean` proves `Derived` closed under C09's layout model of these
//! operations, and each whole chain is also replayed through that model (`dv <shape> | op | …`
//! request, answer `dims=<size,stride …> overlap=.. contig=..`).
//!
//! Capacity-expansion oracle (first clause, "accepted … for capacity expansion"): section (d)
//! builds owned tensors with spare capacity whose growth axis has size 0/1 and any stride
//! (`from_data_with_strides`, permutes/transposes of tensors with unit dims, `with_capacity`),
//! then calls `has_capacity(axis, n)` and `append(axis, …)`.  Whenever `has_capacity` answers
//! true or `append` succeeds, the GROWN `(shape, strides)` is sent as an `ov` request and must
//! be accepted by `may_have_internal_overlap` and injective by brute force: PROPFAIL
//! `capacity expansion accepted …` otherwise (Lean: `c08_expansion_checks_grown_layout`).
use hcommon::{Args, Out, Rng};
use rten_tensor::prelude::*;
use rten_tensor::verif::{is_contiguous, may_have_internal_overlap};
use rten_tensor::{SliceItem, SliceRange, Tensor, TensorView};
use std::collections::HashSet;

fn brute_injective(shape: &[usize], strides: &[usize]) -> Option<bool> {
    let n: u128 = shape.iter().map(|&s| s as u128).product();
    if n > 4096 {
        return None;
    }
    let mut seen = HashSet::new();
    let mut idx = vec![0usize; shape.len()];
    if n == 0 {
        return Some(true);
    }
    loop {
        let off: u128 = idx.iter().zip(strides).map(|(&i, &s)| i as u128 * s as u128).sum();
        if !seen.insert(off) {
            return Some(false);
        }
        let mut d = shape.len();
        loop {
            if d == 0 {
                return Some(true);
            }
            d -= 1;
            idx[d] += 1;
            if idx[d] < shape[d] {
                break;
            }
            idx[d] = 0;
        }
    }
}

fn one(out: &mut Out, shape: &[usize], strides: &[usize]) {
    one_ex(out, shape, strides, Want::Nothing)
}

/// What the property additionally demands of a layout.
#[derive(Clone, Copy)]
enum Want<'a> {
    Nothing,
    /// result of real view operations on a contiguous tensor (chain text): must be accepted
    Derived(&'a str),
    /// layout that `has_capacity` / `append` of an owned tensor accepted (context text): must be
    /// accepted by the overlap check and alias-free
    Expanded(&'a str),
}

fn one_ex(out: &mut Out, shape: &[usize], strides: &[usize], want: Want) {
    let derived = matches!(want, Want::Derived(_)).then_some(());
    let req = format!(
        "ov {}",
        hcommon::join(shape.iter().zip(strides).map(|(a, b)| format!("{a},{b}")), " ")
    );
    let res = hcommon::catch(|| {
        (
            may_have_internal_overlap(shape, strides),
            is_contiguous(&shape, &strides),
        )
    });
    let (ans, fail) = match res {
        Ok((ov, c)) => {
            let mut fail = None;
            if !ov {
                if let Some(false) = brute_injective(shape, strides) {
                    fail = Some("accepted layout maps two valid indices to one offset".to_string());
                }
            } else if let Want::Derived(chain) = want {
                fail = Some(format!("derived layout rejected: contiguous {chain}"));
            }
            if let Want::Expanded(ctx) = want {
                let inj = brute_injective(shape, strides);
                if ov || inj == Some(false) {
                    fail = Some(format!(
                        "capacity expansion accepted a layout that {}{}: {ctx}",
                        if ov { "the overlap check rejects" } else { "aliases" },
                        if ov && inj == Some(false) { " and in which two valid indices share an offset" } else { "" }
                    ));
                }
                out.bucket(if ov { "expand_grown_rejected" } else { "expand_grown_accepted" });
            }
            if derived.is_some() {
                out.bucket(if shape.contains(&0) {
                    "derived_empty"
                } else if c {
                    "derived_contig"
                } else {
                    "derived_noncontig"
                });
            }
            (format!("overlap={} contig={}", ov as u8, c as u8), fail)
        }
        Err(m) => (format!("panic {m}"), None),
    };
    let fail = fail.as_deref();
    let nontrivial = shape.len() >= 2 && shape.iter().all(|&s| s > 0) && shape.iter().any(|&s| s > 1);
    out.bucket(&format!("rank{}", shape.len()));
    out.bucket(if ans.starts_with("overlap=1") { "verdict_overlap" } else { "verdict_ok" });
    out.case(&req, &ans, fail, nontrivial);
}

/// One random chain of view operations on a contiguous tensor; every intermediate view is a
/// case.  Operations are generated valid for the current shape (an `Err`/skipped op is
/// counted in `derived_op_skipped`).
fn derived_chain(out: &mut Out, rng: &mut Rng, thorough: bool) {
    let rank = if rng.chance(1, 10) {
        rng.usize_below(2)
    } else {
        2 + rng.usize_below(if thorough { 5 } else { 4 })
    };
    let max_size = match rank {
        0..=3 => 9,
        4 => 6,
        5 => 5,
        _ => 4,
    };
    let shape: Vec<usize> = (0..rank)
        .map(|_| {
            if rng.chance(1, 24) {
                0
            } else if rng.chance(1, 8) {
                1
            } else {
                1 + rng.usize_below(max_size)
            }
        })
        .collect();
    let t = Tensor::<u8>::zeros(shape.as_slice());
    let mut v: TensorView<u8> = t.view();
    let mut chain = if shape.is_empty() { "-".to_string() } else { hcommon::join(shape.iter(), ",") };
    one_ex(out, v.shape().as_ref(), v.strides().as_ref(), Want::Derived(&chain));
    let n_ops = 1 + rng.usize_below(if thorough { 10 } else { 6 });
    for k in 0..n_ops {
        let nd = v.ndim();
        let sh: Vec<usize> = v.shape().to_vec();
        let op = rng.below(14);
        let (name, text): (&str, String) = match op {
            0 | 11 if nd > 0 => {
                let mut perm: Vec<usize> = (0..nd).collect();
                rng.shuffle(&mut perm);
                v = v.permuted(perm.as_slice());
                ("perm", format!("perm {}", hcommon::join(perm.iter(), ",")))
            }
            1 => {
                v = v.transposed();
                ("tr", "tr".into())
            }
            2 if nd > 0 => {
                let (a, b) = (rng.usize_below(nd), rng.usize_below(nd));
                v.move_axis(a, b);
                ("mv", format!("mv {a} {b}"))
            }
            3 | 4 | 12 | 13 if nd > 0 => {
                // slice a prefix of the axes with ranges (positive steps) and indices
                let n_items = 1 + rng.usize_below(nd);
                let mut items = Vec::new();
                let mut txt = String::from("sl");
                for d in 0..n_items {
                    let size = sh[d];
                    if size > 0 && rng.chance(1, 5) {
                        let i = rng.usize_below(size) as isize;
                        let i = if rng.chance(1, 3) { i - size as isize } else { i };
                        items.push(SliceItem::Index(i));
                        txt += &format!(" i:{i}");
                    } else {
                        let (start, end) = pick_range(rng, size);
                        let step = if rng.chance(1, 3) { 1 } else { 1 + rng.usize_below(4) } as isize;
                        let (mut s0, mut e0) = (start as isize, Some(end as isize));
                        if rng.chance(1, 4) && start < size {
                            s0 -= size as isize; // negative (from the end) spelling of the same start
                        }
                        if rng.chance(1, 4) {
                            e0 = if end == size { None } else { Some(end as isize - size as isize) };
                        }
                        items.push(SliceItem::Range(SliceRange::new(s0, e0, step)));
                        txt += &format!(" r:{s0}:{}:{step}", e0.map(|e| e.to_string()).unwrap_or("_".into()));
                    }
                }
                match v.try_slice(items.as_slice()) {
                    Ok(nv) => {
                        v = nv;
                        ("slice", txt)
                    }
                    Err(_) => ("skipped", String::new()),
                }
            }
            5 if nd > 0 => {
                let a = rng.usize_below(nd);
                let (s0, e0) = pick_range(rng, sh[a]);
                v = v.slice_axis(a, s0..e0);
                ("slice_axis", format!("sa {a} {s0} {e0}"))
            }
            6 if nd > 0 => {
                let a = rng.usize_below(nd);
                if sh[a] == 0 {
                    ("skipped", String::new())
                } else {
                    let i = rng.usize_below(sh[a]);
                    v = v.index_axis(a, i);
                    ("index_axis", format!("ix {a} {i}"))
                }
            }
            7 if nd > 0 => {
                let a = rng.usize_below(nd);
                let mid = if sh[a] >= 2 && !rng.chance(1, 8) {
                    1 + rng.usize_below(sh[a] - 1)
                } else {
                    rng.usize_below(sh[a] + 1)
                };
                let (l, r) = v.split_at(a, mid);
                let right = rng.chance(1, 2);
                v = if right { r } else { l };
                ("split_at", format!("sp{} {a} {mid}", if right { "r" } else { "l" }))
            }
            8 => {
                let a = rng.usize_below(nd + 1);
                v.insert_axis(a);
                ("insert_axis", format!("ia {a}"))
            }
            9 => {
                let units: Vec<usize> = (0..nd).filter(|&d| sh[d] == 1).collect();
                if units.is_empty() {
                    ("skipped", String::new())
                } else if rng.chance(1, 3) {
                    v = v.squeezed();
                    ("squeezed", "sq".into())
                } else {
                    let a = *rng.pick(&units);
                    v.remove_axis(a);
                    ("remove_axis", format!("ra {a}"))
                }
            }
            10 => {
                v.merge_axes();
                ("merge_axes", "ma".into())
            }
            _ => ("skipped", String::new()),
        };
        out.bucket(&format!("derived_op_{name}"));
        if name == "skipped" {
            continue;
        }
        chain += " | ";
        chain += &text;
        out.bucket(&format!("derived_step{}", (k + 1).min(9)));
        one_ex(out, v.shape().as_ref(), v.strides().as_ref(), Want::Derived(&chain));
        if v.shape().contains(&0) && !rng.chance(1, 4) {
            break; // an empty view stays empty; only sometimes keep going
        }
    }
    // the whole chain replayed through C09's layout model (`dv` request): the model must
    // arrive at the same (size, stride) list and verdict as the real view operations
    let (sh, st): (Vec<usize>, Vec<usize>) = (v.shape().to_vec(), v.strides().to_vec());
    let ov = may_have_internal_overlap(sh.as_slice(), st.as_slice());
    let c = is_contiguous(&sh.as_slice(), &st.as_slice());
    let ans = format!(
        "dims={} overlap={} contig={}",
        hcommon::join(sh.iter().zip(&st).map(|(a, b)| format!("{a},{b}")), " "),
        ov as u8,
        c as u8
    );
    out.bucket("derived_chain_model_replay");
    out.case(&format!("dv {chain}"), &ans, None, sh.len() >= 2 && !c && !sh.contains(&0));
}

/// `start..end` within `0..size`, non-empty 7 times out of 8 when possible.
fn pick_range(rng: &mut Rng, size: usize) -> (usize, usize) {
    if size > 0 && !rng.chance(1, 8) {
        let start = rng.usize_below(size);
        (start, start + 1 + rng.usize_below(size - start))
    } else {
        let start = rng.usize_below(size + 1);
        (start, start + rng.usize_below(size - start + 1))
    }
}

fn list(xs: &[usize]) -> String {
    format!("[{}]", hcommon::join(xs.iter(), ","))
}

/// One owned tensor with spare capacity + growth probes.
fn expansion_case(out: &mut Out, rng: &mut Rng, thorough: bool) {
    let rank = 1 + rng.usize_below(if thorough { 5 } else { 4 });
    let axis = rng.usize_below(rank);
    let ctor = rng.below(3);
    let spare = *rng.pick(&[0usize, 1, 2, 3, 5, 8, 16, 40, 200]);
    let mut ctx;
    // -- build ------------------------------------------------------------------------------
    let built: Result<Tensor<u32>, String> = match ctor {
        0 => {
            // from_data_with_strides: growth axis of size 0/1 with an arbitrary stride; the other
            // dims contiguous / permuted / stepped (so the layout itself is legal).
            let mut shape: Vec<usize> = (0..rank).map(|_| 1 + rng.usize_below(4)).collect();
            shape[axis] = rng.usize_below(2);
            let mut order: Vec<usize> = (0..rank).filter(|&d| d != axis).collect();
            if rng.chance(1, 2) {
                rng.shuffle(&mut order);
            }
            let mut strides = vec![0usize; rank];
            let mut p = 1usize;
            for &d in order.iter().rev() {
                let step = if rng.chance(1, 4) { 1 + rng.usize_below(3) } else { 1 };
                strides[d] = p * step;
                p = strides[d] * shape[d];
            }
            strides[axis] = match rng.below(6) {
                0 => 0,
                1 => 1,
                2 => p,                              // dominating: steps over everything
                3 => p.saturating_sub(1),            // just short of dominating
                4 => *rng.pick(&strides),            // equal to another stride
                _ => rng.usize_below(2 * p + 2),
            };
            let min_len = if shape.contains(&0) {
                0
            } else {
                1 + shape.iter().zip(&strides).map(|(&n, &st)| (n - 1) * st).sum::<usize>()
            };
            let len = min_len + if rng.chance(1, 4) { rng.usize_below(3) } else { 0 };
            let mut v: Vec<u32> = Vec::with_capacity(len + spare);
            v.extend(0..len as u32);
            ctx = format!("from_data_with_strides({},{}) len={len} cap={}", list(&shape), list(&strides), v.capacity());
            Tensor::from_data_with_strides(shape.as_slice(), v, strides.as_slice()).map_err(|e| format!("{e:?}"))
        }
        1 => {
            // from_data with unit dims, then permute / transpose / move_axis: the unit dims keep
            // row-major strides that no longer step over the dims now inside them.
            let mut shape: Vec<usize> = (0..rank)
                .map(|_| if rng.chance(1, 3) { 1 } else { 1 + rng.usize_below(4) })
                .collect();
            shape[rng.usize_below(rank)] = 1;
            let len: usize = shape.iter().product();
            let mut v: Vec<u32> = Vec::with_capacity(len + spare);
            v.extend(0..len as u32);
            let cap = v.capacity();
            let mut t = Tensor::from_data(shape.as_slice(), v);
            match rng.below(3) {
                0 => {
                    t.transpose();
                    ctx = format!("from_data({}) cap={cap} transpose", list(&shape));
                }
                1 => {
                    let mut perm: Vec<usize> = (0..rank).collect();
                    rng.shuffle(&mut perm);
                    t.permute(perm.as_slice());
                    ctx = format!("from_data({}) cap={cap} permute{perm:?}", list(&shape));
                }
                _ => {
                    let (a, b) = (rng.usize_below(rank), rng.usize_below(rank));
                    t.move_axis(a, b);
                    ctx = format!("from_data({}) cap={cap} move_axis({a},{b})", list(&shape));
                }
            }
            Ok(t)
        }
        _ => {
            // with_capacity(shape, expand_dim), optionally permuted afterwards
            let shape: Vec<usize> = (0..rank)
                .map(|_| if rng.chance(1, 4) { 1 } else { 1 + rng.usize_below(4) })
                .collect();
            let dim = rng.usize_below(rank);
            let mut t = Tensor::<u32>::with_capacity(shape.as_slice(), dim);
            ctx = format!("with_capacity({},{dim})", list(&shape));
            if rng.chance(1, 2) {
                let mut perm: Vec<usize> = (0..rank).collect();
                rng.shuffle(&mut perm);
                t.permute(perm.as_slice());
                ctx += &format!(" permute{perm:?}");
            }
            Ok(t)
        }
    };
    out.bucket(["expand_ctor_fdws", "expand_ctor_unitperm", "expand_ctor_withcap"][ctor as usize]);
    let mut t = match built {
        Ok(t) => t,
        Err(_) => {
            out.bucket("expand_ctor_rejected");
            return;
        }
    };
    // the starting layout is an accepted layout too
    one(out, t.shape().as_ref(), t.strides().as_ref());
    // -- probe ------------------------------------------------------------------------------
    // grow along a size-0/1 axis when there is one (3 times out of 4), else any axis
    let small: Vec<usize> = (0..rank).filter(|&d| t.size(d) <= 1).collect();
    let n_probes = 1 + rng.usize_below(3);
    for _ in 0..n_probes {
        let axis = if !small.is_empty() && !rng.chance(1, 4) { *rng.pick(&small) } else { rng.usize_below(rank) };
        let shape: Vec<usize> = t.shape().to_vec();
        let strides: Vec<usize> = t.strides().to_vec();
        let new_size = shape[axis] + rng.usize_below(4) + rng.usize_below(2);
        let mut grown = shape.clone();
        grown[axis] = new_size;
        {
            // would the grown layout be legal at all? (independent of the capacity)
            let mut two = shape.clone();
            two[axis] = two[axis].max(2);
            out.bucket(if may_have_internal_overlap(two.as_slice(), strides.as_slice()) {
                "expand_axis_nondominating"
            } else {
                "expand_axis_dominating"
            });
        }
        let hc = t.has_capacity(axis, new_size);
        out.bucket(if hc { "expand_hc_true" } else { "expand_hc_false" });
        if hc {
            let c = format!("{ctx} | has_capacity({axis},{new_size}) = true");
            one_ex(out, &grown, &strides, Want::Expanded(&c));
        }
        if rng.chance(1, 2) {
            // append a zero-stride view of matching shape with `k` entries along `axis`
            let k = new_size - shape[axis];
            let mut oshape = shape.clone();
            oshape[axis] = k;
            let zeros = vec![0usize; rank];
            let cell = [7u32];
            let other = TensorView::from_slice_with_strides(oshape.as_slice(), &cell[..], zeros.as_slice()).unwrap();
            match t.append(axis, &other) {
                Ok(()) => {
                    out.bucket("expand_append_ok");
                    ctx += &format!(" | append({axis},+{k})");
                    let (sh, st): (Vec<usize>, Vec<usize>) = (t.shape().to_vec(), t.strides().to_vec());
                    let c = format!("{ctx} succeeded");
                    one_ex(out, &sh, &st, Want::Expanded(&c));
                    if !hc {
                        out.case("# expansion", "append-ok", Some(&format!("append succeeded although has_capacity said false: {c}")), false);
                    }
                }
                Err(_) => {
                    out.bucket("expand_append_err");
                    if hc {
                        out.case("# expansion", "append-err", Some(&format!("append failed although has_capacity({axis},{new_size}) said true: {ctx}")), false);
                    }
                }
            }
        }
    }
}

fn main() {
    let args = hcommon::parse_args();
    hcommon::quiet_panics();
    run(&args)
}

fn run(args: &Args) {
    let mut out = Out::new(&args.out);
    let mut rng = Rng::new(args.seed);
    // (a) exhaustive small space: rank ≤ 3, sizes 0..=3, strides 0..=7 (thorough: rank ≤ 3, strides 0..=12)
    let smax = if args.thorough { 12 } else { 7 };
    for rank in 0..=3usize {
        let mut shape = vec![0usize; rank];
        let mut strides = vec![0usize; rank];
        let total = (4usize * (smax + 1)).pow(rank as u32);
        for mut code in 0..total {
            for d in 0..rank {
                shape[d] = code % 4;
                code /= 4;
                strides[d] = code % (smax + 1);
                code /= smax + 1;
            }
            one(&mut out, &shape, &strides);
        }
    }
    // (b) random: derived from contiguous layouts by permute / step / broadcast / perturbation.
    let n = if args.thorough { 400_000 } else { 40_000 };
    for _ in 0..n {
        let rank = rng.usize_below(6);
        let shape: Vec<usize> = (0..rank)
            .map(|_| if rng.chance(1, 12) { 0 } else { 1 + rng.usize_below(5) })
            .collect();
        // contiguous strides
        let mut strides = vec![0usize; rank];
        let mut p = 1usize;
        for d in (0..rank).rev() {
            strides[d] = p;
            p *= shape[d].max(1);
        }
        let mut shape = shape;
        match rng.below(6) {
            0 => {}
            1 => {
                // permute
                let mut perm: Vec<usize> = (0..rank).collect();
                rng.shuffle(&mut perm);
                shape = perm.iter().map(|&i| shape[i]).collect();
                strides = perm.iter().map(|&i| strides[i]).collect();
            }
            2 => {
                // stepped slice of a random dim
                for d in 0..rank {
                    if rng.chance(1, 2) && shape[d] > 1 {
                        let step = 1 + rng.usize_below(3);
                        shape[d] = (shape[d] + step - 1) / step;
                        strides[d] *= step;
                    }
                }
            }
            3 => {
                // broadcast
                for d in 0..rank {
                    if rng.chance(1, 3) {
                        strides[d] = 0;
                    }
                }
            }
            4 => {
                // perturb one stride by ±1..2
                if rank > 0 {
                    let d = rng.usize_below(rank);
                    let delta = rng.range_i64(-2, 2);
                    strides[d] = (strides[d] as i64 + delta).max(0) as usize;
                }
            }
            _ => {
                // arbitrary strides
                for d in 0..rank {
                    strides[d] = rng.usize_below(40);
                }
            }
        }
        one(&mut out, &shape, &strides);
    }
    // (c) completeness oracle: chains of real view operations on contiguous tensors.
    let n = if args.thorough { 500_000 } else { 60_000 };
    for _ in 0..n {
        if let Err(m) = hcommon::catch(|| derived_chain(&mut out, &mut rng, args.thorough)) {
            // a panic inside a view operation the generator believed valid
            out.bucket("derived_chain_panic");
            out.case(
                "# derived chain",
                "panic",
                Some(&format!("view operation panicked on arguments valid for the current shape: {m}")),
                false,
            );
        }
    }
    // (d) capacity expansion of owned tensors (has_capacity / append).
    let n = if args.thorough { 300_000 } else { 30_000 };
    for _ in 0..n {
        if let Err(m) = hcommon::catch(|| expansion_case(&mut out, &mut rng, args.thorough)) {
            out.bucket("expand_panic");
            out.case(
                "# expansion",
                "panic",
                Some(&format!("constructor / has_capacity / append panicked on valid arguments: {m}")),
                false,
            );
        }
    }
    out.finish("exhaustive (size,stride) lists of rank<=3 with sizes 0..3 and small strides, plus random layouts derived from contiguous ones by permutation, stepping, broadcasting, stride perturbation, arbitrary strides; plus (completeness oracle) every intermediate view of random chains of 1..6 (thorough 1..10) real TensorView operations (permuted, transposed, move_axis, slice with ranges of step 1..4 / indices incl. negative spellings, slice_axis, index_axis, split_at, insert_axis, remove_axis, squeezed, merge_axes) applied to contiguous tensors of rank 0..5 (thorough 0..6), sizes 0..9, which must all be accepted; plus (capacity expansion) owned tensors of rank 1..4 (thorough 1..5) with spare capacity 0..200 built by from_data_with_strides (growth axis of size 0/1 with zero / unit / dominating / just-short / duplicate / random stride), by transposing / permuting / move_axis-ing from_data tensors with unit dims, and by with_capacity (optionally permuted), probed with has_capacity(axis, size+0..4) and append of zero-stride views, where every layout has_capacity or append accepts must pass the overlap check and brute-force injectivity; non-trivial = rank>=2, no empty dim, some dim >1; distinct by request text");
}
