//! C08: `may_have_internal_overlap` / `is_contiguous` on the real crate.
//!
//! Request line: `ov <size>,<stride> <size>,<stride> ...` (possibly no dims).
//! Answer: `overlap=<0|1> contig=<0|1>`.
//! Property oracle (on the implementation's own verdict): if the check says
//! "no overlap" then brute-force enumeration of all valid indices must find no
//! two indices with equal offset (only for shapes with ≤ 4096 elements).
use hcommon::{Args, Out, Rng};
use rten_tensor::verif::{is_contiguous, may_have_internal_overlap};
use std::collections::HashSet;

fn brute_injective(shape: &[usize], strides: &[usize]) -> Option<bool> {
    let n: u128 = shape.iter().map(|&s| s as u128).product();
    if n > 4096 {
        return None;
    }
    let mut seen = HashSet::new();
    let mut idx = vec![0usize; shape.len()];
    if n == 0 {
        return Some(true);
    }
    loop {
        let off: u128 = idx.iter().zip(strides).map(|(&i, &s)| i as u128 * s as u128).sum();
        if !seen.insert(off) {
            return Some(false);
        }
        let mut d = shape.len();
        loop {
            if d == 0 {
                return Some(true);
            }
            d -= 1;
            idx[d] += 1;
            if idx[d] < shape[d] {
                break;
            }
            idx[d] = 0;
        }
    }
}

fn one(out: &mut Out, shape: &[usize], strides: &[usize]) {
    let req = format!(
        "ov {}",
        hcommon::join(shape.iter().zip(strides).map(|(a, b)| format!("{a},{b}")), " ")
    );
    let res = hcommon::catch(|| {
        (
            may_have_internal_overlap(shape, strides),
            is_contiguous(&shape, &strides),
        )
    });
    let (ans, fail) = match res {
        Ok((ov, c)) => {
            let mut fail = None;
            if !ov {
                if let Some(false) = brute_injective(shape, strides) {
                    fail = Some("accepted layout maps two valid indices to one offset");
                }
            }
            (format!("overlap={} contig={}", ov as u8, c as u8), fail)
        }
        Err(m) => (format!("panic {m}"), None),
    };
    let nontrivial = shape.len() >= 2 && shape.iter().all(|&s| s > 0) && shape.iter().any(|&s| s > 1);
    out.bucket(&format!("rank{}", shape.len()));
    out.bucket(if ans.starts_with("overlap=1") { "verdict_overlap" } else { "verdict_ok" });
    out.case(&req, &ans, fail, nontrivial);
}

fn main() {
    let args = hcommon::parse_args();
    hcommon::quiet_panics();
    run(&args)
}

fn run(args: &Args) {
    let mut out = Out::new(&args.out);
    let mut rng = Rng::new(args.seed);
    // (a) exhaustive small space: rank ≤ 3, sizes 0..=3, strides 0..=7 (thorough: rank ≤ 3, strides 0..=12)
    let smax = if args.thorough { 12 } else { 7 };
    for rank in 0..=3usize {
        let mut shape = vec![0usize; rank];
        let mut strides = vec![0usize; rank];
        let total = (4usize * (smax + 1)).pow(rank as u32);
        for mut code in 0..total {
            for d in 0..rank {
                shape[d] = code % 4;
                code /= 4;
                strides[d] = code % (smax + 1);
                code /= smax + 1;
            }
            one(&mut out, &shape, &strides);
        }
    }
    // (b) random: derived from contiguous layouts by permute / step / broadcast / perturbation.
    let n = if args.thorough { 400_000 } else { 40_000 };
    for _ in 0..n {
        let rank = rng.usize_below(6);
        let shape: Vec<usize> = (0..rank)
            .map(|_| if rng.chance(1, 12) { 0 } else { 1 + rng.usize_below(5) })
            .collect();
        // contiguous strides
        let mut strides = vec![0usize; rank];
        let mut p = 1usize;
        for d in (0..rank).rev() {
            strides[d] = p;
            p *= shape[d].max(1);
        }
        let mut shape = shape;
        match rng.below(6) {
            0 => {}
            1 => {
                // permute
                let mut perm: Vec<usize> = (0..rank).collect();
                rng.shuffle(&mut perm);
                shape = perm.iter().map(|&i| shape[i]).collect();
                strides = perm.iter().map(|&i| strides[i]).collect();
            }
            2 => {
                // stepped slice of a random dim
                for d in 0..rank {
                    if rng.chance(1, 2) && shape[d] > 1 {
                        let step = 1 + rng.usize_below(3);
                        shape[d] = (shape[d] + step - 1) / step;
                        strides[d] *= step;
                    }
                }
            }
            3 => {
                // broadcast
                for d in 0..rank {
                    if rng.chance(1, 3) {
                        strides[d] = 0;
                    }
                }
            }
            4 => {
                // perturb one stride by ±1..2
                if rank > 0 {
                    let d = rng.usize_below(rank);
                    let delta = rng.range_i64(-2, 2);
                    strides[d] = (strides[d] as i64 + delta).max(0) as usize;
                }
            }
            _ => {
                // arbitrary strides
                for d in 0..rank {
                    strides[d] = rng.usize_below(40);
                }
            }
        }
        one(&mut out, &shape, &strides);
    }
    out.finish("exhaustive (size,stride) lists of rank<=3 with sizes 0..3 and small strides, plus random layouts derived from contiguous ones by permutation, stepping, broadcasting, stride perturbation, arbitrary strides; non-trivial = rank>=2, no empty dim, some dim >1; distinct by request text");
}
