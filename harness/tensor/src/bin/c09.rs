//! C09: chains of layout transformations on the real `TensorView` / `Tensor` API.
//!
//! Request line: `S <size>,<stride> ... / <storelen> | <op> | <op> ...`
//!   source = `TensorView::from_slice_with_strides(shape, &[0,1,..,storelen-1], strides)`.
//! Ops (see `Op::text`): perm tr mv sl slc sa ix bc ia ra sq ma spl spr rs tc app clip.
//! Answer: `ok shape=.. strides=.. off=.. data=..` (elements read one by one through
//! `get(index)` in row-major order; `off` = distance of the view's data pointer from the
//! start of the buffer it reads) or `err@k` / `panic@k` with the index of the failing op.
//!
//! Property oracle (PROPFAIL), evaluated on the implementation's own output: a naive
//! nested-index reference of every operation written here in Rust (shape + row-major
//! element vector, no strides).  If the implementation returns a value it must equal the
//! reference value; a value where the reference rejects the operation is also reported.
//! `to_vec()` (the `copy_into_slice` path) must agree with element-wise `get`.
use hcommon::{Args, Out, Rng};
use rten_tensor::prelude::*;
use rten_tensor::{SliceItem, SliceRange, Tensor, TensorView};
use std::any::Any;

// ---------------------------------------------------------------- ops

#[derive(Clone, Debug)]
enum Item {
    I(isize),
    R(isize, Option<isize>, isize),
}

impl Item {
    fn text(&self) -> String {
        match self {
            Item::I(i) => format!("i:{i}"),
            Item::R(s, e, t) => format!(
                "r:{s}:{}:{t}",
                e.map(|e| e.to_string()).unwrap_or_else(|| "_".into())
            ),
        }
    }
    fn to_slice_item(&self) -> SliceItem {
        match *self {
            Item::I(i) => SliceItem::Index(i),
            Item::R(s, e, t) => SliceItem::Range(SliceRange::new(s, e, t)),
        }
    }
}

#[derive(Clone, Debug)]
enum Op {
    Perm(Vec<usize>),
    Tr,
    Mv(usize, usize),
    Sl(Vec<Item>),
    Slc(Vec<Item>),
    Sa(usize, usize, usize),
    Ix(usize, usize),
    Bc(Vec<usize>),
    Ia(usize),
    Ra(usize),
    Sq,
    Ma,
    Split(usize, usize, bool),
    Rs(Vec<usize>),
    Tc,
    App(usize, usize, Vec<usize>),
    Clip(usize, usize, usize),
}

fn csv(xs: &[usize]) -> String {
    if xs.is_empty() {
        "-".into()
    } else {
        hcommon::join(xs.iter(), ",")
    }
}

impl Op {
    fn name(&self) -> &'static str {
        match self {
            Op::Perm(_) => "perm",
            Op::Tr => "tr",
            Op::Mv(..) => "mv",
            Op::Sl(_) => "sl",
            Op::Slc(_) => "slc",
            Op::Sa(..) => "sa",
            Op::Ix(..) => "ix",
            Op::Bc(_) => "bc",
            Op::Ia(_) => "ia",
            Op::Ra(_) => "ra",
            Op::Sq => "sq",
            Op::Ma => "ma",
            Op::Split(_, _, false) => "spl",
            Op::Split(_, _, true) => "spr",
            Op::Rs(_) => "rs",
            Op::Tc => "tc",
            Op::App(..) => "app",
            Op::Clip(..) => "clip",
        }
    }
    fn text(&self) -> String {
        let n = self.name();
        match self {
            Op::Perm(p) => format!("{n} {}", csv(p)),
            Op::Tr | Op::Sq | Op::Ma | Op::Tc => n.to_string(),
            Op::Mv(a, b) => format!("{n} {a} {b}"),
            Op::Sl(items) | Op::Slc(items) => {
                if items.is_empty() {
                    n.to_string()
                } else {
                    format!("{n} {}", hcommon::join(items.iter().map(|i| i.text()), " "))
                }
            }
            Op::Sa(a, s, e) | Op::Clip(a, s, e) => format!("{n} {a} {s} {e}"),
            Op::Ix(a, i) => format!("{n} {a} {i}"),
            Op::Bc(s) | Op::Rs(s) => format!("{n} {}", csv(s)),
            Op::Ia(k) | Op::Ra(k) => format!("{n} {k}"),
            Op::Split(a, m, _) => format!("{n} {a} {m}"),
            Op::App(a, c, s) => format!("{n} {a} {c} {}", csv(s)),
        }
    }
}

// ---------------------------------------------------------------- naive reference

#[derive(Clone, Debug, PartialEq)]
struct RefArr {
    shape: Vec<usize>,
    data: Vec<u32>,
}

/// The reference rejects the operation.
struct Invalid;

fn all_indices(shape: &[usize]) -> Vec<Vec<usize>> {
    let mut out = vec![vec![]];
    for &n in shape {
        let mut next = Vec::with_capacity(out.len() * n);
        for prefix in &out {
            for i in 0..n {
                let mut p = prefix.clone();
                p.push(i);
                next.push(p);
            }
        }
        out = next;
    }
    out
}

impl RefArr {
    fn from_fn(shape: Vec<usize>, f: impl Fn(&[usize]) -> u32) -> RefArr {
        let data = all_indices(&shape).iter().map(|i| f(i)).collect();
        RefArr { shape, data }
    }
    fn get(&self, idx: &[usize]) -> u32 {
        assert_eq!(idx.len(), self.shape.len());
        let mut flat = 0;
        for (k, &i) in idx.iter().enumerate() {
            assert!(i < self.shape[k]);
            flat = flat * self.shape[k] + i;
        }
        self.data[flat]
    }
    fn rank(&self) -> usize {
        self.shape.len()
    }
}

/// CPython slice semantics: the positions `a[start:stop:step]` visits on an axis of length `n`.
fn py_indices(start: isize, stop: Option<isize>, step: isize, n: usize) -> Vec<usize> {
    let len = n as isize;
    let adj = |x: isize| -> isize {
        if x < 0 {
            let y = x + len;
            if y < 0 {
                if step < 0 {
                    -1
                } else {
                    0
                }
            } else {
                y
            }
        } else if x >= len {
            if step < 0 {
                len - 1
            } else {
                len
            }
        } else {
            x
        }
    };
    let s = adj(start);
    let e = match stop {
        Some(e) => adj(e),
        None => {
            if step < 0 {
                -1
            } else {
                len
            }
        }
    };
    let mut v = vec![];
    let mut i = s;
    while (step > 0 && i < e) || (step < 0 && i > e) {
        v.push(i as usize);
        i += step;
    }
    v
}

enum Sel {
    Pick(usize),
    Take(Vec<usize>),
}

fn gather(a: &RefArr, sels: &[Sel]) -> RefArr {
    // axes beyond `sels` are kept whole
    let mut shape = vec![];
    for (k, &n) in a.shape.iter().enumerate() {
        match sels.get(k) {
            Some(Sel::Pick(_)) => {}
            Some(Sel::Take(v)) => shape.push(v.len()),
            None => shape.push(n),
        }
    }
    RefArr::from_fn(shape, |idx| {
        let mut src = vec![];
        let mut j = 0;
        for k in 0..a.rank() {
            match sels.get(k) {
                Some(Sel::Pick(i)) => src.push(*i),
                Some(Sel::Take(v)) => {
                    src.push(v[idx[j]]);
                    j += 1;
                }
                None => {
                    src.push(idx[j]);
                    j += 1;
                }
            }
        }
        a.get(&src)
    })
}

fn norm_index(i: isize, n: usize) -> Option<usize> {
    let p = if i >= 0 { i } else { i + n as isize };
    if p >= 0 && (p as usize) < n {
        Some(p as usize)
    } else {
        None
    }
}

fn ref_slice(a: &RefArr, items: &[Item], copy: bool) -> Result<RefArr, Invalid> {
    if items.len() > a.rank() {
        return Err(Invalid);
    }
    let mut sels = vec![];
    for (k, it) in items.iter().enumerate() {
        let n = a.shape[k];
        match *it {
            Item::I(i) => sels.push(Sel::Pick(norm_index(i, n).ok_or(Invalid)?)),
            Item::R(s, e, t) => {
                if !copy {
                    // view slices: bounds must not need clamping, step must be positive
                    let inb = |x: isize| -(n as isize) <= x && x <= n as isize;
                    if !inb(s) || !e.map(inb).unwrap_or(true) || t <= 0 {
                        return Err(Invalid);
                    }
                }
                sels.push(Sel::Take(py_indices(s, e, t, n)));
            }
        }
    }
    Ok(gather(a, &sels))
}

fn ref_axis_range(a: &RefArr, axis: usize, s: usize, e: usize) -> Result<RefArr, Invalid> {
    if axis >= a.rank() || s > e || e > a.shape[axis] {
        return Err(Invalid);
    }
    let mut sels: Vec<Sel> = (0..axis).map(|k| Sel::Take((0..a.shape[k]).collect())).collect();
    sels.push(Sel::Take((s..e).collect()));
    Ok(gather(a, &sels))
}

fn apply_ref(a: &RefArr, op: &Op, impl_shape: Option<&[usize]>) -> Result<RefArr, Invalid> {
    let r = a.rank();
    match op {
        Op::Perm(p) => {
            let mut seen = vec![0usize; r];
            if p.len() != r || p.iter().any(|&d| d >= r) {
                return Err(Invalid);
            }
            for &d in p {
                seen[d] += 1;
            }
            if seen.iter().any(|&c| c != 1) {
                return Err(Invalid);
            }
            let shape = p.iter().map(|&d| a.shape[d]).collect();
            Ok(RefArr::from_fn(shape, |idx| {
                let mut src = vec![0; r];
                for (k, &d) in p.iter().enumerate() {
                    src[d] = idx[k];
                }
                a.get(&src)
            }))
        }
        Op::Tr => {
            let shape = a.shape.iter().rev().copied().collect();
            Ok(RefArr::from_fn(shape, |idx| {
                let src: Vec<usize> = idx.iter().rev().copied().collect();
                a.get(&src)
            }))
        }
        Op::Mv(from, to) => {
            if *from >= r || *to >= r {
                return Err(Invalid);
            }
            // numpy.moveaxis: order = remaining axes with `from` inserted at `to`
            let mut order: Vec<usize> = (0..r).filter(|d| d != from).collect();
            order.insert(*to, *from);
            apply_ref(a, &Op::Perm(order), None)
        }
        Op::Sl(items) => ref_slice(a, items, false),
        Op::Slc(items) => ref_slice(a, items, true),
        Op::Sa(axis, s, e) | Op::Clip(axis, s, e) => ref_axis_range(a, *axis, *s, *e),
        Op::Ix(axis, i) => {
            if *axis >= r || *i >= a.shape[*axis] {
                return Err(Invalid);
            }
            let mut sels: Vec<Sel> = (0..*axis).map(|k| Sel::Take((0..a.shape[k]).collect())).collect();
            sels.push(Sel::Pick(*i));
            Ok(gather(a, &sels))
        }
        Op::Bc(target) => {
            if r > target.len() {
                return Err(Invalid);
            }
            let pad = target.len() - r;
            for k in 0..r {
                if a.shape[k] != target[pad + k] && a.shape[k] != 1 {
                    return Err(Invalid);
                }
            }
            Ok(RefArr::from_fn(target.clone(), |idx| {
                let src: Vec<usize> = (0..r)
                    .map(|k| if a.shape[k] == 1 { 0 } else { idx[pad + k] })
                    .collect();
                a.get(&src)
            }))
        }
        Op::Ia(k) => {
            if *k > r {
                return Err(Invalid);
            }
            let mut shape = a.shape.clone();
            shape.insert(*k, 1);
            Ok(RefArr { shape, data: a.data.clone() })
        }
        Op::Ra(k) => {
            if *k >= r || a.shape[*k] != 1 {
                return Err(Invalid);
            }
            let mut shape = a.shape.clone();
            shape.remove(*k);
            Ok(RefArr { shape, data: a.data.clone() })
        }
        Op::Sq => Ok(RefArr {
            shape: a.shape.iter().copied().filter(|&n| n != 1).collect(),
            data: a.data.clone(),
        }),
        Op::Ma => {
            // merging axes is a reshape to whatever (layout dependent) shape the
            // implementation chose; the row-major element order must be unchanged
            let shape = impl_shape.ok_or(Invalid)?.to_vec();
            if shape.iter().product::<usize>() != a.data.len() {
                return Err(Invalid);
            }
            Ok(RefArr { shape, data: a.data.clone() })
        }
        Op::Split(axis, mid, right) => {
            if *axis >= r || *mid > a.shape[*axis] {
                return Err(Invalid);
            }
            if *right {
                ref_axis_range(a, *axis, *mid, a.shape[*axis])
            } else {
                ref_axis_range(a, *axis, 0, *mid)
            }
        }
        Op::Rs(shape) => {
            if shape.iter().product::<usize>() != a.data.len() {
                return Err(Invalid);
            }
            Ok(RefArr { shape: shape.clone(), data: a.data.clone() })
        }
        Op::Tc => Ok(a.clone()),
        Op::App(axis, _cap, oshape) => {
            if *axis >= r || oshape.len() != r {
                return Err(Invalid);
            }
            for k in 0..r {
                if k != *axis && oshape[k] != a.shape[k] {
                    return Err(Invalid);
                }
            }
            let other = other_tensor_ref(oshape);
            let mut shape = a.shape.clone();
            shape[*axis] += oshape[*axis];
            let na = a.shape[*axis];
            Ok(RefArr::from_fn(shape, |idx| {
                if idx[*axis] < na {
                    a.get(idx)
                } else {
                    let mut j = idx.to_vec();
                    j[*axis] -= na;
                    other.get(&j)
                }
            }))
        }
    }
}

fn other_tensor_ref(shape: &[usize]) -> RefArr {
    let n: usize = shape.iter().product();
    RefArr { shape: shape.to_vec(), data: (0..n as u32).map(|i| 1000 + i).collect() }
}

// ---------------------------------------------------------------- implementation side

type V = TensorView<'static, u32>;

unsafe fn ext<'a>(v: TensorView<'a, u32>) -> V {
    std::mem::transmute(v)
}

struct ImplState {
    cur: V,
    base: *const u32,
    keep: Vec<Box<dyn Any>>,
}

enum Fail {
    Err,
}

impl ImplState {
    fn adopt(&mut self, t: Tensor<u32>) {
        let b = Box::new(t);
        self.base = b.data_ptr();
        self.cur = unsafe { ext(b.view()) };
        self.keep.push(b);
    }

    /// Build an owned tensor (with `cap` capacity) over the storage window of the current view.
    fn materialize(&self, cap: usize) -> Result<Tensor<u32>, Fail> {
        let st = self.cur.storage();
        let win: &[u32] = unsafe { st.as_slice() };
        let mut v: Vec<u32> = Vec::with_capacity(cap.max(win.len()));
        v.extend_from_slice(win);
        let shape = self.cur.shape().to_vec();
        let strides = self.cur.strides().to_vec();
        Tensor::from_data_with_strides(&shape, v, &strides).map_err(|_| Fail::Err)
    }

    fn apply(&mut self, op: &Op) -> Result<(), Fail> {
        match op {
            Op::Perm(p) => self.cur = self.cur.permuted(p.as_slice()),
            Op::Tr => self.cur = self.cur.transposed(),
            Op::Mv(a, b) => self.cur.move_axis(*a, *b),
            Op::Sl(items) => {
                let items: Vec<SliceItem> = items.iter().map(|i| i.to_slice_item()).collect();
                self.cur = self.cur.try_slice(items.as_slice()).map_err(|_| Fail::Err)?;
            }
            Op::Slc(items) => {
                let items: Vec<SliceItem> = items.iter().map(|i| i.to_slice_item()).collect();
                let t: Tensor<u32> = self.cur.slice_copy(items.as_slice());
                self.adopt(t);
            }
            Op::Sa(a, s, e) => self.cur = self.cur.slice_axis(*a, *s..*e),
            Op::Ix(a, i) => self.cur = self.cur.index_axis(*a, *i),
            Op::Bc(shape) => {
                self.cur = self.cur.try_broadcast(shape.as_slice()).map_err(|_| Fail::Err)?
            }
            Op::Ia(k) => self.cur.insert_axis(*k),
            Op::Ra(k) => self.cur.remove_axis(*k),
            Op::Sq => self.cur = self.cur.squeezed(),
            Op::Ma => self.cur.merge_axes(),
            Op::Split(a, m, right) => {
                let (l, r) = self.cur.split_at(*a, *m);
                self.cur = if *right { r } else { l };
            }
            Op::Rs(shape) => {
                let cow = self.cur.reshaped(shape.as_slice());
                let cow: rten_tensor::CowTensor<'static, u32> = unsafe { std::mem::transmute(cow) };
                let b = Box::new(cow);
                let borrowed = b.data_ptr() == self.cur.data_ptr();
                if !borrowed {
                    self.base = b.data_ptr();
                }
                self.cur = unsafe { ext(b.view()) };
                self.keep.push(b);
            }
            Op::Tc => {
                let cow = self.cur.to_contiguous().into_inner();
                let cow: rten_tensor::CowTensor<'static, u32> = unsafe { std::mem::transmute(cow) };
                let b = Box::new(cow);
                let borrowed = b.data_ptr() == self.cur.data_ptr();
                if !borrowed {
                    self.base = b.data_ptr();
                }
                self.cur = unsafe { ext(b.view()) };
                self.keep.push(b);
            }
            Op::App(axis, cap, oshape) => {
                let mut t = self.materialize(*cap)?;
                let o = other_tensor_ref(oshape);
                // `other` holds the same elements but is stored transposed (non-contiguous)
                // whenever the capacity is odd, so both copy paths of append see both kinds
                let other = if *cap % 2 == 1 {
                    let rev: Vec<usize> = o.shape.iter().rev().copied().collect();
                    let mut tt = Tensor::<u32>::zeros(rev.as_slice());
                    tt.transpose();
                    for (i, idx) in all_indices(&o.shape).iter().enumerate() {
                        *tt.get_mut(idx.as_slice()).unwrap() = o.data[i];
                    }
                    tt
                } else {
                    Tensor::from_data(o.shape.as_slice(), o.data)
                };
                t.append(*axis, &other).map_err(|_| Fail::Err)?;
                self.adopt(t);
            }
            Op::Clip(axis, s, e) => {
                let mut t = self.materialize(0)?;
                t.clip_dim(*axis, *s..*e);
                self.adopt(t);
            }
        }
        Ok(())
    }
}

struct ImplOut {
    shape: Vec<usize>,
    strides: Vec<usize>,
    off: usize,
    data: Vec<u32>,
    to_vec: Vec<u32>,
    /// other copying routines, each as (name, elements in row-major order)
    copies: Vec<(&'static str, Vec<u32>)>,
}

struct Source {
    dims: Vec<(usize, usize)>,
    storelen: usize,
}

/// Run the chain on the real API. `Ok(out)` or `Err((class, k))`.
fn run_impl(src: &Source, ops: &[Op], shapes_after: &mut Vec<RefArr>) -> Result<ImplOut, (String, usize)> {
    let store: Vec<u32> = (0..src.storelen as u32).collect();
    let shape: Vec<usize> = src.dims.iter().map(|d| d.0).collect();
    let strides: Vec<usize> = src.dims.iter().map(|d| d.1).collect();
    let view = TensorView::from_slice_with_strides(shape.as_slice(), store.as_slice(), strides.as_slice())
        .map_err(|_| ("bad-source".to_string(), 0))?;
    let mut st = ImplState { cur: unsafe { ext(view) }, base: store.as_ptr(), keep: vec![] };
    for (k, op) in ops.iter().enumerate() {
        let r = hcommon::catch(|| st.apply(op));
        match r {
            Ok(Ok(())) => {
                let cur = &st.cur;
                let snap = hcommon::catch(|| {
                    let shape = cur.shape().to_vec();
                    let data: Vec<u32> = all_indices(&shape)
                        .iter()
                        .map(|i| *cur.get(i.as_slice()).expect("valid index rejected by get"))
                        .collect();
                    RefArr { shape, data }
                });
                match snap {
                    Ok(s) => shapes_after.push(s),
                    Err(_) => return Err(("panic".into(), k)),
                }
            }
            Ok(Err(Fail::Err)) => return Err(("err".into(), k)),
            Err(_) => return Err(("panic".into(), k)),
        }
    }
    let fin = hcommon::catch(|| {
        let cur = &st.cur;
        let shape = cur.shape().to_vec();
        let data: Vec<u32> = all_indices(&shape)
            .iter()
            .map(|i| *cur.get(i.as_slice()).expect("valid index rejected by get"))
            .collect();
        // the other copying routines: map (map_into_slice), to_tensor, copy_from into a
        // contiguous destination (copy_into_slice) and into a transposed one (copy_into)
        let mut copies: Vec<(&'static str, Vec<u32>)> = vec![];
        copies.push(("map", cur.map(|x| *x).data().expect("map result not contiguous").to_vec()));
        copies.push(("to_tensor", cur.to_tensor().data().expect("to_tensor not contiguous").to_vec()));
        let mut dest = Tensor::<u32>::zeros(shape.as_slice());
        dest.copy_from(cur);
        copies.push(("copy_from", all_indices(&shape).iter().map(|i| *dest.get(i.as_slice()).unwrap()).collect()));
        let rev: Vec<usize> = shape.iter().rev().copied().collect();
        let mut dest_t = Tensor::<u32>::zeros(rev.as_slice());
        dest_t.transpose();
        dest_t.copy_from(cur);
        copies.push(("copy_from_transposed_dest", all_indices(&shape).iter().map(|i| *dest_t.get(i.as_slice()).unwrap()).collect()));
        ImplOut {
            strides: cur.strides().to_vec(),
            off: (cur.data_ptr() as usize - st.base as usize) / std::mem::size_of::<u32>(),
            to_vec: cur.to_vec(),
            copies,
            shape,
            data,
        }
    });
    let out = fin.map_err(|_| ("panic".to_string(), ops.len()))?;
    drop(st);
    drop(store);
    Ok(out)
}

// ---------------------------------------------------------------- generation

fn min_data_len(dims: &[(usize, usize)]) -> usize {
    if dims.iter().any(|d| d.0 == 0) {
        0
    } else {
        dims.iter().map(|d| (d.0 - 1) * d.1).sum::<usize>() + 1
    }
}

fn gen_size(rng: &mut Rng) -> usize {
    match rng.below(10) {
        0 => 0,
        1 | 2 => 1,
        3 | 4 | 5 => 2,
        6 | 7 => 3,
        _ => 4,
    }
}

fn gen_source(rng: &mut Rng) -> (Source, &'static str) {
    let rank = rng.usize_below(5);
    let shape: Vec<usize> = (0..rank).map(|_| gen_size(rng)).collect();
    let mut strides = vec![0usize; rank];
    let mut p = 1usize;
    for d in (0..rank).rev() {
        strides[d] = p;
        p *= shape[d].max(1);
    }
    let mut dims: Vec<(usize, usize)> = shape.iter().copied().zip(strides).collect();
    let kind = match rng.below(6) {
        0 | 1 => "contiguous",
        2 => {
            let mut perm: Vec<usize> = (0..rank).collect();
            rng.shuffle(&mut perm);
            dims = perm.iter().map(|&i| dims[i]).collect();
            "permuted"
        }
        3 => {
            for d in dims.iter_mut() {
                if rng.chance(1, 2) {
                    d.1 *= 1 + rng.usize_below(3);
                }
            }
            "stepped"
        }
        4 => {
            for d in dims.iter_mut() {
                if rng.chance(1, 3) {
                    d.1 = 0;
                }
            }
            "broadcast"
        }
        _ => {
            for d in dims.iter_mut() {
                d.1 = rng.usize_below(7);
            }
            "arbitrary"
        }
    };
    let storelen = min_data_len(&dims) + if rng.chance(1, 3) { rng.usize_below(4) } else { 0 };
    (Source { dims, storelen }, kind)
}

fn gen_bound(rng: &mut Rng, n: usize) -> isize {
    let n = n as isize;
    match rng.below(10) {
        0 => n + 1 + rng.range_i64(0, 3) as isize,
        1 => -n - 1 - rng.range_i64(0, 3) as isize,
        2 => n,
        3 => -n,
        4 => 0,
        5 => -1,
        _ => rng.range_i64(-(n as i64), n as i64) as isize,
    }
}

fn gen_items(rng: &mut Rng, shape: &[usize], copy: bool) -> Vec<Item> {
    let r = shape.len();
    let count = if rng.chance(1, 25) { r + 1 } else if rng.chance(1, 2) { r } else { rng.usize_below(r + 1) };
    (0..count)
        .map(|k| {
            let n = shape.get(k).copied().unwrap_or(2);
            if rng.chance(1, 4) {
                // index: mostly valid, negative allowed
                if rng.chance(1, 10) || n == 0 {
                    Item::I(gen_bound(rng, n))
                } else {
                    let i = rng.usize_below(n) as isize;
                    Item::I(if rng.chance(1, 3) { i - n as isize } else { i })
                }
            } else {
                let mag = match rng.below(8) {
                    0..=3 => 1,
                    4 => 2,
                    5 => 3,
                    _ => n as isize + 1 + rng.usize_below(2) as isize,
                };
                let neg = if copy { rng.chance(1, 2) } else { rng.chance(1, 8) };
                let step = if neg { -mag } else { mag };
                // in-range bounds most of the time for view slices
                let tame = !copy && rng.chance(3, 4);
                let b = |rng: &mut Rng| {
                    if tame {
                        rng.range_i64(-(n as i64), n as i64) as isize
                    } else {
                        gen_bound(rng, n)
                    }
                };
                let s = if rng.chance(1, 3) { if step > 0 { 0 } else { -1 } } else { b(rng) };
                let e = if rng.chance(1, 3) { None } else { Some(b(rng)) };
                Item::R(s, e, step)
            }
        })
        .collect()
}

fn gen_op(rng: &mut Rng, shape: &[usize], allow_owned: bool) -> Op {
    let r = shape.len();
    let numel: usize = shape.iter().product();
    let bad = rng.chance(1, 14);
    let axis = |rng: &mut Rng| if r == 0 || bad { rng.usize_below(r + 2) } else { rng.usize_below(r) };
    loop {
        let pick = rng.below(if allow_owned { 20 } else { 18 });
        return match pick {
            0 => {
                let mut p: Vec<usize> = (0..r).collect();
                rng.shuffle(&mut p);
                if bad && r > 0 {
                    match rng.below(3) {
                        0 => p[0] = p[r - 1],
                        1 => {
                            p.pop();
                        }
                        _ => p.push(r),
                    }
                }
                Op::Perm(p)
            }
            1 => Op::Tr,
            2 => Op::Mv(axis(rng), axis(rng)),
            3 | 4 | 5 => Op::Sl(gen_items(rng, shape, false)),
            6 | 7 => Op::Slc(gen_items(rng, shape, true)),
            8 => {
                let a = axis(rng);
                let n = shape.get(a).copied().unwrap_or(1);
                let s = rng.usize_below(n + 1);
                let e = if bad { rng.usize_below(n + 3) } else { s + rng.usize_below(n - s + 1) };
                Op::Sa(a, s, e)
            }
            9 => {
                let a = axis(rng);
                let n = shape.get(a).copied().unwrap_or(1);
                Op::Ix(a, if bad || n == 0 { rng.usize_below(n + 2) } else { rng.usize_below(n) })
            }
            10 => {
                if r >= 5 || numel > 64 {
                    continue;
                }
                let pad = rng.usize_below((5 - r).min(2) + 1);
                let mut t: Vec<usize> = (0..pad).map(|_| gen_size(rng)).collect();
                for &n in shape {
                    t.push(if n == 1 { gen_size(rng) } else if bad && rng.chance(1, 2) { n + 1 } else { n });
                }
                if bad && rng.chance(1, 3) && !t.is_empty() {
                    t.remove(0);
                }
                if t.iter().product::<usize>() > 256 {
                    continue;
                }
                Op::Bc(t)
            }
            11 => {
                if r >= 5 {
                    continue;
                }
                Op::Ia(if bad { rng.usize_below(2 * r + 3) } else { rng.usize_below(r + 1) })
            }
            12 => {
                // prefer unit axes
                let units: Vec<usize> = (0..r).filter(|&k| shape[k] == 1).collect();
                if !units.is_empty() && !bad {
                    Op::Ra(*rng.pick(&units))
                } else {
                    Op::Ra(rng.usize_below(2 * r + 2))
                }
            }
            13 => Op::Sq,
            14 => Op::Ma,
            15 => {
                let a = axis(rng);
                let n = shape.get(a).copied().unwrap_or(1);
                Op::Split(a, if bad { rng.usize_below(n + 3) } else { rng.usize_below(n + 1) }, rng.chance(1, 2))
            }
            16 => {
                // reshape: a random factorisation of numel, or a wrong one
                let mut t = vec![];
                let mut rest = numel;
                if rest == 0 {
                    t = vec![gen_size(rng), 0];
                    if rng.chance(1, 2) {
                        t.reverse();
                    }
                } else {
                    for _ in 0..rng.usize_below(4) {
                        let divs: Vec<usize> = (1..=rest).filter(|d| rest % d == 0).collect();
                        let d = *rng.pick(&divs);
                        t.push(d);
                        rest /= d;
                    }
                    t.push(rest);
                    rng.shuffle(&mut t);
                }
                if bad {
                    t.push(2);
                }
                Op::Rs(t)
            }
            17 => Op::Tc,
            18 => {
                if r == 0 {
                    continue;
                }
                // axis >= ndim (panics before any mutation since 90df0e8) one time in ten
                let a_real = rng.usize_below(r);
                let a = if rng.chance(1, 10) { r + rng.usize_below(r + 2) } else { a_real };
                let mut o = shape.to_vec();
                o[a_real] = gen_size(rng);
                if bad {
                    let k = rng.usize_below(r);
                    o[k] += 1;
                }
                if rng.chance(1, 20) {
                    o.push(1);
                }
                let cap = match rng.below(4) {
                    0 => 0,
                    1 => numel + o.iter().product::<usize>(),
                    _ => rng.usize_below(2 * numel + 2 * o.iter().product::<usize>() + 4),
                };
                Op::App(a, cap, o)
            }
            _ => {
                if r == 0 {
                    continue;
                }
                let a_real = rng.usize_below(r);
                let a = if rng.chance(1, 10) { r + rng.usize_below(r + 2) } else { a_real };
                let n = shape[a_real];
                let s = rng.usize_below(n + 1);
                let e = if bad { rng.usize_below(n + 3) } else { s + rng.usize_below(n - s + 1) };
                Op::Clip(a, s, e)
            }
        };
    }
}

// ---------------------------------------------------------------- one case

fn one(out: &mut Out, src: &Source, kind: &str, ops: &[Op]) {
    let req = format!(
        "S {} / {}{}",
        hcommon::join(src.dims.iter().map(|d| format!("{},{}", d.0, d.1)), " "),
        src.storelen,
        ops.iter().map(|o| format!(" | {}", o.text())).collect::<String>()
    );
    let mut shapes_after = vec![];
    let res = run_impl(src, ops, &mut shapes_after);

    // independent reference
    let shape: Vec<usize> = src.dims.iter().map(|d| d.0).collect();
    let mut r: Result<RefArr, usize> = Ok(RefArr::from_fn(shape, |idx| {
        idx.iter().zip(&src.dims).map(|(i, d)| i * d.1).sum::<usize>() as u32
    }));
    // step-by-step comparison: the first op after which the implementation's view differs
    // from the reference (or the reference rejects an op the implementation accepted)
    let mut fail: Option<String> = None;
    for (k, op) in ops.iter().enumerate() {
        let Some(snap) = shapes_after.get(k) else { break };
        let Ok(a) = &r else { break };
        let rank_before = a.rank();
        match apply_ref(a, op, Some(snap.shape.as_slice())) {
            Ok(b) => {
                if b != *snap {
                    let tag = match op {
                        Op::Slc(items)
                            if items.len() < rank_before
                                && b.data == snap.data
                                && b.shape.starts_with(&snap.shape) =>
                        {
                            " [slc-short-items: axes without a slice item dropped from the result shape]"
                        }
                        _ => "",
                    };
                    fail = Some(format!(
                        "op {k} ({}) differs from the naive reference: impl shape={} data={} reference shape={} data={}{tag}",
                        op.name(),
                        csv(&snap.shape),
                        hcommon::join(snap.data.iter(), ","),
                        csv(&b.shape),
                        hcommon::join(b.data.iter(), ",")
                    ));
                    r = Err(k);
                } else {
                    r = Ok(b);
                }
            }
            Err(_) => {
                let tag = match op {
                    Op::Slc(_) if snap.data.is_empty() => " [slc-invalid-accepted-empty]",
                    _ => "",
                };
                fail = Some(format!(
                    "op {k} ({}) returned a value (shape={}) but the naive reference rejects it{tag}",
                    op.name(),
                    csv(&snap.shape)
                ));
                r = Err(k);
            }
        }
    }
    // ops the implementation rejected: does the reference define them?
    let mut ref_defined_at_failure = false;
    if let (Err((_, k)), Ok(a)) = (&res, &r) {
        if let Some(op) = ops.get(*k) {
            if shapes_after.len() == *k {
                let shape_hint: Vec<usize> = a.shape.clone();
                ref_defined_at_failure = !matches!(op, Op::Ma) && apply_ref(a, op, Some(shape_hint.as_slice())).is_ok();
            }
        }
    }

    let ans = match &res {
        Ok(o) => {
            if fail.is_none() && o.to_vec != o.data {
                let at = o.to_vec.iter().zip(&o.data).position(|(a, b)| a != b).unwrap_or(o.data.len().min(o.to_vec.len()));
                fail = Some(format!(
                    "to_vec() differs from element-wise get at row-major position {at}: to_vec={} get={}",
                    o.to_vec.get(at).map(|x| x.to_string()).unwrap_or("-".into()),
                    o.data.get(at).map(|x| x.to_string()).unwrap_or("-".into())
                ));
            }
            for (name, v) in &o.copies {
                if fail.is_none() && *v != o.data {
                    let at = v.iter().zip(&o.data).position(|(a, b)| a != b).unwrap_or(o.data.len().min(v.len()));
                    fail = Some(format!(
                        "{name}() differs from element-wise get at row-major position {at}: {name}={} get={}",
                        v.get(at).map(|x| x.to_string()).unwrap_or("-".into()),
                        o.data.get(at).map(|x| x.to_string()).unwrap_or("-".into())
                    ));
                }
            }
            out.bucket("result_ok");
            format!(
                "ok shape={} strides={} off={} data={}",
                csv(&o.shape),
                csv(&o.strides),
                o.off,
                hcommon::join(o.data.iter(), ",")
            )
        }
        Err((class, k)) => {
            out.bucket(&format!("result_{class}"));
            if let Some(op) = ops.get(*k) {
                out.bucket(&format!("{class}_at_{}", op.name()));
                if ref_defined_at_failure {
                    out.bucket(&format!("impl_{class}_where_reference_defined_{}", op.name()));
                }
            }
            format!("{class}@{k}")
        }
    };
    out.bucket(&format!("src_{kind}"));
    out.bucket(&format!("src_rank{}", src.dims.len()));
    out.bucket(&format!("chain_len{}", ops.len()));
    for op in ops {
        out.bucket(&format!("op_{}", op.name()));
    }
    let nontrivial = res.as_ref().map(|o| o.data.len() >= 2).unwrap_or(false) && ops.len() >= 2;
    out.case(&req, &ans, fail.as_deref(), nontrivial);
}

fn random_case(out: &mut Out, rng: &mut Rng, with_owned: bool) {
    let (src, kind) = gen_source(rng);
    // generate the chain against the reference shape so that most ops are applicable
    let shape: Vec<usize> = src.dims.iter().map(|d| d.0).collect();
    let mut a = RefArr::from_fn(shape, |_| 0);
    let len = 1 + rng.usize_below(5);
    let mut ops = vec![];
    for _ in 0..len {
        let op = gen_op(rng, &a.shape, with_owned);
        // `ma` needs the implementation's shape: approximate by "fully merged" unknown -> stop tracking
        let next = match &op {
            Op::Ma => None,
            _ => apply_ref(&a, &op, None).ok(),
        };
        ops.push(op);
        match next {
            Some(n) if n.data.len() <= 256 => a = n,
            _ => break,
        }
    }
    one(out, &src, kind, &ops);
}

fn boundary_cases(out: &mut Out) {
    // every (start, stop, step) in a small window on contiguous 1-D sources of size 0..4,
    // for both the view slice and the copying slice
    for n in 0..=4usize {
        let src = Source { dims: vec![(n, 1)], storelen: n };
        let lim = n as isize + 2;
        for step in [-6isize, -3, -2, -1, 1, 2, 3, 6] {
            for s in -lim..=lim {
                for e in (-lim - 1)..=lim {
                    let e = if e == -lim - 1 { None } else { Some(e) };
                    one(out, &src, "contiguous", &[Op::Sl(vec![Item::R(s, e, step)])]);
                    one(out, &src, "contiguous", &[Op::Slc(vec![Item::R(s, e, step)])]);
                }
            }
        }
        for i in -lim..=lim {
            one(out, &src, "contiguous", &[Op::Sl(vec![Item::I(i)])]);
            one(out, &src, "contiguous", &[Op::Slc(vec![Item::I(i)])]);
        }
    }
    // rank 5 and 6 (the recursive branch of copy_range_into_slice): reversed / stepped /
    // shrinking ranges at every axis position, fewer items than axes, index items
    for shape in [vec![2usize, 2, 2, 2, 3], vec![3, 1, 2, 2, 2], vec![2, 1, 2, 2, 2, 2], vec![2, 3, 1, 2, 0]] {
        let r = shape.len();
        let mut dims = vec![];
        let mut p = 1usize;
        for &n in shape.iter().rev() {
            dims.insert(0, (n, p));
            p *= n.max(1);
        }
        let src = Source { storelen: min_data_len(&dims), dims: dims.clone() };
        let mut tsrc = Source { storelen: min_data_len(&dims), dims: dims.clone() };
        tsrc.dims.reverse();
        let specials = [
            Item::R(-1, None, -2),
            Item::R(-1, None, -1),
            Item::R(0, Some(1), 1),
            Item::R(5, None, 1),
            Item::R(1, None, -1),
            Item::I(-1),
            Item::I(0),
        ];
        for pos in 0..r {
            for sp in &specials {
                for n_items in [pos + 1, r] {
                    let items: Vec<Item> = (0..n_items)
                        .map(|k| if k == pos { sp.clone() } else { Item::R(0, None, 1) })
                        .collect();
                    one(out, &src, "contiguous", &[Op::Slc(items.clone())]);
                    one(out, &tsrc, "permuted", &[Op::Slc(items.clone())]);
                    // force the copying path with a reversed first axis as well
                    let mut items2 = items.clone();
                    if pos != 0 {
                        items2[0] = Item::R(-1, None, -1);
                        one(out, &src, "contiguous", &[Op::Slc(items2)]);
                    }
                    // two shrinking ranges: a second inner axis also selects a strict subset
                    if n_items == r {
                        for pos2 in 0..r {
                            if pos2 != pos {
                                let mut items3 = items.clone();
                                items3[pos2] = Item::R(-1, None, -2);
                                out.bucket("rank5_6_two_shrinking_ranges");
                                one(out, &src, "contiguous", &[Op::Slc(items3)]);
                            }
                        }
                    }
                }
            }
        }
    }
    // 2-D: index + reversed range, fewer items than axes, on a transposed source
    for (r, c) in [(2usize, 3usize), (3, 1), (1, 3), (2, 0), (0, 2)] {
        let src = Source { dims: vec![(r, 1), (c, r.max(1))], storelen: min_data_len(&[(r, 1), (c, r.max(1))]) };
        for i in -(r as isize) - 1..=(r as isize) {
            for step in [-2isize, -1, 1, 2] {
                let rg = Item::R(if step > 0 { 0 } else { -1 }, None, step);
                one(out, &src, "permuted", &[Op::Slc(vec![Item::I(i), rg.clone()])]);
                one(out, &src, "permuted", &[Op::Slc(vec![rg.clone(), Item::I(i)])]);
                one(out, &src, "permuted", &[Op::Slc(vec![rg.clone()])]);
                one(out, &src, "permuted", &[Op::Sl(vec![Item::I(i), rg.clone()])]);
                one(out, &src, "permuted", &[Op::Sl(vec![rg.clone()])]);
            }
        }
    }
}

/// "Large copy" family: sources big enough to reach every branch of `copy_into_slice`
/// (`copy.rs`): the blocked copy (`stride(3) % 16 == 0 && stride(3) >= 32`, 64x64 blocks of 4x4
/// tiles, with its transposing kernel when the row stride is 1, plus narrow/short edge tiles),
/// the bulk lane copy (`stride(3) == 1`, lane of >= 32 bytes), the generic nested loop, and the
/// recursion for more than 4 non-mergeable axes.  Every case ends with the copying routines
/// (`to_vec`, `map`, `to_tensor`, `copy_from` x2) compared with element-wise `get`.
fn large_copy_cases(out: &mut Out, rng: &mut Rng, n: usize) {
    let sizes: [usize; 16] = [1, 2, 3, 4, 5, 7, 8, 9, 12, 16, 17, 31, 33, 40, 64, 67];
    let inner_strides: [usize; 10] = [1, 2, 3, 16, 32, 48, 64, 96, 128, 20];
    for k in 0..n {
        // innermost two axes
        let (mut rows, mut cols) = (*rng.pick(&sizes), *rng.pick(&sizes));
        while rows * cols > 1400 {
            if rows > cols { rows = *rng.pick(&sizes[..10]) } else { cols = *rng.pick(&sizes[..10]) }
        }
        let cs = if k % 4 == 0 { 1 } else { *rng.pick(&inner_strides) };
        // row stride: small (transposed source), or "past the row" (stepped rows), or arbitrary
        let rs = match rng.below(5) {
            0 => 1,
            1 => 2 + rng.usize_below(3),
            2 => cs * cols.max(1),
            3 => cs * cols.max(1) + rng.usize_below(5),
            _ => 1 + rng.usize_below(70),
        };
        let mut dims = vec![(rows, rs), (cols, cs)];
        // outer axes
        let budget = 1600 / (rows * cols).max(1);
        let n_outer = if k % 7 == 6 { 3 + rng.usize_below(2) } else { rng.usize_below(3) };
        let mut span = min_data_len(&dims).max(1);
        let mut count = 1usize;
        for _ in 0..n_outer {
            let sz = 1 + rng.usize_below(3);
            if count * sz > budget.max(1) {
                break;
            }
            count *= sz;
            let st = match rng.below(4) {
                0 => 0,
                1 => span + rng.usize_below(3),
                _ => span,
            };
            dims.insert(0, (sz, st));
            span = min_data_len(&dims).max(1);
        }
        if rng.chance(1, 6) {
            // move the strided axis outwards
            let r = dims.len();
            dims.swap(r - 1, r - 2);
        }
        let storelen = min_data_len(&dims) + rng.usize_below(2);
        if storelen > 12_000 {
            continue;
        }
        let src = Source { dims, storelen };
        let shape: Vec<usize> = src.dims.iter().map(|d| d.0).collect();
        let numel: usize = shape.iter().product();
        let r = shape.len();
        let ops: Vec<Op> = match rng.below(8) {
            0 => vec![],
            1 => vec![Op::Tc],
            2 => vec![Op::Rs(vec![numel])],
            3 => vec![Op::Tr, Op::Tc],
            4 => {
                let mut p: Vec<usize> = (0..r).collect();
                rng.shuffle(&mut p);
                vec![Op::Perm(p), Op::Tc]
            }
            5 => vec![Op::Slc((0..r).map(|_| Item::R(if rng.chance(1, 2) { 0 } else { -1 }, None, if rng.chance(1, 2) { 1 } else { -1 })).collect())],
            6 => {
                // stepped slice of the last axis, then copy
                let step = 1 + rng.usize_below(3) as isize;
                let mut items: Vec<Item> = (0..r - 1).map(|_| Item::R(0, None, 1)).collect();
                items.push(Item::R(rng.usize_below(2) as isize, None, step));
                vec![Op::Sl(items), Op::Tc]
            }
            _ => vec![Op::Ma, Op::Tc],
        };
        out.bucket("family_large_copy");
        out.bucket(&format!("large_inner_stride_{cs}"));
        one(out, &src, "large", &ops);
    }
}

/// `SliceRange::{steps, resolve, resolve_clamped}` driven directly (request `R start stop step n`).
/// Oracle: `steps` must be the number of indices CPython's slice visits.
fn range_cases(out: &mut Out) {
    for n in 0..=5usize {
        let lim = n as isize + 2;
        // small window plus the extreme bounds (isize::MIN / MAX and neighbours)
        let mut bounds: Vec<isize> = (-lim..=lim).collect();
        bounds.extend([isize::MIN, isize::MIN + 1, isize::MAX - 1, isize::MAX]);
        for step in [-7isize, -3, -2, -1, 1, 2, 3, 7] {
            for &s in &bounds {
                for e in std::iter::once(None).chain(bounds.iter().map(|&b| Some(b))) {
                    let req = format!(
                        "R {s} {} {step} {n}",
                        e.map(|e| e.to_string()).unwrap_or_else(|| "_".into())
                    );
                    let res = hcommon::catch(|| {
                        let r = SliceRange::new(s, e, step);
                        let steps = r.steps(n);
                        let resolved = r.resolve(n);
                        let clamped = r.resolve_clamped(n);
                        (steps, resolved, clamped)
                    });
                    let (ans, fail) = match res {
                        Ok((steps, resolved, clamped)) => {
                            let want = py_indices(s, e, step, n).len();
                            let fail = if steps != want {
                                Some(format!("SliceRange::steps = {steps}, CPython selects {want} indices"))
                            } else {
                                None
                            };
                            (
                                format!(
                                    "steps={steps} resolve={} clamped={}..{}",
                                    resolved.map(|r| format!("{}..{}", r.start, r.end)).unwrap_or_else(|| "none".into()),
                                    clamped.start,
                                    clamped.end
                                ),
                                fail,
                            )
                        }
                        Err(_) => ("panic".to_string(), None),
                    };
                    out.bucket("family_slice_range");
                    out.case(&req, &ans, fail.as_deref(), false);
                }
            }
        }
    }
}

/// `copy_blocked` driven through `to_vec` on `rows x cols` views whose column stride selects the
/// blocked copy (`cs % 16 == 0 && cs >= 32`); request `CB rows cols rs cs`, answer = element list.
/// The Lean side replays its write-by-write model of the loop nest (`Copy.copyBlocked`).
fn copy_blocked_cases(out: &mut Out, rng: &mut Rng, n: usize) {
    let sizes: [usize; 14] = [1, 2, 3, 4, 5, 7, 8, 9, 13, 16, 63, 64, 65, 70];
    for _ in 0..n {
        let (mut rows, mut cols) = (*rng.pick(&sizes), *rng.pick(&sizes));
        if rows * cols > 1200 {
            if rng.chance(1, 2) { rows = *rng.pick(&sizes[..10]) } else { cols = *rng.pick(&sizes[..10]) }
        }
        let cs = *rng.pick(&[32usize, 48, 64, 96]);
        let rs = match rng.below(5) {
            0 | 1 => 1,
            2 => 2 + rng.usize_below(3),
            3 => 5 + rng.usize_below(11),
            _ => cs * cols + rng.usize_below(3),
        };
        if rs == 1 && rows >= 4 && cols >= 4 {
            out.bucket("copy_blocked_transposing_kernel_reached");
        }
        let req = format!("CB {rows} {cols} {rs} {cs}");
        let storelen = (rows - 1) * rs + (cols - 1) * cs + 1;
        let store: Vec<u32> = (0..storelen as u32).collect();
        let res = hcommon::catch(|| {
            let v = TensorView::from_slice_with_strides(&[rows, cols][..], store.as_slice(), &[rs, cs][..]).unwrap();
            let got = v.to_vec();
            let want: Vec<u32> = (0..rows)
                .flat_map(|r| (0..cols).map(move |c| (r * rs + c * cs) as u32))
                .collect();
            (got, want)
        });
        let (ans, fail) = match res {
            Ok((got, want)) => {
                let fail = if got != want {
                    let at = got.iter().zip(&want).position(|(a, b)| a != b).unwrap_or(0);
                    Some(format!("to_vec differs from src[r*rs + c*cs] at position {at}: {} vs {}", got[at], want[at]))
                } else {
                    None
                };
                (hcommon::join(got.iter(), ","), fail)
            }
            Err(_) => ("panic".to_string(), None),
        };
        out.bucket("family_copy_blocked");
        out.case(&req, &ans, fail.as_deref(), false);
    }
}

fn main() {
    let args = hcommon::parse_args();
    hcommon::quiet_panics();
    run(&args)
}

fn run(args: &Args) {
    let mut out = Out::new(&args.out);
    let mut rng = Rng::new(args.seed);
    boundary_cases(&mut out);
    range_cases(&mut out);
    copy_blocked_cases(&mut out, &mut rng, if args.thorough { 1500 } else { 150 });
    large_copy_cases(&mut out, &mut rng, if args.thorough { 4000 } else { 400 });
    let n = if args.thorough { 400_000 } else { 40_000 };
    for i in 0..n {
        random_case(&mut out, &mut rng, i % 3 == 0);
    }
    out.finish("copy_blocked through to_vec on rows x cols views (sizes 1..70, column strides 32/48/64/96, row strides 1, 2..4, 5..15, past-the-row) compared with the Lean write-by-write model; append/clip_dim with axis >= ndim one time in ten; SliceRange::steps/resolve/resolve_clamped driven directly for n=0..5, start/stop in [-n-2,n+2], isize::MIN, MIN+1, MAX-1, MAX or omitted, steps ±1,±2,±3,±7; rank-5/6 slice_copy cases (recursive copy branch) with reversed, stepped, shrinking, clamped ranges and index items at every axis position; large-copy family (400 / 4000 cases): 2..6-D sources with up to 1600 elements, inner sizes 1..67 straddling the 4x4 tile and 64x64 block of copy_blocked, innermost strides 1,2,3,16,20,32,48,64,96,128 and row strides 1..70 or past-the-row, optional broadcast/padded outer axes, followed by tc / rs / tr+tc / perm+tc / slc / stepped sl+tc / ma+tc, every case ending with to_vec, map, to_tensor and copy_from (contiguous and transposed destination) compared with element-wise get; exhaustive 1-D slice specs (start,stop in [-n-2,n+2] or omitted, steps ±1,±2,±3,±6, n=0..4) for slice and slice_copy; index+reversed-range combinations on transposed 2-D sources; random chains of 1..5 ops (perm tr mv sl slc sa ix bc ia ra sq ma spl spr rs tc, every third chain also app/clip) generated against the reference shape (1 in 14 ops deliberately invalid) on random sources: rank 0..4, sizes 0..4, contiguous / permuted / stepped / broadcast(stride 0) / arbitrary strides, optional slack at the end of the buffer; element values = storage offsets (unique ids); non-trivial = chain of >=2 ops with a result of >=2 elements; distinct by request text");
}
