//! C07: tensor iterators of `rten-tensor` under arbitrary consumption histories.
//!
//! Request line (single spaces):
//!   `<kind> <shape> <strides> <p1> <p2> | <history tokens...>`
//! * kind ∈ iter itermut lanes lanesmut inner innermut axis axismut chunks chunksmut
//! * shape / strides: comma separated decimals, `-` when rank 0
//! * p1: lanes → dim; inner → number of inner dims; axis/chunks → axis; iter → 0.
//!   p2: chunks → chunk size; otherwise 0.
//! * history, prefix form: `H := . | f | P | Q | n H | b H | l H | t<k> H | s<k> H H`
//!   (`.` drop, `f` fold rest, `P` rayon collect, `Q` rayon rev collect, `n` next, `b` next_back,
//!   `l` len, `t<k>` nth(k), `s<k>` SplitIterator::split_at(k) then left history, then right history).
//!
//! Answer line: `ok` followed by one observation token per call, in call order: an item or `-`
//! for next/next_back/nth, `L<n>` for len, `F[..]` / `P[..]` / `Q[..]` (items joined by `;`) for the
//! terminals, nothing for `.` and `s<k>`, and a final `panic` if anything panicked (the case stops).
//! Items: element iterators → the element value; all other kinds → `<shape>:<elems>` with the
//! sizes joined by `x` (`s` for rank 0) and the row-major element values joined by `,`.
//!
//! The storage is `0..min_data_len`, so an element's value is its storage offset.
//!
//! Property oracle: the full item list is computed by plain indexing of the parent view (never by
//! an rten iterator), the history is replayed on a `VecDeque` of that list and the token sequences
//! must be equal. For mutable kinds no storage offset may be handed out twice over the history.
use hcommon::{Args, Out, Rng};
use rayon::prelude::*;
use rten_base::iter::SplitIterator;
use rten_tensor::iterators::{Lane, LaneMut};
use rten_tensor::prelude::*;
use rten_tensor::{TensorView, TensorViewMut};
use std::collections::VecDeque;

// ---------------------------------------------------------------------------------------------
// Histories

#[derive(Clone, Debug)]
enum H {
    Drop,
    Fold,
    Par,
    ParRev,
    /// serial `rev().collect()` (token `R`)
    Rev,
    Next(Box<H>),
    Back(Box<H>),
    Len(Box<H>),
    Nth(usize, Box<H>),
    Split(usize, Box<H>, Box<H>),
}

impl H {
    fn tokens(&self, out: &mut Vec<String>) {
        match self {
            H::Drop => out.push(".".into()),
            H::Fold => out.push("f".into()),
            H::Par => out.push("P".into()),
            H::ParRev => out.push("Q".into()),
            H::Rev => out.push("R".into()),
            H::Next(r) => {
                out.push("n".into());
                r.tokens(out)
            }
            H::Back(r) => {
                out.push("b".into());
                r.tokens(out)
            }
            H::Len(r) => {
                out.push("l".into());
                r.tokens(out)
            }
            H::Nth(k, r) => {
                out.push(format!("t{k}"));
                r.tokens(out)
            }
            H::Split(k, a, b) => {
                out.push(format!("s{k}"));
                a.tokens(out);
                b.tokens(out)
            }
        }
    }

    fn parse<'a>(toks: &mut impl Iterator<Item = &'a str>) -> H {
        let t = toks.next().expect("history ended early");
        match t {
            "." => H::Drop,
            "f" => H::Fold,
            "P" => H::Par,
            "Q" => H::ParRev,
            "R" => H::Rev,
            "n" => H::Next(Box::new(H::parse(toks))),
            "b" => H::Back(Box::new(H::parse(toks))),
            "l" => H::Len(Box::new(H::parse(toks))),
            _ if t.starts_with('t') => {
                let k = t[1..].parse().expect("bad t<k>");
                H::Nth(k, Box::new(H::parse(toks)))
            }
            _ if t.starts_with('s') => {
                let k = t[1..].parse().expect("bad s<k>");
                let a = H::parse(toks);
                let b = H::parse(toks);
                H::Split(k, Box::new(a), Box::new(b))
            }
            _ => panic!("bad history token {t}"),
        }
    }

    /// Number of calls made on iterators (everything except `.`).
    fn ops(&self) -> usize {
        match self {
            H::Drop => 0,
            H::Fold | H::Par | H::ParRev | H::Rev => 1,
            H::Next(r) | H::Back(r) | H::Len(r) | H::Nth(_, r) => 1 + r.ops(),
            H::Split(_, a, b) => 1 + a.ops() + b.ops(),
        }
    }

    fn has_split(&self) -> bool {
        match self {
            H::Split(..) => true,
            H::Next(r) | H::Back(r) | H::Len(r) | H::Nth(_, r) => r.has_split(),
            _ => false,
        }
    }

    fn has_par(&self) -> bool {
        match self {
            H::Par | H::ParRev => true,
            H::Next(r) | H::Back(r) | H::Len(r) | H::Nth(_, r) => r.has_par(),
            H::Split(_, a, b) => a.has_par() || b.has_par(),
            _ => false,
        }
    }

    /// Some `b` is executed on an iterator (or a part of it) whose front was advanced before.
    fn back_after_front(&self, front: bool) -> bool {
        match self {
            H::Next(r) | H::Nth(_, r) => r.back_after_front(true),
            H::Back(r) => front || r.back_after_front(front),
            H::Len(r) => r.back_after_front(front),
            H::Split(_, a, b) => a.back_after_front(front) || b.back_after_front(front),
            _ => false,
        }
    }
}

// ---------------------------------------------------------------------------------------------
// Cases

#[derive(Clone, Copy, PartialEq, Debug)]
enum Fam {
    Iter,
    Lanes,
    /// one `Lane`/`LaneMut` (the `p2`-th item of `lanes(p1)`), consumed element by element
    Lane,
    Inner,
    Axis,
    Chunks,
}

impl Fam {
    fn name(self) -> &'static str {
        match self {
            Fam::Iter => "iter",
            Fam::Lanes => "lanes",
            Fam::Lane => "lane",
            Fam::Inner => "inner",
            Fam::Axis => "axis",
            Fam::Chunks => "chunks",
        }
    }
}

#[derive(Clone, Debug)]
struct Case {
    fam: Fam,
    mutable: bool,
    shape: Vec<usize>,
    strides: Vec<usize>,
    p1: usize,
    p2: usize,
    h: H,
}

fn parse_list(s: &str) -> Vec<usize> {
    if s == "-" {
        vec![]
    } else {
        s.split(',').map(|x| x.parse().expect("bad number")).collect()
    }
}

fn fmt_list(xs: &[usize]) -> String {
    if xs.is_empty() {
        "-".to_string()
    } else {
        hcommon::join(xs.iter(), ",")
    }
}

fn parse_case(line: &str) -> Case {
    let mut toks = line.split(' ');
    let kind = toks.next().unwrap();
    let (base, mutable) = match kind.strip_suffix("mut") {
        Some(b) => (b, true),
        None => (kind, false),
    };
    let fam = match base {
        "iter" => Fam::Iter,
        "lanes" => Fam::Lanes,
        "lane" => Fam::Lane,
        "inner" => Fam::Inner,
        "axis" => Fam::Axis,
        "chunks" => Fam::Chunks,
        _ => panic!("bad kind {kind}"),
    };
    let shape = parse_list(toks.next().unwrap());
    let strides = parse_list(toks.next().unwrap());
    let p1 = toks.next().unwrap().parse().unwrap();
    let p2 = toks.next().unwrap().parse().unwrap();
    assert_eq!(toks.next(), Some("|"));
    let h = H::parse(&mut toks);
    assert!(toks.next().is_none(), "trailing history tokens");
    Case { fam, mutable, shape, strides, p1, p2, h }
}

// ---------------------------------------------------------------------------------------------
// Item formatting (implementation side)

fn fmt_shape(shape: &[usize]) -> String {
    if shape.is_empty() {
        "s".to_string()
    } else {
        hcommon::join(shape.iter(), "x")
    }
}

/// Call `f` with every index of the box `ranges` in row-major order.
fn for_each_index(ranges: &[(usize, usize)], mut f: impl FnMut(&[usize])) {
    if ranges.iter().any(|&(lo, hi)| lo >= hi) {
        return;
    }
    let mut idx: Vec<usize> = ranges.iter().map(|r| r.0).collect();
    loop {
        f(&idx);
        let mut d = ranges.len();
        loop {
            if d == 0 {
                return;
            }
            d -= 1;
            idx[d] += 1;
            if idx[d] < ranges[d].1 {
                break;
            }
            idx[d] = ranges[d].0;
        }
    }
}

/// `<shape>:<elems>` of a sub-view yielded by the implementation, read by indexing it.
fn fmt_view(v: &TensorView<u32>, mut offs: Option<&mut Vec<u32>>) -> String {
    let shape: Vec<usize> = v.shape().to_vec();
    let ranges: Vec<(usize, usize)> = shape.iter().map(|&s| (0, s)).collect();
    let mut elems: Vec<String> = vec![];
    for_each_index(&ranges, |idx| match v.get(idx) {
        Some(&x) => {
            if let Some(o) = offs.as_mut() {
                o.push(x);
            }
            elems.push(x.to_string())
        }
        None => elems.push("?".to_string()),
    });
    format!("{}:{}", fmt_shape(&shape), elems.join(","))
}

fn fmt_lane(l: &Lane<u32>) -> String {
    let n = l.as_view().size(0);
    let elems: Vec<String> = (0..n)
        .map(|i| match l.get(i) {
            Some(x) => x.to_string(),
            None => "?".to_string(),
        })
        .collect();
    format!("{}:{}", n, elems.join(","))
}

fn fmt_lane_mut(l: LaneMut<u32>, offs: &mut Vec<u32>) -> String {
    let v = l.into_view();
    let n = v.size(0);
    let elems: Vec<String> = (0..n)
        .map(|i| {
            let x = v[[i]];
            offs.push(x);
            x.to_string()
        })
        .collect();
    format!("{}:{}", n, elems.join(","))
}

fn opt(x: Option<String>) -> String {
    x.unwrap_or_else(|| "-".to_string())
}

// ---------------------------------------------------------------------------------------------
// Running a history on a real iterator

fn run<I>(mut it: I, h: &H, obs: &mut Vec<String>, fmt: &mut dyn FnMut(<I as Iterator>::Item) -> String)
where
    I: DoubleEndedIterator
        + ExactSizeIterator
        + SplitIterator
        + IntoParallelIterator<Item = <I as Iterator>::Item>,
    <I as IntoParallelIterator>::Iter: IndexedParallelIterator,
    <I as Iterator>::Item: Send,
{
    match h {
        H::Drop => drop(it),
        H::Fold => {
            let v = it.fold(Vec::new(), |mut v: Vec<String>, x| {
                v.push(fmt(x));
                v
            });
            obs.push(format!("F[{}]", v.join(";")));
        }
        H::Par => {
            let v: Vec<<I as Iterator>::Item> = it.into_par_iter().collect();
            let s: Vec<String> = v.into_iter().map(|x| fmt(x)).collect();
            obs.push(format!("P[{}]", s.join(";")));
        }
        H::ParRev => {
            let v: Vec<<I as Iterator>::Item> = it.into_par_iter().rev().collect();
            let s: Vec<String> = v.into_iter().map(|x| fmt(x)).collect();
            obs.push(format!("Q[{}]", s.join(";")));
        }
        H::Rev => {
            let v: Vec<<I as Iterator>::Item> = it.rev().collect();
            let s: Vec<String> = v.into_iter().map(|x| fmt(x)).collect();
            obs.push(format!("R[{}]", s.join(";")));
        }
        H::Next(r) => {
            let x = it.next();
            obs.push(opt(x.map(|x| fmt(x))));
            run(it, r, obs, fmt)
        }
        H::Back(r) => {
            let x = it.next_back();
            obs.push(opt(x.map(|x| fmt(x))));
            run(it, r, obs, fmt)
        }
        H::Len(r) => {
            obs.push(format!("L{}", ExactSizeIterator::len(&it)));
            run(it, r, obs, fmt)
        }
        H::Nth(k, r) => {
            let x = it.nth(*k);
            obs.push(opt(x.map(|x| fmt(x))));
            run(it, r, obs, fmt)
        }
        H::Split(k, a, b) => {
            let (left, right) = SplitIterator::split_at(it, *k);
            run(left, a, obs, fmt);
            run(right, b, obs, fmt)
        }
    }
}

/// Run a history without `split_at`/rayon on a plain double-ended exact-size iterator
/// (`Lane`, `LaneMut`).
fn run_simple<I>(mut it: I, h: &H, obs: &mut Vec<String>, fmt: &mut dyn FnMut(I::Item) -> String)
where
    I: DoubleEndedIterator + ExactSizeIterator,
{
    match h {
        H::Drop => drop(it),
        H::Fold => {
            let v = it.fold(Vec::new(), |mut v: Vec<String>, x| {
                v.push(fmt(x));
                v
            });
            obs.push(format!("F[{}]", v.join(";")));
        }
        H::Rev => {
            let v: Vec<String> = it.rev().map(|x| fmt(x)).collect();
            obs.push(format!("R[{}]", v.join(";")));
        }
        H::Next(r) => {
            let x = it.next();
            obs.push(opt(x.map(|x| fmt(x))));
            run_simple(it, r, obs, fmt)
        }
        H::Back(r) => {
            let x = it.next_back();
            obs.push(opt(x.map(|x| fmt(x))));
            run_simple(it, r, obs, fmt)
        }
        H::Len(r) => {
            obs.push(format!("L{}", ExactSizeIterator::len(&it)));
            run_simple(it, r, obs, fmt)
        }
        H::Nth(k, r) => {
            let x = it.nth(*k);
            obs.push(opt(x.map(|x| fmt(x))));
            run_simple(it, r, obs, fmt)
        }
        H::Par | H::ParRev | H::Split(..) => unreachable!("lane histories have no split/rayon ops"),
    }
}

/// Run the case on the real crate. `data` is the (private copy of the) storage.
fn run_real(c: &Case, mutable: bool, data: &mut [u32], obs: &mut Vec<String>, offs: &mut Vec<u32>) {
    let (p1, p2) = (c.p1, c.p2);
    if !mutable {
        let view = TensorView::<u32>::from_slice_with_strides(&c.shape[..], &*data, &c.strides[..])
            .expect("from_slice_with_strides failed");
        match c.fam {
            Fam::Iter => run(view.iter(), &c.h, obs, &mut |x: &u32| x.to_string()),
            Fam::Lanes => run(view.lanes(p1), &c.h, obs, &mut |l| fmt_lane(&l)),
            Fam::Lane => match view.lanes(p1).nth(p2) {
                None => obs.push("nolane".to_string()),
                Some(lane) => run_simple(lane, &c.h, obs, &mut |x: &u32| x.to_string()),
            },
            Fam::Inner => run(view.inner_iter_dyn(p1), &c.h, obs, &mut |v| fmt_view(&v, None)),
            Fam::Axis => run(view.axis_iter(p1), &c.h, obs, &mut |v| fmt_view(&v, None)),
            Fam::Chunks => run(view.axis_chunks(p1, p2), &c.h, obs, &mut |v| fmt_view(&v, None)),
        }
    } else {
        let mut vm = TensorViewMut::<u32>::from_data_with_strides(&c.shape[..], data, &c.strides[..])
            .expect("from_data_with_strides failed");
        match c.fam {
            Fam::Iter => run(vm.iter_mut(), &c.h, obs, &mut |x: &mut u32| {
                offs.push(*x);
                x.to_string()
            }),
            Fam::Lanes => run(vm.lanes_mut(p1), &c.h, obs, &mut |l| fmt_lane_mut(l, offs)),
            Fam::Lane => match vm.lanes_mut(p1).nth(p2) {
                None => obs.push("nolane".to_string()),
                Some(lane) => run_simple(lane, &c.h, obs, &mut |x: &mut u32| {
                    offs.push(*x);
                    x.to_string()
                }),
            },
            Fam::Inner => run(vm.inner_iter_dyn_mut(p1), &c.h, obs, &mut |v: TensorViewMut<u32>| {
                fmt_view(&v.view(), Some(offs))
            }),
            Fam::Axis => run(vm.axis_iter_mut(p1), &c.h, obs, &mut |v: TensorViewMut<u32>| {
                fmt_view(&v.view(), Some(offs))
            }),
            Fam::Chunks => run(vm.axis_chunks_mut(p1, p2), &c.h, obs, &mut |v: TensorViewMut<u32>| {
                fmt_view(&v.view(), Some(offs))
            }),
        }
    }
}

// ---------------------------------------------------------------------------------------------
// Oracle

/// Item of the oracle: the elements of `view` in the box `ranges` (row-major), with the shape made
/// of the sizes of the dims flagged in `keep`. Only `view[idx]` is used; the value is cross-checked
/// against the offset computed from the strides (value == storage offset).
fn oracle_sub(
    view: &TensorView<u32>,
    strides: &[usize],
    ranges: &[(usize, usize)],
    keep: &[bool],
    bad: &mut Option<String>,
) -> String {
    let shape: Vec<usize> = ranges
        .iter()
        .zip(keep)
        .filter(|(_, &k)| k)
        .map(|(r, _)| r.1 - r.0)
        .collect();
    let mut elems: Vec<String> = vec![];
    for_each_index(ranges, |idx| {
        let x = view[idx];
        let off: usize = idx.iter().zip(strides).map(|(i, s)| i * s).sum();
        if x as usize != off && bad.is_none() {
            *bad = Some(format!("view[{idx:?}] read offset {x}, strides give {off}"));
        }
        elems.push(x.to_string());
    });
    format!("{}:{}", fmt_shape(&shape), elems.join(","))
}

fn oracle_items(view: &TensorView<u32>, c: &Case, bad: &mut Option<String>) -> Vec<String> {
    let shape = &c.shape;
    let strides = &c.strides;
    let rank = shape.len();
    let full: Vec<(usize, usize)> = shape.iter().map(|&s| (0, s)).collect();
    let mut items = vec![];
    match c.fam {
        Fam::Iter => {
            for_each_index(&full, |idx| {
                let x = view[idx];
                let off: usize = idx.iter().zip(strides.iter()).map(|(i, s)| i * s).sum();
                if x as usize != off && bad.is_none() {
                    *bad = Some(format!("view[{idx:?}] read offset {x}, strides give {off}"));
                }
                items.push(x.to_string());
            });
        }
        Fam::Lanes | Fam::Lane => {
            let dim = c.p1;
            if shape.iter().all(|&s| s > 0) {
                let mut outer = full.clone();
                outer[dim] = (0, 1);
                let keep: Vec<bool> = (0..rank).map(|d| d == dim).collect();
                for_each_index(&outer, |idx| {
                    let mut r: Vec<(usize, usize)> = idx.iter().map(|&i| (i, i + 1)).collect();
                    r[dim] = full[dim];
                    items.push(oracle_sub(view, strides, &r, &keep, bad));
                });
            }
        }
        Fam::Inner => {
            let n_outer = rank - c.p1;
            let outer: Vec<(usize, usize)> = (0..rank).map(|d| if d < n_outer { full[d] } else { (0, 1) }).collect();
            let keep: Vec<bool> = (0..rank).map(|d| d >= n_outer).collect();
            for_each_index(&outer, |idx| {
                let r: Vec<(usize, usize)> = (0..rank)
                    .map(|d| if d < n_outer { (idx[d], idx[d] + 1) } else { full[d] })
                    .collect();
                items.push(oracle_sub(view, strides, &r, &keep, bad));
            });
        }
        Fam::Axis => {
            let a = c.p1;
            let keep: Vec<bool> = (0..rank).map(|d| d != a).collect();
            for i in 0..shape[a] {
                let mut r = full.clone();
                r[a] = (i, i + 1);
                items.push(oracle_sub(view, strides, &r, &keep, bad));
            }
        }
        Fam::Chunks => {
            let (a, ch) = (c.p1, c.p2);
            let keep = vec![true; rank];
            let n = (shape[a] + ch - 1) / ch;
            for k in 0..n {
                let mut r = full.clone();
                r[a] = (k * ch, ((k + 1) * ch).min(shape[a]));
                items.push(oracle_sub(view, strides, &r, &keep, bad));
            }
        }
    }
    items
}

/// Replay `h` on the item list. Returns false when a (specified) panic stopped the case.
fn replay(mut items: VecDeque<String>, h: &H, obs: &mut Vec<String>) -> bool {
    match h {
        H::Drop => true,
        H::Fold => {
            obs.push(format!("F[{}]", hcommon::join(items.iter(), ";")));
            true
        }
        H::Par => {
            obs.push(format!("P[{}]", hcommon::join(items.iter(), ";")));
            true
        }
        H::ParRev => {
            obs.push(format!("Q[{}]", hcommon::join(items.iter().rev(), ";")));
            true
        }
        H::Rev => {
            obs.push(format!("R[{}]", hcommon::join(items.iter().rev(), ";")));
            true
        }
        H::Next(r) => {
            obs.push(opt(items.pop_front()));
            replay(items, r, obs)
        }
        H::Back(r) => {
            obs.push(opt(items.pop_back()));
            replay(items, r, obs)
        }
        H::Len(r) => {
            obs.push(format!("L{}", items.len()));
            replay(items, r, obs)
        }
        H::Nth(k, r) => {
            let d = (*k).min(items.len());
            items.drain(..d);
            obs.push(opt(items.pop_front()));
            replay(items, r, obs)
        }
        H::Split(k, a, b) => {
            if *k > items.len() {
                return false;
            }
            let right = items.split_off(*k);
            replay(items, a, obs) && replay(right, b, obs)
        }
    }
}

fn clip(s: &str) -> String {
    if s.chars().count() > 60 {
        format!("{}...", s.chars().take(60).collect::<String>())
    } else {
        s.to_string()
    }
}

// ---------------------------------------------------------------------------------------------
// One case

fn min_data_len(shape: &[usize], strides: &[usize]) -> usize {
    if shape.iter().any(|&s| s == 0) {
        0
    } else {
        1 + shape.iter().zip(strides).map(|(&s, &st)| (s - 1) * st).sum::<usize>()
    }
}

/// The constructor of the iterator kind panics on these parameters.
fn invalid_param(c: &Case) -> bool {
    let rank = c.shape.len();
    match c.fam {
        Fam::Iter => false,
        Fam::Lanes | Fam::Lane | Fam::Axis => c.p1 >= rank,
        Fam::Inner => c.p1 > rank,
        Fam::Chunks => c.p1 >= rank || c.p2 == 0,
    }
}

fn one(out: &mut Out, c: &Case, large: bool) {
    let rank = c.shape.len();
    let n_el: usize = c.shape.iter().product();
    let data: Vec<u32> = (0..min_data_len(&c.shape, &c.strides) as u32).collect();

    // Mutable views reject (possibly) overlapping layouts: fall back to the immutable kind.
    let mut mutable = c.mutable;
    if mutable {
        let mut d2 = data.clone();
        let ok = hcommon::catch(|| {
            TensorViewMut::<u32>::from_data_with_strides(&c.shape[..], &mut d2[..], &c.strides[..]).is_ok()
        })
        .unwrap_or(false);
        if !ok {
            mutable = false;
        }
    }

    let kind = format!("{}{}", c.fam.name(), if mutable { "mut" } else { "" });
    let mut htoks = vec![];
    c.h.tokens(&mut htoks);
    let req = format!(
        "{} {} {} {} {} | {}",
        kind,
        fmt_list(&c.shape),
        fmt_list(&c.strides),
        c.p1,
        c.p2,
        htoks.join(" ")
    );

    // Implementation.
    let mut obs: Vec<String> = vec!["ok".to_string()];
    let mut offs: Vec<u32> = vec![];
    let mut d2 = data.clone();
    let r = hcommon::catch(|| run_real(c, mutable, &mut d2[..], &mut obs, &mut offs));
    let mut panic_msg = String::new();
    if let Err(m) = r {
        obs.push("panic".to_string());
        panic_msg = format!(" ({})", clip(&m));
    }

    // Oracle.
    let mut fail: Option<String> = None;
    let mut contig = false;
    let mut n_items = 0;
    match TensorView::<u32>::from_slice_with_strides(&c.shape[..], &data[..], &c.strides[..]) {
        Err(e) => fail = Some(format!("parent view rejected: {e:?}")),
        Ok(view) => {
            contig = view.is_contiguous();
            let mut bad = None;
            let mut exp: Vec<String> = vec!["ok".to_string()];
            // Constructor panics: invalid dim/axis/inner-dims/chunk size, and the
            // `assert!(!is_broadcast())` of LanesMut/AxisIterMut/AxisChunksMut (any zero stride in
            // a non-empty layout, even on a size-1 dim).
            let invalid = invalid_param(c);
            let bcast = mutable
                && matches!(c.fam, Fam::Lanes | Fam::Lane | Fam::Axis | Fam::Chunks)
                && n_el > 0
                && c.strides.iter().any(|&st| st == 0);
            if invalid || bcast {
                out.bucket(if invalid { "invalid_param_panic" } else { "mut_broadcast_panic" });
                exp.push("panic".to_string());
            } else {
                let mut items = oracle_items(&view, c, &mut bad);
                if c.fam == Fam::Lane {
                    // elements of the `p2`-th lane
                    match items.get(c.p2) {
                        None => {
                            exp.push("nolane".to_string());
                            items = vec![];
                        }
                        Some(l) => {
                            let elems = l.split(':').nth(1).unwrap_or("");
                            items = if elems.is_empty() {
                                vec![]
                            } else {
                                elems.split(',').map(|e| e.to_string()).collect()
                            };
                        }
                    }
                }
                n_items = items.len();
                if exp.len() == 1 && !replay(items.into(), &c.h, &mut exp) {
                    exp.push("panic".to_string());
                }
            }
            if let Some(b) = bad {
                fail = Some(b);
            } else if exp != obs {
                let i = (0..exp.len().max(obs.len()))
                    .find(|&i| exp.get(i) != obs.get(i))
                    .unwrap();
                let got = obs.get(i).map(|s| clip(s)).unwrap_or_else(|| "<end>".into());
                fail = Some(format!(
                    "token {} expected {} got {}{}",
                    i,
                    exp.get(i).map(|s| clip(s)).unwrap_or_else(|| "<end>".into()),
                    got,
                    if got == "panic" { panic_msg.as_str() } else { "" }
                ));
            } else if mutable {
                offs.sort_unstable();
                if let Some(w) = offs.windows(2).find(|w| w[0] == w[1]) {
                    fail = Some(format!("mutable iterator handed out offset {} twice", w[0]));
                }
            }
        }
    }

    let ops = c.h.ops();
    out.bucket(&kind);
    out.bucket(&format!("rank{rank}"));
    out.bucket(if contig { "contig" } else { "noncontig" });
    if n_el == 0 {
        out.bucket("empty");
    }
    if c.h.has_split() {
        out.bucket("has_split");
    }
    if c.h.back_after_front(false) {
        out.bucket("has_back_after_front");
    }
    if c.h.has_par() {
        out.bucket("par");
    }
    if large {
        out.bucket("large");
    }
    if obs.last().map(|s| s == "panic").unwrap_or(false) {
        out.bucket("panic");
    }
    let nontrivial = n_el > 0 && n_items >= 2 && ops >= 2;
    out.case(&req, &obs.join(" "), fail.as_deref(), nontrivial);
}

// ---------------------------------------------------------------------------------------------
// Generators

fn contig_strides(shape: &[usize]) -> Vec<usize> {
    let mut st = vec![0usize; shape.len()];
    let mut p = 1usize;
    for d in (0..shape.len()).rev() {
        st[d] = p;
        p *= shape[d].max(1);
    }
    st
}

/// Derive a layout with the given sizes from a contiguous one.
fn gen_strides(rng: &mut Rng, sizes: &[usize], allow_overlap: bool) -> (Vec<usize>, Vec<usize>) {
    let rank = sizes.len();
    let mut mode = rng.below(10);
    if !allow_overlap && mode >= 8 {
        mode = rng.below(8);
    }
    let (do_step, do_gap, do_perm) = match mode {
        0 | 1 => (false, false, false),
        2 => (false, false, true),
        3 => (true, false, false),
        4 => (false, true, false),
        5 => (true, false, true),
        6 => (true, true, true),
        7 => (false, true, true),
        8 => (rng.chance(1, 3), false, rng.chance(1, 2)),
        _ => (false, false, false),
    };
    // Base (contiguous) tensor of which the view is a stepped / narrowed slice.
    let mut base: Vec<usize> = sizes.to_vec();
    let mut factor = vec![1usize; rank];
    if do_step && rank > 0 {
        let forced = rng.usize_below(rank);
        for d in 0..rank {
            if d == forced || rng.chance(1, 3) {
                let f = 2 + rng.usize_below(2);
                factor[d] = f;
                if sizes[d] > 0 {
                    // ceil(base / f) == size
                    base[d] = sizes[d] * f - rng.usize_below(f);
                }
            }
        }
    }
    if do_gap && rank > 1 {
        // Narrow an inner dim: every stride outside of it grows by an extra factor.
        let d = 1 + rng.usize_below(rank - 1);
        base[d] = base[d].max(1) * (2 + rng.usize_below(2));
        if rng.chance(1, 4) {
            let d2 = 1 + rng.usize_below(rank - 1);
            if d2 != d {
                base[d2] = base[d2].max(1) + 1 + rng.usize_below(2);
            }
        }
    }
    let mut strides = contig_strides(&base);
    for d in 0..rank {
        strides[d] *= factor[d];
    }
    let mut shape = sizes.to_vec();
    if do_perm {
        let mut perm: Vec<usize> = (0..rank).collect();
        rng.shuffle(&mut perm);
        shape = perm.iter().map(|&i| shape[i]).collect();
        strides = perm.iter().map(|&i| strides[i]).collect();
    }
    if mode == 8 {
        // broadcast
        let forced = if rank > 0 { rng.usize_below(rank) } else { 0 };
        for d in 0..rank {
            if d == forced || rng.chance(1, 3) {
                strides[d] = 0;
            }
        }
    }
    if mode == 9 {
        for d in 0..rank {
            strides[d] = rng.usize_below(7);
        }
    }
    if rng.chance(3, 10) {
        for d in 0..rank {
            if shape[d] == 1 {
                // Mutable lane/axis/chunk iterators assert `!is_broadcast()`, which is true for
                // *any* zero stride in a non-empty layout, even on a size-1 dim: such layouts are
                // accepted by TensorViewMut and make LanesMut/AxisIterMut/AxisChunksMut::new panic
                // (modelled; the oracle expects the panic).
                let _ = allow_overlap;
                strides[d] = rng.usize_below(21);
            }
        }
    }
    (shape, strides)
}

fn gen_sizes_small(rng: &mut Rng, min_rank: usize) -> Vec<usize> {
    const RANKS: [usize; 17] = [0, 1, 1, 1, 2, 2, 2, 2, 3, 3, 3, 3, 4, 4, 4, 5, 5];
    let mut rank = *rng.pick(&RANKS);
    while rank < min_rank {
        rank = *rng.pick(&RANKS);
    }
    let mut sizes: Vec<usize> = (0..rank)
        .map(|_| {
            let r = rng.below(100);
            if r < 8 {
                0
            } else if r < 30 {
                1
            } else {
                2 + rng.usize_below(3)
            }
        })
        .collect();
    while sizes.iter().product::<usize>() > 200 {
        let m = (0..rank).max_by_key(|&d| sizes[d]).unwrap();
        sizes[m] -= 1;
    }
    sizes
}

fn gen_sizes_large(rng: &mut Rng) -> Vec<usize> {
    const TARGETS: [usize; 10] = [300, 300, 500, 500, 800, 1200, 1200, 2000, 3000, 5000];
    let target = *rng.pick(&TARGETS);
    let rank = 1 + rng.usize_below(4);
    let root = (target as f64).powf(1.0 / rank as f64);
    let mut sizes: Vec<usize> = (0..rank)
        .map(|_| ((root * (0.6 + rng.f32_unit() as f64 * 0.9)).round() as usize).max(2))
        .collect();
    while sizes.iter().product::<usize>() > 5000 {
        let m = (0..rank).max_by_key(|&d| sizes[d]).unwrap();
        sizes[m] -= 1;
    }
    sizes
}

fn gen_terminal(rng: &mut Rng, par_only: bool, simple: bool) -> H {
    if par_only {
        return if rng.chance(1, 2) { H::Par } else { H::ParRev };
    }
    let r = rng.below(100);
    if simple {
        return if r < 25 {
            H::Drop
        } else if r < 65 {
            H::Fold
        } else {
            H::Rev
        };
    }
    if r < 30 {
        H::Drop
    } else if r < 70 {
        H::Fold
    } else if r < 75 {
        H::Rev
    } else if r < 87 {
        H::Par
    } else {
        H::ParRev
    }
}

/// `nest` at or above this value: no `split_at`, no rayon terminals (for `Lane`/`LaneMut`).
const SIMPLE_NEST: usize = 50;

/// Random history for an iterator of `len` items using at most `budget` non-terminal ops.
fn gen_h(rng: &mut Rng, len: usize, budget: usize, nest: usize, par_only: bool) -> H {
    if budget == 0 {
        return gen_terminal(rng, par_only, nest >= SIMPLE_NEST);
    }
    let r = rng.below(100);
    if r < 30 {
        H::Next(Box::new(gen_h(rng, len.saturating_sub(1), budget - 1, nest, par_only)))
    } else if r < 55 {
        H::Back(Box::new(gen_h(rng, len.saturating_sub(1), budget - 1, nest, par_only)))
    } else if r < 67 {
        let k = if rng.chance(1, 8) { len + 1 + rng.usize_below(3) } else { rng.usize_below(4) };
        H::Nth(k, Box::new(gen_h(rng, len.saturating_sub(k + 1), budget - 1, nest, par_only)))
    } else if r < 77 {
        H::Len(Box::new(gen_h(rng, len, budget - 1, nest, par_only)))
    } else if r < 90 {
        if nest >= 3 {
            return H::Next(Box::new(gen_h(rng, len.saturating_sub(1), budget - 1, nest, par_only)));
        }
        let k = match rng.below(20) {
            0 => len + 1, // the trait says: panics
            1 | 2 => 0,
            3 | 4 => len,
            5 | 6 => len / 2,
            _ => rng.usize_below(len + 1),
        };
        let lb = rng.usize_below(budget);
        let rb = budget - 1 - lb;
        let left = gen_h(rng, k.min(len), lb, nest + 1, par_only);
        let right = gen_h(rng, len.saturating_sub(k), rb, nest + 1, par_only);
        H::Split(k, Box::new(left), Box::new(right))
    } else {
        gen_terminal(rng, par_only, nest >= SIMPLE_NEST)
    }
}

fn n_items(fam: Fam, shape: &[usize], p1: usize, p2: usize) -> usize {
    let total: usize = shape.iter().product();
    let rank = shape.len();
    let invalid = match fam {
        Fam::Iter => false,
        Fam::Lanes | Fam::Lane | Fam::Axis => p1 >= rank,
        Fam::Inner => p1 > rank,
        Fam::Chunks => p1 >= rank || p2 == 0,
    };
    if invalid {
        return 0;
    }
    match fam {
        Fam::Lane => shape[p1],
        Fam::Iter => total,
        Fam::Lanes => {
            if total == 0 {
                0
            } else {
                total / shape[p1]
            }
        }
        Fam::Inner => shape[..shape.len() - p1].iter().product(),
        Fam::Axis => shape[p1],
        Fam::Chunks => (shape[p1] + p2 - 1) / p2,
    }
}

fn gen_case(rng: &mut Rng, large: bool) -> Case {
    const FAMS: [Fam; 6] = [Fam::Iter, Fam::Lanes, Fam::Lane, Fam::Inner, Fam::Axis, Fam::Chunks];
    let fam = *rng.pick(&FAMS);
    let mutable = rng.chance(1, 2);
    // ~2.5%: parameters on which the constructor panics (invalid dim / axis / inner dims / chunk 0).
    let invalid = !large && fam != Fam::Iter && rng.chance(1, 40);
    let min_rank = if !invalid && matches!(fam, Fam::Lanes | Fam::Lane | Fam::Axis | Fam::Chunks) { 1 } else { 0 };
    let sizes = if large { gen_sizes_large(rng) } else { gen_sizes_small(rng, min_rank) };
    let (shape, strides) = gen_strides(rng, &sizes, !mutable);
    let rank = shape.len();
    let (p1, p2) = if invalid {
        match fam {
            Fam::Iter => (0, 0),
            Fam::Lanes | Fam::Axis => (rank + rng.usize_below(3), 0),
            Fam::Lane => (rank + rng.usize_below(3), rng.usize_below(3)),
            Fam::Inner => (rank + 1 + rng.usize_below(3), 0),
            Fam::Chunks => {
                if rank > 0 && rng.chance(1, 2) {
                    (rng.usize_below(rank), 0)
                } else {
                    (rank + rng.usize_below(3), 1 + rng.usize_below(3))
                }
            }
        }
    } else {
        match fam {
            Fam::Iter => (0, 0),
            Fam::Lanes | Fam::Axis => (rng.usize_below(rank), 0),
            Fam::Lane => {
                let d = rng.usize_below(rank);
                let total: usize = shape.iter().product();
                let n_lanes = if total == 0 { 0 } else { total / shape[d] };
                let i = if rng.chance(1, 12) { n_lanes + rng.usize_below(2) } else { rng.usize_below(n_lanes.max(1)) };
                (d, i)
            }
            Fam::Inner => {
                if large {
                    (rng.usize_below(rank.min(2)), 0)
                } else {
                    (rng.usize_below(rank + 1), 0)
                }
            }
            Fam::Chunks => {
                let a = rng.usize_below(rank);
                let c = if rng.chance(1, 10) { 1 + rng.usize_below(8) } else { 1 + rng.usize_below(shape[a].min(4) + 1) };
                (a, c)
            }
        }
    };
    let len = n_items(fam, &shape, p1, p2);
    let h = if fam == Fam::Lane {
        let budget = rng.usize_below(if large { 4 } else { 11 });
        gen_h(rng, len, budget, SIMPLE_NEST, false)
    } else if large {
        let budget = rng.usize_below(4);
        gen_h(rng, len, budget, 0, true)
    } else {
        let budget = rng.usize_below(13);
        gen_h(rng, len, budget, 0, false)
    };
    Case { fam, mutable, shape, strides, p1, p2, h }
}

/// All histories of exactly `n` ops from {n, b, t1, l} followed by `f`.
fn enum_histories(n: usize) -> Vec<H> {
    if n == 0 {
        return vec![H::Fold];
    }
    let mut v = vec![];
    for r in enum_histories(n - 1) {
        v.push(H::Next(Box::new(r.clone())));
        v.push(H::Back(Box::new(r.clone())));
        v.push(H::Nth(1, Box::new(r.clone())));
        v.push(H::Len(Box::new(r)));
    }
    v
}

fn main() {
    let args = hcommon::parse_args();
    hcommon::quiet_panics();
    run_all(&args)
}

fn run_all(args: &Args) {
    let mut out = Out::new(&args.out);
    let mut rng = Rng::new(args.seed);

    // (a) hand-written seeds
    for line in [
        "iter 3,3 1,3 0 0 | n b b f",
        "chunks 5 1 0 2 | b b b .",
        "axis 3,3 3,1 0 0 | n s1 f f",
        "chunks 5 1 0 2 | s3 f f",
        "chunks 5 1 0 2 | s0 n . f",
        "chunksmut 5 1 0 2 | s1 b f b b f",
        "lanes 2,3,2 1,2,6 1 0 | n s2 b f n Q",
        "itermut 2,3,2 12,2,1 0 0 | t1 s5 b P b n f",
        "inner 2,2,3 1,2,4 2 0 | b l s1 f P",
        "axismut 4,2 2,1 0 0 | n b s1 Q f",
        "iter 2,0,3 0,3,1 0 0 | l n b s0 f f",
        "iter - - 0 0 | l n n f",
        "inner - - 0 0 | l b b f",
        "iter 4 1 0 0 | n s4 f f",
        "iter 4 2 0 0 | n s4 f f",
        "lanes 3,1,2 0,7,0 2 0 | b n s1 f Q",
        "lane 2,3 3,1 0 1 | n t0 l R",
        "lanemut 2,3 3,1 1 1 | t1 b n f",
        "lanemut 3,4 1,3 1 2 | t2 t0 t5 l f",
        "lane 2,3 3,1 0 7 | n .",
        "lanesmut 1,3 0,1 0 0 | f",
        "axismut 1,3 0,1 1 0 | n .",
        "chunksmut 1,3 0,1 1 2 | l .",
        "itermut 1,3 0,1 0 0 | n b R",
        "lanes 2,3 3,1 2 0 | f",
        "inner 2,3 3,1 3 0 | l .",
        "axis 2,3 3,1 2 0 | .",
        "chunks 2,3 3,1 0 0 | .",
        "chunks 2,3 3,1 2 1 | .",
    ] {
        one(&mut out, &parse_case(line), false);
    }

    // (b) thorough: exhaustive short histories on all tiny shapes
    if args.thorough {
        let mut hs = vec![];
        for n in 0..=4 {
            hs.extend(enum_histories(n));
        }
        for rank in 0..=3usize {
            for mut code in 0..3usize.pow(rank as u32) {
                let mut shape = vec![0usize; rank];
                for d in 0..rank {
                    shape[d] = code % 3;
                    code /= 3;
                }
                let c_strides = contig_strides(&shape);
                let rev_shape: Vec<usize> = shape.iter().rev().cloned().collect();
                let mut t_strides = contig_strides(&rev_shape);
                t_strides.reverse();
                let mut variants = vec![c_strides.clone()];
                if t_strides != c_strides {
                    variants.push(t_strides);
                }
                for strides in &variants {
                    for h in &hs {
                        for fam in [Fam::Iter, Fam::Lanes] {
                            if fam == Fam::Lanes && rank == 0 {
                                continue;
                            }
                            let c = Case {
                                fam,
                                mutable: false,
                                shape: shape.clone(),
                                strides: strides.clone(),
                                p1: 0,
                                p2: 0,
                                h: h.clone(),
                            };
                            one(&mut out, &c, false);
                        }
                    }
                }
            }
        }
    }

    // (c) random cases
    let total: u64 = if args.thorough { 600_000 } else { 60_000 };
    while out.evaluations < total {
        let large = rng.chance(1, 50);
        let c = gen_case(&mut rng, large);
        one(&mut out, &c, large);
    }

    out.note("lane/lanemut: the p2-th item of lanes(p1)/lanes_mut(p1) is consumed by next/next_back/nth/len histories ending in drop/fold/rev (Lane is not a SplitIterator)");
    out.note("all ten kinds implement IntoParallelIterator with an indexed ParIter, so P and Q are generated for every kind");
    out.note("a mutable kind whose layout TensorViewMut::from_data_with_strides rejects (possible overlap) is run as the immutable kind of the same family");
    out.finish("one layout + one iterator kind (iter/lanes/inner_iter_dyn/axis_iter/axis_chunks and a single Lane/LaneMut drained element-wise, shared and mutable) + one consumption history tree over next/next_back/nth/len/split_at with terminals drop/fold/rayon collect/rayon rev collect; layouts: rank 0..5, sizes 0..4 (<=200 elements; 2% large up to 5000 elements with short histories ending in P/Q), derived from contiguous by permutation, stepping, outer gaps, broadcasting and arbitrary strides (shared kinds only), size-1 dims with arbitrary stride; hand-written seeds first; thorough tier adds every history of <=4 ops from {n,b,t1,l} then f on every shape of <=3 dims with sizes 0..2 (contiguous and transposed) for iter and lanes(0); ~5% of splits use index len+1 (specified panic); ~2.5% invalid dim/axis/inner-dims/chunk-0 parameters and size-1 zero-stride dims on mutable lane/axis/chunk kinds (constructor panics, modelled); non-trivial = non-empty tensor, >=2 items, >=2 calls; distinct by request text");
}
