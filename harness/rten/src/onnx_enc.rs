//! Minimal ONNX protobuf *encoder* shared by the `h-rten` harness binaries
//! (`#[path = "../onnx_enc.rs"] mod onnx_enc;`).
//!
//! `rten`'s own `onnx_builder` is `cfg(test)`-only, so harnesses build model
//! bytes themselves and load them through the public `Model::load` /
//! `ModelOptions::load`, i.e. the path real users take. Field numbers follow
//! onnx.proto3 (the same numbers `rten-onnx/src/onnx.rs` decodes).
#![allow(dead_code)]

pub fn varint(out: &mut Vec<u8>, mut v: u64) {
    loop {
        let b = (v & 0x7f) as u8;
        v >>= 7;
        if v == 0 {
            out.push(b);
            return;
        }
        out.push(b | 0x80);
    }
}

fn tag(out: &mut Vec<u8>, field: u64, wire: u64) {
    varint(out, (field << 3) | wire);
}

pub fn f_varint(out: &mut Vec<u8>, field: u64, v: u64) {
    tag(out, field, 0);
    varint(out, v);
}

pub fn f_i64(out: &mut Vec<u8>, field: u64, v: i64) {
    f_varint(out, field, v as u64);
}

pub fn f_bytes(out: &mut Vec<u8>, field: u64, b: &[u8]) {
    tag(out, field, 2);
    varint(out, b.len() as u64);
    out.extend_from_slice(b);
}

pub fn f_str(out: &mut Vec<u8>, field: u64, s: &str) {
    f_bytes(out, field, s.as_bytes());
}

pub fn f_f32(out: &mut Vec<u8>, field: u64, v: f32) {
    tag(out, field, 5);
    out.extend_from_slice(&v.to_le_bytes());
}

/// ONNX `TensorProto.DataType` codes.
pub mod dt {
    pub const FLOAT: i32 = 1;
    pub const UINT8: i32 = 2;
    pub const INT8: i32 = 3;
    pub const INT32: i32 = 6;
    pub const INT64: i32 = 7;
    pub const BOOL: i32 = 9;
    pub const FLOAT16: i32 = 10;
    pub const DOUBLE: i32 = 11;
}

#[derive(Clone, Debug)]
pub enum TensorData {
    /// `raw_data` bytes (little endian elements of `dtype`).
    Raw(Vec<u8>),
    Floats(Vec<f32>),
    Int32s(Vec<i32>),
    Int64s(Vec<i64>),
    /// `double_data` (field 10, packed little-endian f64). Added for C20.
    Doubles(Vec<f64>),
    /// External data: (location, offset, length).
    External(String, Option<u64>, Option<u64>),
}

#[derive(Clone, Debug)]
pub struct Tensor {
    pub name: String,
    pub dtype: i32,
    pub dims: Vec<i64>,
    pub data: TensorData,
}

impl Tensor {
    pub fn f32s(name: &str, dims: &[i64], vals: &[f32]) -> Tensor {
        let mut raw = Vec::new();
        for v in vals {
            raw.extend_from_slice(&v.to_le_bytes());
        }
        Tensor { name: name.into(), dtype: dt::FLOAT, dims: dims.to_vec(), data: TensorData::Raw(raw) }
    }
    pub fn i32s(name: &str, dims: &[i64], vals: &[i32]) -> Tensor {
        let mut raw = Vec::new();
        for v in vals {
            raw.extend_from_slice(&v.to_le_bytes());
        }
        Tensor { name: name.into(), dtype: dt::INT32, dims: dims.to_vec(), data: TensorData::Raw(raw) }
    }
    pub fn i64s(name: &str, dims: &[i64], vals: &[i64]) -> Tensor {
        let mut raw = Vec::new();
        for v in vals {
            raw.extend_from_slice(&v.to_le_bytes());
        }
        Tensor { name: name.into(), dtype: dt::INT64, dims: dims.to_vec(), data: TensorData::Raw(raw) }
    }
    pub fn bools(name: &str, dims: &[i64], vals: &[bool]) -> Tensor {
        Tensor {
            name: name.into(),
            dtype: dt::BOOL,
            dims: dims.to_vec(),
            data: TensorData::Raw(vals.iter().map(|&b| b as u8).collect()),
        }
    }
    pub fn u8s(name: &str, dims: &[i64], vals: &[u8]) -> Tensor {
        Tensor { name: name.into(), dtype: dt::UINT8, dims: dims.to_vec(), data: TensorData::Raw(vals.to_vec()) }
    }
    pub fn i8s(name: &str, dims: &[i64], vals: &[i8]) -> Tensor {
        Tensor {
            name: name.into(),
            dtype: dt::INT8,
            dims: dims.to_vec(),
            data: TensorData::Raw(vals.iter().map(|&b| b as u8).collect()),
        }
    }

    pub fn encode(&self) -> Vec<u8> {
        let mut o = Vec::new();
        for d in &self.dims {
            f_i64(&mut o, 1, *d);
        }
        f_i64(&mut o, 2, self.dtype as i64);
        match &self.data {
            TensorData::Raw(b) => f_bytes(&mut o, 9, b),
            TensorData::Floats(v) => {
                let mut p = Vec::new();
                for x in v {
                    p.extend_from_slice(&x.to_le_bytes());
                }
                f_bytes(&mut o, 4, &p);
            }
            TensorData::Int32s(v) => {
                let mut p = Vec::new();
                for x in v {
                    varint(&mut p, *x as i64 as u64);
                }
                f_bytes(&mut o, 5, &p);
            }
            TensorData::Int64s(v) => {
                let mut p = Vec::new();
                for x in v {
                    varint(&mut p, *x as u64);
                }
                f_bytes(&mut o, 7, &p);
            }
            TensorData::Doubles(v) => {
                let mut p = Vec::new();
                for x in v {
                    p.extend_from_slice(&x.to_le_bytes());
                }
                f_bytes(&mut o, 10, &p);
            }
            TensorData::External(loc, off, len) => {
                let mut kv = |k: &str, v: &str| {
                    let mut e = Vec::new();
                    f_str(&mut e, 1, k);
                    f_str(&mut e, 2, v);
                    f_bytes(&mut o, 13, &e);
                };
                kv("location", loc);
                if let Some(off) = off {
                    kv("offset", &off.to_string());
                }
                if let Some(len) = len {
                    kv("length", &len.to_string());
                }
                f_i64(&mut o, 14, 1); // data_location = EXTERNAL
            }
        }
        f_str(&mut o, 8, &self.name);
        o
    }
}

#[derive(Clone, Debug)]
pub enum Attr {
    Int(i64),
    Float(f32),
    Str(String),
    Ints(Vec<i64>),
    Floats(Vec<f32>),
    Strs(Vec<String>),
    Tensor(Tensor),
    Graph(Graph),
}

fn encode_attr(name: &str, a: &Attr) -> Vec<u8> {
    let mut o = Vec::new();
    f_str(&mut o, 1, name);
    // AttributeProto.type (field 20): FLOAT=1 INT=2 STRING=3 TENSOR=4 GRAPH=5 FLOATS=6 INTS=7 STRINGS=8
    match a {
        Attr::Float(v) => {
            f_f32(&mut o, 2, *v);
            f_i64(&mut o, 20, 1);
        }
        Attr::Int(v) => {
            f_i64(&mut o, 3, *v);
            f_i64(&mut o, 20, 2);
        }
        Attr::Str(s) => {
            f_str(&mut o, 4, s);
            f_i64(&mut o, 20, 3);
        }
        Attr::Tensor(t) => {
            f_bytes(&mut o, 5, &t.encode());
            f_i64(&mut o, 20, 4);
        }
        Attr::Graph(g) => {
            f_bytes(&mut o, 6, &g.encode());
            f_i64(&mut o, 20, 5);
        }
        // onnx.proto is proto2: repeated scalar attribute fields are NOT packed, and
        // rten-onnx's AttributeProto decoder only accepts the unpacked encoding.
        Attr::Floats(v) => {
            for x in v {
                f_f32(&mut o, 7, *x);
            }
            f_i64(&mut o, 20, 6);
        }
        Attr::Ints(v) => {
            for x in v {
                f_i64(&mut o, 8, *x);
            }
            f_i64(&mut o, 20, 7);
        }
        Attr::Strs(v) => {
            for s in v {
                f_str(&mut o, 9, s);
            }
            f_i64(&mut o, 20, 8);
        }
    }
    o
}

#[derive(Clone, Debug, Default)]
pub struct Node {
    pub op_type: String,
    pub name: String,
    pub domain: String,
    /// Empty string = omitted optional input.
    pub inputs: Vec<String>,
    pub outputs: Vec<String>,
    pub attrs: Vec<(String, Attr)>,
}

impl Node {
    pub fn new(op_type: &str, name: &str, inputs: &[&str], outputs: &[&str]) -> Node {
        Node {
            op_type: op_type.into(),
            name: name.into(),
            domain: String::new(),
            inputs: inputs.iter().map(|s| s.to_string()).collect(),
            outputs: outputs.iter().map(|s| s.to_string()).collect(),
            attrs: vec![],
        }
    }
    pub fn attr(mut self, name: &str, a: Attr) -> Node {
        self.attrs.push((name.into(), a));
        self
    }
    pub fn domain(mut self, d: &str) -> Node {
        self.domain = d.into();
        self
    }
    pub fn encode(&self) -> Vec<u8> {
        let mut o = Vec::new();
        for i in &self.inputs {
            f_str(&mut o, 1, i);
        }
        for i in &self.outputs {
            f_str(&mut o, 2, i);
        }
        f_str(&mut o, 3, &self.name);
        f_str(&mut o, 4, &self.op_type);
        for (n, a) in &self.attrs {
            f_bytes(&mut o, 5, &encode_attr(n, a));
        }
        if !self.domain.is_empty() {
            f_str(&mut o, 7, &self.domain);
        }
        o
    }
}

#[derive(Clone, Debug)]
pub enum Dim {
    Fixed(i64),
    Sym(String),
}

/// A graph input / output / value_info entry. `shape = None` omits the shape.
#[derive(Clone, Debug)]
pub struct ValueInfo {
    pub name: String,
    pub dtype: i32,
    pub shape: Option<Vec<Dim>>,
}

impl ValueInfo {
    pub fn new(name: &str, dtype: i32, shape: Option<Vec<Dim>>) -> ValueInfo {
        ValueInfo { name: name.into(), dtype, shape }
    }
    pub fn fixed(name: &str, dtype: i32, dims: &[i64]) -> ValueInfo {
        ValueInfo { name: name.into(), dtype, shape: Some(dims.iter().map(|&d| Dim::Fixed(d)).collect()) }
    }
    pub fn encode(&self) -> Vec<u8> {
        let mut tt = Vec::new(); // TypeProto.Tensor
        f_i64(&mut tt, 1, self.dtype as i64);
        if let Some(shape) = &self.shape {
            let mut sh = Vec::new();
            for d in shape {
                let mut dm = Vec::new();
                match d {
                    Dim::Fixed(v) => f_i64(&mut dm, 1, *v),
                    Dim::Sym(s) => f_str(&mut dm, 2, s),
                }
                f_bytes(&mut sh, 1, &dm);
            }
            f_bytes(&mut tt, 2, &sh);
        }
        let mut tp = Vec::new(); // TypeProto
        f_bytes(&mut tp, 1, &tt);
        let mut o = Vec::new();
        f_str(&mut o, 1, &self.name);
        f_bytes(&mut o, 2, &tp);
        o
    }
}

#[derive(Clone, Debug, Default)]
pub struct Graph {
    pub name: String,
    pub nodes: Vec<Node>,
    pub initializers: Vec<Tensor>,
    pub inputs: Vec<ValueInfo>,
    pub outputs: Vec<ValueInfo>,
    pub value_infos: Vec<ValueInfo>,
}

impl Graph {
    pub fn encode(&self) -> Vec<u8> {
        let mut o = Vec::new();
        for n in &self.nodes {
            f_bytes(&mut o, 1, &n.encode());
        }
        f_str(&mut o, 2, if self.name.is_empty() { "g" } else { &self.name });
        for t in &self.initializers {
            f_bytes(&mut o, 5, &t.encode());
        }
        for v in &self.inputs {
            f_bytes(&mut o, 11, &v.encode());
        }
        for v in &self.outputs {
            f_bytes(&mut o, 12, &v.encode());
        }
        for v in &self.value_infos {
            f_bytes(&mut o, 13, &v.encode());
        }
        o
    }

    /// Serialize as a complete `ModelProto` (ir_version 8, default-domain opset `opset`).
    pub fn into_model_bytes(&self, opset: i64) -> Vec<u8> {
        let mut o = Vec::new();
        f_i64(&mut o, 1, 8);
        f_str(&mut o, 2, "rten-verif");
        f_bytes(&mut o, 7, &self.encode());
        let mut os = Vec::new();
        f_str(&mut os, 1, "");
        f_i64(&mut os, 2, opset);
        f_bytes(&mut o, 8, &os);
        let mut ms = Vec::new();
        f_str(&mut ms, 1, "com.microsoft");
        f_i64(&mut ms, 2, 1);
        f_bytes(&mut o, 8, &ms);
        o
    }
}
