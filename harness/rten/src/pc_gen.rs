//! Shared by the C26 and C22 harness binaries (`#[path = "../pc_gen.rs"] mod pc_gen;`):
//! random small ONNX models with declared input metadata, loaded through the public `Model` API,
//! the graph IR / metadata read back from the loaded graph in the syntax of
//! `lean/RtenVerif/Driver/PlanCacheProto.lean`, request specs, and execution of one request
//! through `Model::run` / `run_n` / `run_one` / `partial_run` with panic capture.
#![allow(dead_code)]
#[path = "onnx_enc.rs"]
pub mod onnx_enc;
use hcommon::Rng;
use onnx_enc::{dt, Dim, Graph, Node, Tensor as OTensor, ValueInfo};
use rten::verif::Node as GNode;
use rten::{DataType, Dimension, Model, ModelOptions, NodeId, RunError, RunErrorKind, Sequence, Value, ValueOrView, ValueType};
use rten_tensor::Tensor;
use std::collections::{HashMap, HashSet};

// ------------------------------------------------------------------ value specs

/// dtype codes shared with the Lean driver: tensor i32/f32/i8/u8 = 0..3, sequences = 10 + code.
pub fn dtype_code(t: ValueType) -> u32 {
    let dc = |d: DataType| match d {
        DataType::Int32 => 0,
        DataType::Float => 1,
        DataType::Int8 => 2,
        DataType::UInt8 => 3,
        _ => 9,
    };
    match t {
        ValueType::Tensor(d) => dc(d),
        ValueType::Sequence(d) => 10 + dc(d),
        _ => 99,
    }
}

#[derive(Clone, Debug, PartialEq)]
pub struct Spec {
    pub dtype: u32, // 0..3 tensor, 11 = sequence of f32
    pub shape: Vec<usize>,
    pub owned: bool,
    /// first element of an i32 tensor (the value of a scalar `cond` / trip count input)
    pub ival: i32,
}

impl Spec {
    pub fn is_seq(&self) -> bool {
        self.dtype >= 10
    }
    pub fn make(&self) -> Value {
        let n: usize = self.shape.iter().product();
        match self.dtype {
            0 => Value::from(Tensor::<i32>::from_data(&self.shape, (0..n).map(|i| self.ival + i as i32 % 5).collect::<Vec<_>>())),
            1 => Value::from(Tensor::<f32>::from_data(&self.shape, (0..n).map(|i| 0.5 + (i % 7) as f32).collect::<Vec<_>>())),
            2 => Value::from(Tensor::<i8>::from_data(&self.shape, (0..n).map(|i| (i % 5) as i8).collect::<Vec<_>>())),
            3 => Value::from(Tensor::<u8>::from_data(&self.shape, (0..n).map(|i| (i % 5) as u8).collect::<Vec<_>>())),
            _ => {
                let t = Tensor::<f32>::from_data(&self.shape, (0..n).map(|i| i as f32).collect::<Vec<_>>());
                Value::from(Sequence::from(vec![t]))
            }
        }
    }
    pub fn token(&self, id: u32) -> String {
        let shape = if self.shape.is_empty() { ".".to_string() } else { hcommon::join(self.shape.iter(), "x") };
        format!(
            "{}/{}/{}{}/{}",
            id,
            self.dtype,
            if self.owned { "o" } else { "v" },
            if self.is_seq() { "s" } else { "" },
            shape
        )
    }
}

#[derive(Clone, Debug)]
pub struct Req {
    pub inputs: Vec<(u32, Spec)>,
    pub outs: Vec<u32>,
}

impl Req {
    pub fn token(&self) -> String {
        let i = if self.inputs.is_empty() { "-".to_string() } else { hcommon::join(self.inputs.iter().map(|(id, s)| s.token(*id)), ",") };
        let o = if self.outs.is_empty() { "-".to_string() } else { hcommon::join(self.outs.iter(), ",") };
        format!("{i}>{o}")
    }
}

// ------------------------------------------------------------------ model generation

#[derive(Clone, Debug)]
pub struct GVal {
    pub name: String,
    pub width: usize,
    /// index of the producing op, or None for graph inputs / initializers
    pub producer: Option<usize>,
    pub is_init: bool,
    /// 0: f32 tensor [n, width]; 1: scalar i32 condition; 2: scalar i32 trip count
    pub special: u8,
}

#[derive(Clone, Debug)]
pub struct Decl {
    /// 0: no shape, 1: [sym,4], 2: [fixed n,4], 3: [sym,sym]
    pub variant: u8,
}

pub struct GenModel {
    pub bytes: Vec<u8>,
    pub optimize: bool,
    pub vals: Vec<GVal>,
    pub ops: Vec<(String, Vec<usize>, Vec<usize>)>, // name, input value idx, output value idx
    pub n_inputs: usize,
    pub decls: Vec<Decl>,
    pub n: usize,
    pub graph_outputs: Vec<usize>,
    // read back from the loaded model
    pub nodes_field: String,
    pub meta_field: String,
    pub n_nodes: u32,
    pub val_ids: Vec<Option<u32>>, // value idx -> node id (None if the loader dropped the name)
    pub op_ids: Vec<u32>,          // ids of operator nodes in the loaded graph
    /// violated graph assumptions (see `check_assumptions`), top-level graph and subgraphs
    pub assumption_failures: Vec<String>,
    pub control_flow: bool,
}

pub fn gen_onnx(rng: &mut Rng) -> (Graph, Vec<GVal>, Vec<(String, Vec<usize>, Vec<usize>)>, usize, Vec<Decl>, usize, Vec<usize>) {
    let n_inputs = 1 + rng.usize_below(4);
    let n = 1 + rng.usize_below(3);
    let mut vals: Vec<GVal> = vec![];
    let mut decls = vec![];
    let mut g = Graph::default();
    for k in 0..n_inputs {
        let name = format!("in{k}");
        let variant = rng.below(4) as u8;
        let shape = match variant {
            0 => None,
            1 => Some(vec![Dim::Sym("n".into()), Dim::Fixed(4)]),
            2 => Some(vec![Dim::Fixed(n as i64), Dim::Fixed(4)]),
            _ => Some(vec![Dim::Sym("n".into()), Dim::Sym("m".into())]),
        };
        g.inputs.push(ValueInfo::new(&name, dt::FLOAT, shape));
        decls.push(Decl { variant });
        vals.push(GVal { name, width: 4, producer: None, is_init: false, special: 0 });
    }
    let n_init = rng.usize_below(3);
    for k in 0..n_init {
        let name = format!("c{k}");
        g.initializers.push(OTensor::f32s(&name, &[1, 4], &[1.0, 2.0, 3.0, 4.0]));
        vals.push(GVal { name, width: 4, producer: None, is_init: true, special: 0 });
    }
    let mut ops = vec![];
    let n_ops = 1 + rng.usize_below(7);
    let mut have_split_const = false;
    for i in 0..n_ops {
        let kind = rng.below(10);
        let opname = format!("op{i}");
        if kind < 4 {
            let ty = *rng.pick(&["Relu", "Neg", "Abs", "Identity"]);
            let a = rng.usize_below(vals.len());
            let out = format!("v{i}");
            g.nodes.push(Node::new(ty, &opname, &[&vals[a].name], &[&out]));
            let w = vals[a].width;
            vals.push(GVal { name: out, width: w, producer: Some(i), is_init: false, special: 0 });
            ops.push((opname, vec![a], vec![vals.len() - 1]));
        } else if kind < 8 {
            let ty = *rng.pick(&["Add", "Mul", "Sub"]);
            let a = rng.usize_below(vals.len());
            let same: Vec<usize> = (0..vals.len()).filter(|&j| vals[j].width == vals[a].width).collect();
            let b = *rng.pick(&same);
            let out = format!("v{i}");
            g.nodes.push(Node::new(ty, &opname, &[&vals[a].name, &vals[b].name], &[&out]));
            let w = vals[a].width;
            vals.push(GVal { name: out, width: w, producer: Some(i), is_init: false, special: 0 });
            ops.push((opname, vec![a, b], vec![vals.len() - 1]));
        } else {
            let full: Vec<usize> = (0..vals.len()).filter(|&j| vals[j].width == 4 && !vals[j].is_init).collect();
            let a = *rng.pick(&full);
            if !have_split_const {
                g.initializers.push(OTensor::i64s("split_sizes", &[2], &[2, 2]));
                have_split_const = true;
            }
            let (oa, ob) = (format!("v{i}a"), format!("v{i}b"));
            g.nodes.push(Node::new("Split", &opname, &[&vals[a].name, "split_sizes"], &[&oa, &ob]).attr("axis", onnx_enc::Attr::Int(1)));
            vals.push(GVal { name: oa, width: 2, producer: Some(i), is_init: false, special: 0 });
            vals.push(GVal { name: ob, width: 2, producer: Some(i), is_init: false, special: 0 });
            ops.push((opname, vec![a], vec![vals.len() - 2, vals.len() - 1]));
        }
    }
    let produced: Vec<usize> = (0..vals.len()).filter(|&j| vals[j].producer.is_some()).collect();
    let mut graph_outputs = vec![];
    for _ in 0..1 + rng.usize_below(3) {
        let o = *rng.pick(&produced);
        if !graph_outputs.contains(&o) {
            graph_outputs.push(o);
        }
    }
    for &o in &graph_outputs {
        g.outputs.push(ValueInfo::new(&vals[o].name, dt::FLOAT, None));
    }
    (g, vals, ops, n_inputs, decls, n, graph_outputs)
}

pub fn load(bytes: &[u8], optimize: bool) -> Result<Model, String> {
    let mut o = ModelOptions::with_all_ops();
    o.enable_optimization(optimize);
    o.load(bytes.to_vec()).map_err(|e| format!("{e}"))
}

pub fn opt_ids(ids: &[Option<NodeId>]) -> String {
    if ids.is_empty() {
        "-".into()
    } else {
        hcommon::join(ids.iter().map(|i| i.map(|i| i.as_u32().to_string()).unwrap_or("_".into())), ",")
    }
}

/// Graph IR and metadata of the loaded graph in the driver's syntax.
pub fn read_back(model: &Model) -> (String, String, u32, Vec<u32>) {
    read_back_graph(model.verif_graph())
}

pub fn read_back_graph(g: &rten::verif::Graph) -> (String, String, u32, Vec<u32>) {
    let mut by_id: HashMap<u32, &GNode> = HashMap::new();
    let mut max_id = 0u32;
    for (id, node) in g.iter() {
        max_id = max_id.max(id.as_u32());
        by_id.insert(id.as_u32(), node);
    }
    let n_nodes = if by_id.is_empty() { 0 } else { max_id + 1 };
    let mut nodes = vec![];
    let mut metas = vec![];
    let mut op_ids = vec![];
    for id in 0..n_nodes {
        match by_id.get(&id) {
            None => {
                // id removed by the optimizer: not a value, not a constant, produces nothing
                nodes.push("O/-/-/-/0/1".to_string());
                metas.push("-".to_string());
            }
            Some(GNode::Value(_)) => {
                nodes.push("V".into());
                let node = by_id[&id];
                let d = node.dtype().map(|t| dtype_code(t).to_string()).unwrap_or("_".into());
                let s = match node.shape() {
                    None => "_".to_string(),
                    Some(dims) if dims.is_empty() => ".".to_string(),
                    Some(dims) => hcommon::join(
                        dims.iter().map(|d| match d {
                            Dimension::Fixed(n) => n.to_string(),
                            Dimension::Symbolic(_) => "?".to_string(),
                        }),
                        ",",
                    ),
                };
                metas.push(format!("{d}:{s}"));
            }
            Some(GNode::Constant(_)) => {
                nodes.push("C".into());
                metas.push("-".into());
            }
            Some(GNode::Operator(op)) => {
                op_ids.push(id);
                // a capture name that does not resolve in this graph is encoded as an id outside the table
                let caps: Vec<String> = op
                    .capture_names()
                    .map(|n| g.get_node_id(n).map(|i| i.as_u32()).unwrap_or(n_nodes + 1000).to_string())
                    .collect();
                nodes.push(format!(
                    "O/{}/{}/{}/{}/{}",
                    opt_ids(op.input_ids()),
                    opt_ids(op.output_ids()),
                    if caps.is_empty() { "-".to_string() } else { caps.join(",") },
                    if op.operator().in_place_inputs().is_empty() { 0 } else { 1 },
                    if op.operator().is_deterministic() { 1 } else { 0 },
                ));
                metas.push("-".into());
            }
        }
    }
    let nf = if nodes.is_empty() { "-".into() } else { nodes.join(";") };
    let mf = if metas.is_empty() { "-".into() } else { metas.join(";") };
    (nf, mf, n_nodes, op_ids)
}

pub fn gen_model(rng: &mut Rng) -> Option<GenModel> {
    let (g, vals, ops, n_inputs, decls, n, graph_outputs) = gen_onnx(rng);
    let bytes = g.into_model_bytes(18);
    let optimize = rng.chance(1, 3);
    let model = load(&bytes, optimize).ok()?;
    let (nodes_field, meta_field, n_nodes, op_ids) = read_back(&model);
    let val_ids = vals.iter().map(|v| model.find_node(&v.name).map(|i| i.as_u32())).collect();
    let assumption_failures = check_assumptions(&model);
    Some(GenModel { bytes, optimize, vals, ops, n_inputs, decls, n, graph_outputs, nodes_field, meta_field, n_nodes, val_ids, op_ids, assumption_failures, control_flow: false })
}

// ------------------------------------------------------------------ graph assumptions

/// All graphs reachable from `g` through `If`/`Loop` operators (`g` first).
pub fn all_graphs(g: &rten::verif::Graph) -> Vec<&rten::verif::Graph> {
    use rten::verif::SubgraphOperator;
    let mut out = vec![g];
    let mut i = 0;
    while i < out.len() {
        let cur = out[i];
        for (_, node) in cur.iter() {
            if let GNode::Operator(op) = node {
                if let Some(sg) = op.operator().as_subgraph_op() {
                    for sub in sg.subgraphs() {
                        out.push(sub);
                    }
                }
            }
        }
        i += 1;
    }
    out
}

/// The graph hypotheses of the C22 / C26 / C02 theorems, evaluated on one real `Graph`:
/// `wfg` (operator inputs are value or constant nodes), `wfgo` (operator outputs are value or
/// constant nodes), `outs-value` (`Executor.WF.outsValue`: operator outputs are value nodes),
/// `unique-producer` (a value is listed as an output by at most one operator, and that operator
/// is its registered source), `contract-sub` (`Executor.Contract.notSub`: operators with
/// subgraphs declare no in-place inputs).
pub fn graph_assumptions(g: &rten::verif::Graph) -> Vec<&'static str> {
    let mut bad = vec![];
    let kind = |id: NodeId| match g.get_node(id) {
        Some(GNode::Value(_)) => 1,
        Some(GNode::Constant(_)) => 2,
        _ => 0,
    };
    let mut producers: HashMap<u32, Vec<u32>> = HashMap::new();
    let (mut wfg, mut wfgo, mut outs_value, mut unique, mut contract_sub) = (true, true, true, true, true);
    for (id, node) in g.iter() {
        if let GNode::Operator(op) = node {
            for i in op.input_ids().iter().flatten() {
                wfg &= kind(*i) != 0;
            }
            for o in op.output_ids().iter().flatten() {
                wfgo &= kind(*o) != 0;
                outs_value &= kind(*o) == 1;
                producers.entry(o.as_u32()).or_default().push(id.as_u32());
                unique &= g.get_source_node(*o).map(|(p, _)| p) == Some(id);
            }
            if op.operator().as_subgraph_op().is_some() {
                contract_sub &= op.operator().in_place_inputs().is_empty();
            }
        }
    }
    unique &= producers.values().all(|p| p.len() == 1);
    for (ok, name) in [(wfg, "wfg"), (wfgo, "wfgo"), (outs_value, "outs-value"), (unique, "unique-producer"), (contract_sub, "contract-sub")] {
        if !ok {
            bad.push(name);
        }
    }
    bad
}

/// Assumptions on the loaded model: the top-level graph has no captures, and every graph
/// (incl. `If`/`Loop` bodies) satisfies `graph_assumptions`.
pub fn check_assumptions(model: &Model) -> Vec<String> {
    let top = model.verif_graph();
    let mut bad = vec![];
    if !top.captures().is_empty() {
        bad.push("top-level-captures".to_string());
    }
    for (k, g) in all_graphs(top).into_iter().enumerate() {
        for b in graph_assumptions(g) {
            bad.push(format!("{b}@graph{k}"));
        }
    }
    bad
}

/// Request line `assume <nodes>` and the implementation-side answer for the four assumptions the
/// Lean driver re-evaluates on the IR (`wfgB`, `wfgoB`, `outsValueB`, `uniqueProducerB`).
pub fn assume_case(g: &rten::verif::Graph) -> (String, String) {
    let (nodes, _, _, _) = read_back_graph(g);
    let bad: Vec<&str> = graph_assumptions(g).into_iter().filter(|b| *b != "contract-sub").collect();
    (format!("assume {nodes}"), if bad.is_empty() { "ok".to_string() } else { format!("violated:{}", bad.join(",")) })
}

// ------------------------------------------------------------------ control-flow models

fn sub_graph(name: &str, nodes: Vec<Node>, inputs: Vec<ValueInfo>, outputs: Vec<&str>) -> Graph {
    Graph {
        name: name.into(),
        nodes,
        inputs,
        outputs: outputs.iter().map(|o| ValueInfo::new(o, dt::FLOAT, None)).collect(),
        ..Default::default()
    }
}

/// Models with `If` (branches capturing different parent values) and `Loop` (body capturing a
/// parent value): inputs `cond` (bool scalar), `trip` (int64 scalar), `x`, `y` (f32 `[n,4]`).
pub fn gen_cf_model(rng: &mut Rng) -> Option<GenModel> {
    let n = 1 + rng.usize_below(3);
    let variant = rng.below(3); // 0: If, 1: Loop, 2: both
    let mut g = Graph::default();
    let mut vals: Vec<GVal> = vec![];
    let mut decls = vec![];
    let mut add_input = |g: &mut Graph, vals: &mut Vec<GVal>, decls: &mut Vec<Decl>, name: &str, special: u8| {
        let vi = match special {
            1 => ValueInfo::new(name, dt::BOOL, Some(vec![])),
            2 => ValueInfo::new(name, dt::INT64, Some(vec![])),
            _ => ValueInfo::new(name, dt::FLOAT, Some(vec![Dim::Sym("n".into()), Dim::Fixed(4)])),
        };
        g.inputs.push(vi);
        decls.push(Decl { variant: if special == 0 { 1 } else { 4 } });
        vals.push(GVal { name: name.into(), width: 4, producer: None, is_init: false, special });
        vals.len() - 1
    };
    let x = add_input(&mut g, &mut vals, &mut decls, "x", 0);
    let y = add_input(&mut g, &mut vals, &mut decls, "y", 0);
    let cond = if variant != 1 { Some(add_input(&mut g, &mut vals, &mut decls, "cond", 1)) } else { None };
    let trip = if variant != 0 { Some(add_input(&mut g, &mut vals, &mut decls, "trip", 2)) } else { None };
    let n_inputs = vals.len();
    g.initializers.push(OTensor::f32s("c0", &[1, 4], &[1.0, 2.0, 3.0, 4.0]));
    vals.push(GVal { name: "c0".into(), width: 4, producer: None, is_init: true, special: 0 });
    let mut ops: Vec<(String, Vec<usize>, Vec<usize>)> = vec![];
    let mut push_val = |vals: &mut Vec<GVal>, name: &str, p: usize| {
        vals.push(GVal { name: name.into(), width: 4, producer: Some(p), is_init: false, special: 0 });
        vals.len() - 1
    };
    // a = Relu(x): an intermediate the branches can capture
    g.nodes.push(Node::new("Relu", "op_a", &["x"], &["a"]));
    let a = push_val(&mut vals, "a", ops.len());
    ops.push(("op_a".into(), vec![x], vec![a]));
    let mut last = a;
    if let Some(cond) = cond {
        // then: r = a + c0 (captures a, c0); else: r = y * x (captures y, x)
        let then_g = sub_graph("then_g", vec![Node::new("Add", "t_add", &["a", "c0"], &["t_r"])], vec![], vec!["t_r"]);
        let else_g = sub_graph("else_g", vec![Node::new("Mul", "e_mul", &["y", "x"], &["e_r"])], vec![], vec!["e_r"]);
        g.nodes.push(
            Node::new("If", "op_if", &["cond"], &["r"])
                .attr("then_branch", onnx_enc::Attr::Graph(then_g))
                .attr("else_branch", onnx_enc::Attr::Graph(else_g)),
        );
        let r = push_val(&mut vals, "r", ops.len());
        ops.push(("op_if".into(), vec![cond, a, y, x], vec![r]));
        last = r;
    }
    if let Some(trip) = trip {
        // w = Loop(trip, "", last) { v_out = v_in + y }  (body captures y)
        let body = Graph {
            name: "body_g".into(),
            nodes: vec![Node::new("Identity", "b_id", &["b_cond"], &["b_cond_out"]), Node::new("Add", "b_add", &["b_v", "y"], &["b_v_out"])],
            inputs: vec![
                ValueInfo::new("b_iter", dt::INT64, Some(vec![])),
                ValueInfo::new("b_cond", dt::BOOL, Some(vec![])),
                ValueInfo::new("b_v", dt::FLOAT, None),
            ],
            outputs: vec![ValueInfo::new("b_cond_out", dt::BOOL, None), ValueInfo::new("b_v_out", dt::FLOAT, None)],
            ..Default::default()
        };
        let carried = vals[last].name.clone();
        g.nodes.push(Node::new("Loop", "op_loop", &["trip", "", &carried], &["w"]).attr("body", onnx_enc::Attr::Graph(body)));
        let w = push_val(&mut vals, "w", ops.len());
        ops.push(("op_loop".into(), vec![trip, last, y], vec![w]));
        last = w;
    }
    g.nodes.push(Node::new("Neg", "op_z", &[&vals[last].name.clone()], &["z"]));
    let z = push_val(&mut vals, "z", ops.len());
    ops.push(("op_z".into(), vec![last], vec![z]));
    let graph_outputs = vec![z];
    g.outputs.push(ValueInfo::new("z", dt::FLOAT, None));
    let bytes = g.into_model_bytes(18);
    let optimize = rng.chance(1, 3);
    let model = load(&bytes, optimize).ok()?;
    let (nodes_field, meta_field, n_nodes, op_ids) = read_back(&model);
    let val_ids = vals.iter().map(|v| model.find_node(&v.name).map(|i| i.as_u32())).collect();
    let assumption_failures = check_assumptions(&model);
    Some(GenModel { bytes, optimize, vals, ops, n_inputs, decls, n, graph_outputs, nodes_field, meta_field, n_nodes, val_ids, op_ids, assumption_failures, control_flow: true })
}

// ------------------------------------------------------------------ requests

impl GenModel {
    pub fn good_spec(&self, v: usize, rng: &mut Rng) -> Spec {
        match self.vals[v].special {
            1 => Spec { dtype: 0, shape: vec![], owned: rng.chance(1, 2), ival: rng.below(2) as i32 },
            2 => Spec { dtype: 0, shape: vec![], owned: rng.chance(1, 2), ival: rng.below(4) as i32 },
            _ => Spec { dtype: 1, shape: vec![self.n, self.vals[v].width], owned: rng.chance(1, 2), ival: 0 },
        }
    }

    /// Values with a node id in the loaded graph that are not initializers.
    pub fn live_values(&self) -> Vec<usize> {
        (0..self.vals.len()).filter(|&v| self.val_ids[v].is_some() && !self.vals[v].is_init).collect()
    }

    /// A valid request: all graph inputs (sometimes only the needed ones, sometimes an extra
    /// intermediate value), 1–3 distinct outputs.
    pub fn base_request(&self, rng: &mut Rng) -> (Vec<(usize, Spec)>, Vec<usize>) {
        let live = self.live_values();
        let produced: Vec<usize> = live.iter().copied().filter(|&v| self.vals[v].producer.is_some()).collect();
        let mut outs: Vec<usize> = vec![];
        let n_out = 1 + rng.usize_below(3);
        for _ in 0..n_out {
            let o = match rng.below(10) {
                0 => *rng.pick(&live),
                1 | 2 | 3 => {
                    let go: Vec<usize> = self.graph_outputs.iter().copied().filter(|v| self.val_ids[*v].is_some()).collect();
                    if go.is_empty() { *rng.pick(&live) } else { *rng.pick(&go) }
                }
                _ => {
                    if produced.is_empty() { *rng.pick(&live) } else { *rng.pick(&produced) }
                }
            };
            if !outs.contains(&o) {
                outs.push(o);
            }
        }
        let mut ins: Vec<usize> = (0..self.n_inputs).filter(|&v| self.val_ids[v].is_some()).collect();
        if rng.chance(1, 4) {
            // only what is needed
            let need = self.needed_inputs(&[], &outs);
            ins.retain(|v| need.contains(v));
        }
        if rng.chance(1, 5) && !produced.is_empty() {
            let extra = *rng.pick(&produced);
            if !ins.contains(&extra) {
                ins.push(extra);
            }
        }
        rng.shuffle(&mut ins);
        let ins = ins.into_iter().map(|v| (v, self.good_spec(v, rng))).collect();
        (ins, outs)
    }

    /// Graph inputs (value indices) reached from `outs` without passing through `supplied`.
    pub fn needed_inputs(&self, supplied: &[usize], outs: &[usize]) -> HashSet<usize> {
        let mut need = HashSet::new();
        let mut seen = HashSet::new();
        let mut stack: Vec<usize> = outs.to_vec();
        while let Some(v) = stack.pop() {
            if !seen.insert(v) || supplied.contains(&v) || self.vals[v].is_init {
                continue;
            }
            match self.vals[v].producer {
                None => {
                    need.insert(v);
                }
                Some(p) => stack.extend(self.ops[p].1.iter().copied()),
            }
        }
        need
    }

    pub fn to_req(&self, ins: &[(usize, Spec)], outs: &[usize]) -> Req {
        Req {
            inputs: ins.iter().map(|(v, s)| (self.val_ids[*v].unwrap(), s.clone())).collect(),
            outs: outs.iter().map(|v| self.val_ids[*v].unwrap()).collect(),
        }
    }
}

#[derive(Clone, Copy, Debug, PartialEq)]
pub enum Api {
    Run,
    RunN,
    RunOne,
    Partial,
}

pub fn classify(e: &RunError) -> String {
    let msg = format!("{e}");
    // an error raised inside an If/Loop body (planning or validation of the nested run) is, for the
    // parent run, a failing operator (RunError::kind() reports the innermost kind)
    if msg.contains("subgraph error") {
        return "err:op".into();
    }
    match e.kind() {
        RunErrorKind::InvalidInput => "err:invalid-input".into(),
        RunErrorKind::NodeNotFound => "err:node-not-found".into(),
        RunErrorKind::OperatorError => "err:op".into(),
        RunErrorKind::PlanningError => {
            let c = if msg.contains("Outputs are not unique") {
                "dup-output"
            } else if msg.contains("Inputs are not unique") {
                "dup-input"
            } else if msg.contains("planning error: Output ") && msg.contains("is not a value node") {
                "bad-output"
            } else if msg.contains("planning error: Input ") && msg.contains("is not a value node") {
                "bad-input"
            } else if msg.contains("Missing input") {
                "missing-input"
            } else if msg.contains("Source node not found") {
                "no-source"
            } else if msg.contains("cycle") {
                "cycle"
            } else if msg.contains("operator node not found") {
                "op-not-found"
            } else {
                "plan-other"
            };
            format!("err:{c}")
        }
        _ => "err:other".into(),
    }
}

/// Execute one request on `model`; canonical answer + panic message.
pub fn exec(model: &Model, api: Api, req: &Req) -> (String, Option<String>) {
    // storage for borrowed views
    let store: Vec<Value> = req.inputs.iter().map(|(_, s)| s.make()).collect();
    let r = hcommon::catch(|| {
        let mut inputs: Vec<(NodeId, ValueOrView)> = vec![];
        for (k, (id, s)) in req.inputs.iter().enumerate() {
            let v: ValueOrView = if s.owned { ValueOrView::from(store[k].clone()) } else { ValueOrView::from(&store[k]) };
            inputs.push((NodeId::from_u32(*id), v));
        }
        let outs: Vec<NodeId> = req.outs.iter().map(|o| NodeId::from_u32(*o)).collect();
        match api {
            Api::Run => model.run(inputs, &outs, None).map(|v| {
                assert_eq!(v.len(), outs.len(), "number of returned values");
                "ok".to_string()
            }),
            Api::RunN => match outs.len() {
                1 => model.run_n(inputs, [outs[0]], None).map(|_| "ok".to_string()),
                2 => model.run_n(inputs, [outs[0], outs[1]], None).map(|_| "ok".to_string()),
                3 => model.run_n(inputs, [outs[0], outs[1], outs[2]], None).map(|_| "ok".to_string()),
                _ => model.run(inputs, &outs, None).map(|_| "ok".to_string()),
            },
            Api::RunOne => {
                let (_, v) = inputs.into_iter().next().unwrap();
                model.run_one(v, None).map(|_| "ok".to_string())
            }
            Api::Partial => model.partial_run(inputs, &outs, None).map(|v| {
                if v.is_empty() {
                    "ok -".to_string()
                } else {
                    format!("ok {}", hcommon::join(v.iter().map(|(id, _)| id.as_u32()), ","))
                }
            }),
        }
    });
    match r {
        Ok(Ok(s)) => (s, None),
        Ok(Err(e)) => (classify(&e), None),
        Err(p) => ("panic".into(), Some(p)),
    }
}


// ------------------------------------------------------------------ mutations

pub const MUTS: &[&str] = &[
    "none", "none", "perm", "dup_in_append", "dup_in_replace", "dup_out_append", "dup_out_replace", "unknown_in",
    "unknown_out", "op_in", "op_out", "missing_in", "swap_in", "extra_in", "dtype", "rank", "dim", "seq", "const_out",
    "const_in", "empty_out", "two_bad",
];

pub struct Mutated {
    pub req: Req,
    /// invalid by construction (for `run`; see `invalid_partial` for `partial_run`)
    pub invalid: bool,
    /// invalid only because a required input is missing (not an error for `partial_run`)
    pub only_missing: bool,
}

pub fn mutate(gm: &GenModel, kind: &str, ins0: &[(usize, Spec)], outs0: &[usize], rng: &mut Rng) -> Option<Mutated> {
    let mut req = gm.to_req(ins0, outs0);
    let mut invalid = false;
    let unknown = |rng: &mut Rng| match rng.below(4) {
        0 => gm.n_nodes,
        1 => gm.n_nodes + 1 + rng.below(50) as u32,
        2 => i32::MAX as u32,
        _ => gm.n_nodes + rng.below(3) as u32,
    };
    let apply_value_mut = |kind: &str, req: &mut Req, rng: &mut Rng| -> Option<bool> {
        // pick a supplied graph input
        let cands: Vec<usize> = (0..ins0.len()).filter(|&k| ins0[k].0 < gm.n_inputs && gm.vals[ins0[k].0].special == 0).collect();
        if cands.is_empty() {
            return None;
        }
        let k = *rng.pick(&cands);
        let variant = gm.decls[ins0[k].0].variant;
        let s = &mut req.inputs[k].1;
        Some(match kind {
            "dtype" => {
                s.dtype = *rng.pick(&[0, 2, 3]);
                true
            }
            "seq" => {
                s.dtype = 11;
                true
            }
            "rank" => {
                match rng.below(3) {
                    0 => s.shape = vec![gm.n],
                    1 => s.shape = vec![gm.n, 4, 1],
                    _ => s.shape = vec![],
                }
                variant != 0
            }
            _ => {
                // dim
                if rng.chance(1, 2) {
                    s.shape[1] = 5;
                    variant == 1 || variant == 2
                } else {
                    s.shape[0] = gm.n + 1;
                    variant == 2
                }
            }
        })
    };
    match kind {
        "none" => {}
        "perm" => {
            rng.shuffle(&mut req.inputs);
            rng.shuffle(&mut req.outs);
        }
        "dup_in_append" => {
            if req.inputs.is_empty() {
                return None;
            }
            let e = rng.pick(&req.inputs).clone();
            let pos = rng.usize_below(req.inputs.len() + 1);
            req.inputs.insert(pos, e);
            invalid = true;
        }
        "dup_in_replace" => {
            if req.inputs.len() < 2 {
                return None;
            }
            let a = rng.usize_below(req.inputs.len());
            let mut b = rng.usize_below(req.inputs.len());
            if a == b {
                b = (a + 1) % req.inputs.len();
            }
            req.inputs[b] = req.inputs[a].clone();
            invalid = true;
        }
        "dup_out_append" => {
            let e = *rng.pick(&req.outs);
            let pos = rng.usize_below(req.outs.len() + 1);
            req.outs.insert(pos, e);
            invalid = true;
        }
        "dup_out_replace" => {
            if req.outs.len() < 2 {
                return None;
            }
            let a = rng.usize_below(req.outs.len());
            let mut b = rng.usize_below(req.outs.len());
            if a == b {
                b = (a + 1) % req.outs.len();
            }
            req.outs[b] = req.outs[a];
            invalid = true;
        }
        "unknown_in" => {
            let id = unknown(rng);
            let spec = Spec { dtype: 1, shape: vec![gm.n, 4], owned: rng.chance(1, 2), ival: 0 };
            if rng.chance(1, 2) && !req.inputs.is_empty() {
                let k = rng.usize_below(req.inputs.len());
                req.inputs[k] = (id, spec);
            } else {
                req.inputs.push((id, spec));
            }
            invalid = true;
        }
        "unknown_out" => {
            let id = unknown(rng);
            if rng.chance(1, 2) {
                let k = rng.usize_below(req.outs.len());
                req.outs[k] = id;
            } else {
                req.outs.push(id);
            }
            invalid = true;
        }
        "op_in" => {
            let id = *rng.pick(&gm.op_ids);
            let spec = Spec { dtype: 1, shape: vec![gm.n, 4], owned: rng.chance(1, 2), ival: 0 };
            if rng.chance(1, 2) && !req.inputs.is_empty() {
                let k = rng.usize_below(req.inputs.len());
                req.inputs[k] = (id, spec);
            } else {
                req.inputs.push((id, spec));
            }
            invalid = true;
        }
        "op_out" => {
            let id = *rng.pick(&gm.op_ids);
            if rng.chance(1, 2) {
                let k = rng.usize_below(req.outs.len());
                req.outs[k] = id;
            } else {
                req.outs.push(id);
            }
            invalid = true;
        }
        "missing_in" => {
            if req.inputs.is_empty() {
                return None;
            }
            let k = rng.usize_below(req.inputs.len());
            req.inputs.remove(k);
        }
        "swap_in" => {
            // replace one supplied input by a different value (keeps the length)
            if req.inputs.is_empty() {
                return None;
            }
            let k = rng.usize_below(req.inputs.len());
            let live = gm.live_values();
            let v = *rng.pick(&live);
            let id = gm.val_ids[v].unwrap();
            if req.inputs.iter().any(|(i, _)| *i == id) {
                return None;
            }
            req.inputs[k] = (id, gm.good_spec(v, rng));
        }
        "extra_in" => {
            let live = gm.live_values();
            let v = *rng.pick(&live);
            let id = gm.val_ids[v].unwrap();
            if req.inputs.iter().any(|(i, _)| *i == id) {
                return None;
            }
            req.inputs.push((id, gm.good_spec(v, rng)));
        }
        "dtype" | "rank" | "dim" | "seq" => {
            invalid = apply_value_mut(kind, &mut req, rng)?;
        }
        "const_out" | "const_in" => {
            let inits: Vec<usize> = (0..gm.vals.len()).filter(|&v| gm.vals[v].is_init && gm.val_ids[v].is_some()).collect();
            if inits.is_empty() {
                return None;
            }
            let v = *rng.pick(&inits);
            let id = gm.val_ids[v].unwrap();
            if kind == "const_out" {
                if !req.outs.contains(&id) {
                    req.outs.push(id);
                }
            } else if !req.inputs.iter().any(|(i, _)| *i == id) {
                // supplying a value for a constant node: accepted by create_plan, never validated
                let sp = Spec { dtype: *rng.pick(&[0, 1]), shape: vec![1, 4], owned: rng.chance(1, 2), ival: 0 };
                req.inputs.push((id, sp));
            }
        }
        "empty_out" => {
            req.outs.clear();
            if rng.chance(1, 2) {
                req.inputs.clear();
            }
        }
        _ => {
            // two_bad: a value mutation plus an id mutation (validation runs first)
            let a = apply_value_mut(*rng.pick(&["dtype", "rank", "dim", "seq"]), &mut req, rng).unwrap_or(false);
            let e = *rng.pick(&req.outs);
            req.outs.push(e);
            let _ = a;
            invalid = true;
        }
    }
    // missing required inputs, computed on the ONNX graph the harness wrote
    let mut only_missing = false;
    if !invalid {
        let id_to_val: HashMap<u32, usize> = gm.val_ids.iter().enumerate().filter_map(|(v, id)| id.map(|i| (i, v))).collect();
        let supplied: Vec<usize> = req.inputs.iter().filter_map(|(i, _)| id_to_val.get(i).copied()).collect();
        let outs: Vec<usize> = req.outs.iter().filter_map(|i| id_to_val.get(i).copied()).collect();
        if !gm.optimize && !gm.needed_inputs(&supplied, &outs).is_empty() {
            invalid = true;
            only_missing = true;
        }
    }
    Some(Mutated { req, invalid, only_missing })
}

