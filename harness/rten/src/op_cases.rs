//! Shared by `c12.rs` and `c10.rs` (`#[path = "../op_cases.rs"] mod op_cases;`):
//! concrete single-operator test cases for (nearly) every operator of the ONNX
//! registry, a builder that turns a case into single-op ONNX model bytes and a
//! runner that loads the model through the public `ModelOptions::load` path,
//! fetches the real operator object from the loaded graph (hook
//! `Model::verif_graph`) and executes it with `Model::run`.
#![allow(dead_code)]
use crate::onnx_enc::{Attr, Graph, Node, Tensor as OTensor, ValueInfo};
use hcommon::Rng;
use rten::verif as rv;
use rten::{DataType, Model, ModelOptions, Sequence, Value, ValueType};
use rten_tensor::prelude::*;
use rten_tensor::Tensor;

#[derive(Clone, Copy, PartialEq, Eq, Debug, Hash)]
pub enum Dt {
    F32,
    I32,
    I8,
    U8,
}

pub const ALL_DT: [Dt; 4] = [Dt::F32, Dt::I32, Dt::I8, Dt::U8];

impl Dt {
    pub fn name(self) -> &'static str {
        match self {
            Dt::F32 => "float",
            Dt::I32 => "int32",
            Dt::I8 => "int8",
            Dt::U8 => "uint8",
        }
    }
    pub fn onnx(self) -> i32 {
        match self {
            Dt::F32 => 1,
            Dt::U8 => 2,
            Dt::I8 => 3,
            Dt::I32 => 6,
        }
    }
    pub fn from_rten(d: DataType) -> Dt {
        match d {
            DataType::Float => Dt::F32,
            DataType::Int32 => Dt::I32,
            DataType::Int8 => Dt::I8,
            DataType::UInt8 => Dt::U8,
            _ => panic!("unknown DataType"),
        }
    }
}

pub fn vt_name(v: ValueType) -> String {
    match v {
        ValueType::Tensor(d) => Dt::from_rten(d).name().to_string(),
        ValueType::Sequence(d) => format!("seq({})", Dt::from_rten(d).name()),
        _ => "other".to_string(),
    }
}

/// One operator input: a tensor (or a sequence of tensors) with concrete shape and values.
#[derive(Clone, Debug)]
pub struct Inp {
    pub dt: Dt,
    pub shape: Vec<usize>,
    pub vals: Vec<f64>,
    /// `Some(items)`: the input is a sequence whose items are `(shape, vals)` tensors of `dt`.
    pub seq: Option<Vec<(Vec<usize>, Vec<f64>)>>,
    /// The values are meaningful integers (shape / axes / indices): candidates for
    /// symbolic *values* in C10.
    pub shape_like: bool,
}

fn tensor_value(dt: Dt, shape: &[usize], vals: &[f64]) -> Value {
    match dt {
        Dt::F32 => Tensor::<f32>::from_data(shape, vals.iter().map(|&v| v as f32).collect::<Vec<_>>()).into(),
        Dt::I32 => Tensor::<i32>::from_data(shape, vals.iter().map(|&v| v as i32).collect::<Vec<_>>()).into(),
        Dt::I8 => Tensor::<i8>::from_data(shape, vals.iter().map(|&v| v as i8).collect::<Vec<_>>()).into(),
        Dt::U8 => Tensor::<u8>::from_data(shape, vals.iter().map(|&v| v as u8).collect::<Vec<_>>()).into(),
    }
}

impl Inp {
    pub fn value(&self) -> Value {
        match &self.seq {
            None => tensor_value(self.dt, &self.shape, &self.vals),
            Some(items) => {
                let mut s = Sequence::new(match self.dt {
                    Dt::F32 => DataType::Float,
                    Dt::I32 => DataType::Int32,
                    Dt::I8 => DataType::Int8,
                    Dt::U8 => DataType::UInt8,
                });
                for (i, (sh, v)) in items.iter().enumerate() {
                    s.insert(i, tensor_value(self.dt, sh, v)).unwrap();
                }
                Value::Sequence(s)
            }
        }
    }
    pub fn type_name(&self) -> String {
        if self.seq.is_some() {
            format!("seq({})", self.dt.name())
        } else {
            self.dt.name().to_string()
        }
    }
}

// ---------------------------------------------------------------------------
// Model encoding. `rten-onnx` reads repeated `ints` / `floats` attribute fields only in
// the *unpacked* wire form (what proto2 writers emit), the shared encoder writes them packed,
// so nodes are serialised here.
// ---------------------------------------------------------------------------

fn encode_attr_unpacked(name: &str, a: &Attr) -> Vec<u8> {
    use crate::onnx_enc::{f_bytes, f_f32, f_i64, f_str};
    let mut o = Vec::new();
    f_str(&mut o, 1, name);
    match a {
        Attr::Float(v) => {
            f_f32(&mut o, 2, *v);
            f_i64(&mut o, 20, 1);
        }
        Attr::Int(v) => {
            f_i64(&mut o, 3, *v);
            f_i64(&mut o, 20, 2);
        }
        Attr::Str(s) => {
            f_str(&mut o, 4, s);
            f_i64(&mut o, 20, 3);
        }
        Attr::Tensor(t) => {
            f_bytes(&mut o, 5, &t.encode());
            f_i64(&mut o, 20, 4);
        }
        Attr::Graph(g) => {
            f_bytes(&mut o, 6, &g.encode());
            f_i64(&mut o, 20, 5);
        }
        Attr::Floats(v) => {
            for x in v {
                f_f32(&mut o, 7, *x);
            }
            f_i64(&mut o, 20, 6);
        }
        Attr::Ints(v) => {
            for x in v {
                f_i64(&mut o, 8, *x);
            }
            f_i64(&mut o, 20, 7);
        }
        Attr::Strs(v) => {
            for s in v {
                f_str(&mut o, 9, s);
            }
            f_i64(&mut o, 20, 8);
        }
    }
    o
}

pub fn encode_node(n: &Node) -> Vec<u8> {
    use crate::onnx_enc::{f_bytes, f_str};
    let mut o = Vec::new();
    for i in &n.inputs {
        f_str(&mut o, 1, i);
    }
    for i in &n.outputs {
        f_str(&mut o, 2, i);
    }
    f_str(&mut o, 3, &n.name);
    f_str(&mut o, 4, &n.op_type);
    for (name, a) in &n.attrs {
        f_bytes(&mut o, 5, &encode_attr_unpacked(name, a));
    }
    if !n.domain.is_empty() {
        f_str(&mut o, 7, &n.domain);
    }
    o
}

/// Complete `ModelProto` bytes (ir_version 8, default-domain opset 21, com.microsoft opset 1).
pub fn encode_model(g: &Graph) -> Vec<u8> {
    use crate::onnx_enc::{f_bytes, f_i64, f_str};
    let mut gb = Vec::new();
    for n in &g.nodes {
        f_bytes(&mut gb, 1, &encode_node(n));
    }
    f_str(&mut gb, 2, "g");
    for t in &g.initializers {
        f_bytes(&mut gb, 5, &t.encode());
    }
    for v in &g.inputs {
        f_bytes(&mut gb, 11, &v.encode());
    }
    for v in &g.outputs {
        f_bytes(&mut gb, 12, &v.encode());
    }
    for v in &g.value_infos {
        f_bytes(&mut gb, 13, &v.encode());
    }
    let mut o = Vec::new();
    f_i64(&mut o, 1, 8);
    f_str(&mut o, 2, "rten-verif");
    f_bytes(&mut o, 7, &gb);
    for (dom, ver) in [("", 21i64), ("com.microsoft", 1)] {
        let mut os = Vec::new();
        f_str(&mut os, 1, dom);
        f_i64(&mut os, 2, ver);
        f_bytes(&mut o, 8, &os);
    }
    o
}

#[derive(Clone, Debug)]
pub struct Case {
    /// Struct name of the operator in `src/ops` (= key of the generated table).
    pub key: String,
    pub op_type: String,
    pub domain: String,
    pub attrs: Vec<(String, Attr)>,
    /// Attribute values the type rule may depend on, as `name=dtype` pairs.
    pub attr_sig: Vec<(String, String)>,
    pub inputs: Vec<Option<Inp>>,
    pub n_out: usize,
    /// Output slots left unconnected (empty ONNX output name).
    pub skip_outs: Vec<usize>,
}

impl Case {
    pub fn new(op: &str, inputs: Vec<Option<Inp>>) -> Case {
        Case {
            key: op.into(),
            op_type: op.into(),
            domain: String::new(),
            attrs: vec![],
            attr_sig: vec![],
            inputs,
            n_out: 1,
            skip_outs: vec![],
        }
    }
    pub fn used(&self, j: usize) -> bool {
        !self.skip_outs.contains(&j)
    }
    /// `1` / `0` per output slot.
    pub fn mask_text(&self) -> String {
        (0..self.n_out).map(|j| if self.used(j) { '1' } else { '0' }).collect()
    }
    pub fn key(mut self, k: &str) -> Case {
        self.key = k.into();
        self
    }
    pub fn ms(mut self) -> Case {
        self.domain = "com.microsoft".into();
        self
    }
    pub fn a(mut self, n: &str, a: Attr) -> Case {
        self.attrs.push((n.into(), a));
        self
    }
    pub fn ai(self, n: &str, v: i64) -> Case {
        self.a(n, Attr::Int(v))
    }
    pub fn ais(self, n: &str, v: &[i64]) -> Case {
        self.a(n, Attr::Ints(v.to_vec()))
    }
    pub fn af(self, n: &str, v: f32) -> Case {
        self.a(n, Attr::Float(v))
    }
    pub fn astr(self, n: &str, v: &str) -> Case {
        self.a(n, Attr::Str(v.into()))
    }
    pub fn sig(mut self, n: &str, v: &str) -> Case {
        self.attr_sig.push((n.into(), v.into()));
        self
    }
    pub fn outs(mut self, n: usize) -> Case {
        self.n_out = n;
        self
    }
    pub fn sig_text(&self) -> String {
        if self.attr_sig.is_empty() {
            "-".into()
        } else {
            hcommon::join(self.attr_sig.iter().map(|(k, v)| format!("{k}={v}")), ",")
        }
    }
    pub fn in_types(&self) -> String {
        if self.inputs.is_empty() {
            return "-".into();
        }
        hcommon::join(
            self.inputs.iter().map(|i| match i {
                Some(i) => i.type_name(),
                None => "_".into(),
            }),
            ",",
        )
    }

    /// Encode as a single-node ONNX model: every present input is a graph input
    /// (declared dtype + fixed shape; sequences are declared without type), every
    /// output `o<i>` is a graph output without declared type.
    pub fn model_bytes(&self) -> Vec<u8> {
        let in_names: Vec<String> = self
            .inputs
            .iter()
            .enumerate()
            .map(|(i, inp)| if inp.is_some() { format!("i{i}") } else { String::new() })
            .collect();
        let out_names: Vec<String> =
            (0..self.n_out).map(|i| if self.used(i) { format!("o{i}") } else { String::new() }).collect();
        let mut node = Node::new(
            &self.op_type,
            "op",
            &in_names.iter().map(|s| s.as_str()).collect::<Vec<_>>(),
            &out_names.iter().map(|s| s.as_str()).collect::<Vec<_>>(),
        );
        if !self.domain.is_empty() {
            node = node.domain(&self.domain);
        }
        for (n, a) in &self.attrs {
            node = node.attr(n, a.clone());
        }
        let mut inputs = vec![];
        for (i, inp) in self.inputs.iter().enumerate() {
            if let Some(inp) = inp {
                if inp.seq.is_some() {
                    inputs.push(ValueInfo::new(&format!("i{i}"), 0, None));
                } else {
                    let dims: Vec<i64> = inp.shape.iter().map(|&d| d as i64).collect();
                    inputs.push(ValueInfo::fixed(&format!("i{i}"), inp.dt.onnx(), &dims));
                }
            }
        }
        let g = Graph {
            nodes: vec![node],
            inputs,
            outputs: out_names.iter().filter(|n| !n.is_empty()).map(|n| ValueInfo::new(n, 0, None)).collect(),
            ..Default::default()
        };
        encode_model(&g)
    }
}

/// Printable form of one run-time rule object.
pub fn rule_text(r: &rv::OutputType) -> String {
    match r {
        rv::OutputType::Fixed(t) => format!("fixed:{}", vt_name(*t)),
        rv::OutputType::CopyFromInput(i) => format!("copy:{i}"),
        rv::OutputType::ElementTypeOfInputSequence(i) => format!("elem:{i}"),
        rv::OutputType::SequenceWithElementTypeOfInput(i) => format!("seqof:{i}"),
    }
}

/// Harness-side evaluation of a rule on run-time input types (the oracle of C12).
pub fn eval_rule(r: &rv::OutputType, ins: &[Option<ValueType>]) -> Option<ValueType> {
    let get = |i: u32| ins.get(i as usize).copied().flatten();
    match r {
        rv::OutputType::Fixed(t) => Some(*t),
        rv::OutputType::CopyFromInput(i) => get(*i),
        rv::OutputType::ElementTypeOfInputSequence(i) => get(*i).map(|t| match t {
            ValueType::Sequence(d) => ValueType::Tensor(d),
            t => t,
        }),
        rv::OutputType::SequenceWithElementTypeOfInput(i) => get(*i).map(|t| match t {
            ValueType::Tensor(d) => ValueType::Sequence(d),
            t => t,
        }),
    }
}

pub struct Loaded {
    pub model: Model,
    pub op_name: String,
    pub max_inputs: Option<usize>,
    pub rules: Option<Vec<rv::OutputType>>,
    /// Labels computed by the real graph-level `infer_shapes` for `o0..`.
    pub labels: Vec<Option<ValueType>>,
    pub has_infer_shapes: bool,
    /// Strict-mode `infer_shapes` failed with `TypeInferenceFailed`.
    pub strict_type_failure: bool,
}

/// Load the single-op model with optimizations off (so the operator survives verbatim).
pub fn load_case(case: &Case) -> Result<Loaded, String> {
    let bytes = case.model_bytes();
    let mut opts = ModelOptions::with_all_ops();
    opts.enable_optimization(false);
    let model = opts.load(bytes).map_err(|e| format!("load: {e}"))?;
    let (op_name, max_inputs, rules, has_is, labels, strict_tf) = {
        let graph = model.verif_graph();
        let mut found = None;
        for (_, n) in graph.iter() {
            if let rv::Node::Operator(op) = n {
                found = Some(op);
            }
        }
        let op = found.ok_or("no operator node")?;
        let ctx = rv::OutputTypesContext { num_outputs: op.output_ids().len() };
        let rules = op.operator().output_types(&ctx).map(|l| l.into_iter().collect::<Vec<_>>());
        let infer = rv::infer_shapes(graph, rv::InferShapeOptions::default()).map_err(|e| format!("infer: {e}"))?;
        let labels: Vec<Option<ValueType>> = (0..case.n_out)
            .map(|i| model.find_node(&format!("o{i}")).and_then(|id| infer.types.get(&id).copied()))
            .collect();
        let strict = rv::infer_shapes(graph, rv::InferShapeOptions { strict: true, ..Default::default() });
        let strict_tf = matches!(strict, Err(rv::InferError::TypeInferenceFailed(_)));
        (
            op.operator().name().to_string(),
            op.operator().max_inputs(),
            rules,
            op.operator().as_infer_shapes().is_some(),
            labels,
            strict_tf,
        )
    };
    Ok(Loaded { model, op_name, max_inputs, rules, labels, has_infer_shapes: has_is, strict_type_failure: strict_tf })
}

/// Execute the loaded single-op model on the case's inputs; returns the *connected* outputs in slot order.
pub fn run_case(l: &Loaded, case: &Case) -> Result<Vec<Value>, String> {
    let mut ins = vec![];
    for (i, inp) in case.inputs.iter().enumerate() {
        if let Some(inp) = inp {
            let id = l.model.node_id(&format!("i{i}")).map_err(|e| format!("{e}"))?;
            ins.push((id, inp.value().into()));
        }
    }
    let outs: Vec<_> = (0..case.n_out)
        .filter(|&i| case.used(i))
        .map(|i| l.model.node_id(&format!("o{i}")).map_err(|e| format!("{e}")))
        .collect::<Result<_, _>>()?;
    l.model.run(ins, &outs, None).map_err(|e| format!("{e}").replace(['\n', '\t'], " "))
}

// ---------------------------------------------------------------------------
// Input constructors
// ---------------------------------------------------------------------------

pub fn numel(shape: &[usize]) -> usize {
    shape.iter().product()
}

/// Random small data tensor (values are small integers so that every dtype can hold them).
pub fn data(rng: &mut Rng, dt: Dt, shape: &[usize]) -> Option<Inp> {
    let vals = (0..numel(shape)).map(|_| rng.range_i64(0, 5) as f64).collect();
    Some(Inp { dt, shape: shape.to_vec(), vals, seq: None, shape_like: false })
}
pub fn f(rng: &mut Rng, shape: &[usize]) -> Option<Inp> {
    let vals = (0..numel(shape)).map(|_| (rng.range_i64(-20, 20) as f64) / 8.0).collect();
    Some(Inp { dt: Dt::F32, shape: shape.to_vec(), vals, seq: None, shape_like: false })
}
pub fn fvals(shape: &[usize], vals: &[f64]) -> Option<Inp> {
    Some(Inp { dt: Dt::F32, shape: shape.to_vec(), vals: vals.to_vec(), seq: None, shape_like: false })
}
/// Integer vector carrying shape-like values.
pub fn iv(vals: &[i64]) -> Option<Inp> {
    Some(Inp {
        dt: Dt::I32,
        shape: vec![vals.len()],
        vals: vals.iter().map(|&v| v as f64).collect(),
        seq: None,
        shape_like: true,
    })
}
pub fn isc(v: i64) -> Option<Inp> {
    Some(Inp { dt: Dt::I32, shape: vec![], vals: vec![v as f64], seq: None, shape_like: true })
}
pub fn fsc(v: f64) -> Option<Inp> {
    Some(Inp { dt: Dt::F32, shape: vec![], vals: vec![v], seq: None, shape_like: false })
}
pub fn ivals(shape: &[usize], vals: &[i64]) -> Option<Inp> {
    Some(Inp {
        dt: Dt::I32,
        shape: shape.to_vec(),
        vals: vals.iter().map(|&v| v as f64).collect(),
        seq: None,
        shape_like: false,
    })
}
pub fn seq(rng: &mut Rng, dt: Dt, n: usize, shape: &[usize]) -> Option<Inp> {
    let items = (0..n)
        .map(|_| (shape.to_vec(), (0..numel(shape)).map(|_| rng.range_i64(0, 5) as f64).collect()))
        .collect();
    Some(Inp { dt, shape: vec![], vals: vec![], seq: Some(items), shape_like: false })
}

pub fn rshape(rng: &mut Rng, rank: usize, max: usize) -> Vec<usize> {
    (0..rank).map(|_| 1 + rng.usize_below(max)).collect()
}

pub const UNARY_FLOAT: &[&str] = &[
    "Acos", "Acosh", "Asin", "Asinh", "Atan", "Atanh", "Ceil", "Cos", "Cosh", "Elu", "Erf", "Exp", "Floor", "Gelu",
    "HardSigmoid", "HardSwish", "LeakyRelu", "Log", "Reciprocal", "Relu", "Round", "Sigmoid", "Sin", "Sinh",
    "Softplus", "Sqrt", "Swish", "Tan", "Tanh", "IsInf", "IsNaN", "Softmax", "LogSoftmax", "GlobalAveragePool",
    "GlobalMaxPool", "LpNormalization", "DynamicQuantizeLinear",
];
pub const UNARY_ANY: &[&str] = &["Abs", "Neg", "Sign", "Identity", "Not", "NonZero", "Size", "Shape", "Transpose", "Flatten"];
pub const BINARY: &[&str] = &[
    "Add", "Sub", "Mul", "Div", "Pow", "Mod", "And", "Or", "Xor", "Equal", "Greater", "GreaterOrEqual", "Less",
    "LessOrEqual", "PRelu",
];
pub const VARIADIC: &[&str] = &["Max", "Min", "Mean", "Sum"];
pub const REDUCE: &[&str] = &[
    "ReduceL1", "ReduceL2", "ReduceLogSum", "ReduceLogSumExp", "ReduceMax", "ReduceMean", "ReduceMin", "ReduceProd",
    "ReduceSum", "ReduceSumSquare",
];

fn dtype_code(rng: &mut Rng) -> (i64, &'static str) {
    // ONNX dtype codes incl. the ones rten narrows (int64/bool -> int32, double/f16 -> float)
    *rng.pick(&[
        (1, "float"),
        (2, "uint8"),
        (3, "int8"),
        (6, "int32"),
        (7, "int32"),
        (9, "int32"),
        (11, "float"),
        (10, "float"),
    ])
}

/// Generate one concrete case per operator recipe (random shapes / attribute variants).
pub fn gen_cases(rng: &mut Rng) -> Vec<Case> {
    let mut v: Vec<Case> = vec![];
    for op in UNARY_FLOAT {
        let sh = match *op {
            "GlobalAveragePool" | "GlobalMaxPool" => rshape(rng, 4, 3),
            _ => {
                let r = 1 + rng.usize_below(3);
                rshape(rng, r, 4)
            }
        };
        let mut c = Case::new(op, vec![f(rng, &sh)]);
        if *op == "DynamicQuantizeLinear" {
            c = c.outs(3);
        }
        v.push(c);
    }
    for op in UNARY_ANY {
        let r = 1 + rng.usize_below(3);
        let sh = rshape(rng, r, 4);
        let mut c = Case::new(op, vec![data(rng, Dt::I32, &sh)]);
        if *op == "Shape" && rng.chance(1, 2) {
            c = c.ai("start", rng.range_i64(-2, 1));
            if rng.chance(1, 2) {
                c = c.ai("end", rng.range_i64(-1, 3));
            }
        }
        if *op == "Flatten" {
            c = c.ai("axis", rng.range_i64(0, r as i64));
        }
        if *op == "Transpose" && rng.chance(1, 2) {
            let mut p: Vec<i64> = (0..r as i64).collect();
            rng.shuffle(&mut p);
            c = c.ais("perm", &p);
        }
        v.push(c);
    }
    for op in BINARY {
        let r = 1 + rng.usize_below(3);
        let sh = rshape(rng, r, 4);
        // right operand: same shape, broadcast suffix, or scalar
        let shb: Vec<usize> = match rng.below(3) {
            0 => sh.clone(),
            1 => sh[rng.usize_below(r)..].iter().map(|&d| if rng.chance(1, 3) { 1 } else { d }).collect(),
            _ => vec![],
        };
        let dt = if matches!(*op, "PRelu" | "Pow") { Dt::F32 } else { Dt::I32 };
        let mut b = data(rng, dt, &shb);
        if matches!(*op, "Div" | "Mod") {
            b.as_mut().unwrap().vals.iter_mut().for_each(|x| *x += 1.0);
        }
        v.push(Case::new(op, vec![data(rng, dt, &sh), b]));
    }
    for op in VARIADIC {
        let n = 1 + rng.usize_below(3);
        let sh = rshape(rng, 2, 3);
        let ins = (0..n).map(|_| data(rng, Dt::F32, &sh)).collect();
        v.push(Case::new(op, ins));
    }
    {
        let sh = rshape(rng, 2, 3);
        v.push(Case::new("Where", vec![data(rng, Dt::I32, &sh), data(rng, Dt::F32, &sh), data(rng, Dt::F32, &sh)]));
        v.push(Case::new("Clip", vec![f(rng, &sh), fsc(-0.5), fsc(0.5)]));
        v.push(Case::new("Clip", vec![f(rng, &sh), None, fsc(0.5)]));
    }
    for op in REDUCE {
        let r = 1 + rng.usize_below(3);
        let sh = rshape(rng, r, 4);
        let axis = rng.range_i64(-(r as i64), r as i64 - 1);
        let mut c = Case::new(op, vec![f(rng, &sh), if rng.chance(2, 3) { iv(&[axis]) } else { None }]);
        if rng.chance(1, 2) {
            c = c.ai("keepdims", rng.range_i64(0, 1));
        }
        v.push(c);
    }
    for op in ["ArgMax", "ArgMin"] {
        let r = 1 + rng.usize_below(3);
        let sh = rshape(rng, r, 4);
        let c = Case::new(op, vec![f(rng, &sh)])
            .ai("axis", rng.range_i64(-(r as i64), r as i64 - 1))
            .ai("keepdims", rng.range_i64(0, 1));
        v.push(c);
    }
    {
        let r = 1 + rng.usize_below(3);
        let sh = rshape(rng, r, 4);
        v.push(Case::new("CumSum", vec![f(rng, &sh), isc(rng.range_i64(0, r as i64 - 1))]));
        let k = 1 + rng.usize_below(sh[r - 1]) as i64;
        v.push(Case::new("TopK", vec![f(rng, &sh), iv(&[k])]).outs(2));
        v.push(Case::new("TopK", vec![f(rng, &sh), iv(&[1])]).ai("axis", 0).ai("largest", 0).outs(2));
    }
    // --- layout
    {
        let sh = rshape(rng, 3, 4);
        let n = numel(&sh) as i64;
        let target = match rng.below(4) {
            0 => vec![n],
            1 => vec![-1, sh[2] as i64],
            2 => vec![0, -1],
            _ => vec![sh[0] as i64, (sh[1] * sh[2]) as i64],
        };
        v.push(Case::new("Reshape", vec![f(rng, &sh), iv(&target)]));
        let mut sq = sh.clone();
        let ax = rng.usize_below(3);
        sq[ax] = 1;
        v.push(Case::new("Squeeze", vec![f(rng, &sq), iv(&[ax as i64])]));
        v.push(Case::new("Squeeze", vec![f(rng, &sq), None]));
        v.push(Case::new("Unsqueeze", vec![f(rng, &sh), iv(&[rng.range_i64(-4, 3)])]));
        let mut ex = sh.clone();
        ex[rng.usize_below(3)] = 1;
        let tgt: Vec<i64> = std::iter::once(2).chain(sh.iter().map(|&d| d as i64)).collect();
        v.push(Case::new("Expand", vec![f(rng, &ex), iv(&tgt)]));
        v.push(Case::new("Tile", vec![f(rng, &sh), iv(&[1, 2, rng.range_i64(1, 3)])]));
        let axis = rng.usize_below(3);
        let mut sh2 = sh.clone();
        sh2[axis] = 1 + rng.usize_below(3);
        v.push(Case::new("Concat", vec![f(rng, &sh), f(rng, &sh2)]).ai("axis", axis as i64));
        v.push(Case::new("Concat", vec![iv(&[3, 4]), iv(&[5])]).ai("axis", 0));
        // Split: equal parts via num_outputs, or explicit sizes
        let d = sh[axis] as i64;
        if d >= 2 {
            v.push(Case::new("Split", vec![f(rng, &sh), iv(&[1, d - 1])]).ai("axis", axis as i64).outs(2));
        }
        v.push(Case::new("Split", vec![f(rng, &sh), None]).ai("axis", axis as i64).ai("num_outputs", 2).outs(2));
        v.push(Case::new("Split", vec![f(rng, &sh), None]).ai("axis", axis as i64).ai("num_outputs", 3).outs(3));
        // Slice
        let start = rng.range_i64(-(sh[axis] as i64) - 1, sh[axis] as i64);
        let end = rng.range_i64(-(sh[axis] as i64) - 1, sh[axis] as i64 + 2);
        let step = *rng.pick(&[1i64, 1, 2, -1, -2]);
        v.push(Case::new(
            "Slice",
            vec![f(rng, &sh), iv(&[start]), iv(&[end]), iv(&[axis as i64]), if rng.chance(2, 3) { iv(&[step]) } else { None }],
        ));
        let vlen = 4usize;
        v.push(Case::new("Slice", vec![iv(&[2, 3, 5, 7]), iv(&[rng.range_i64(-5, 4)]), iv(&[rng.range_i64(-5, 6)]), iv(&[0]), iv(&[step])]));
        let _ = vlen;
        v.push(Case::new("Pad", vec![f(rng, &sh), iv(&[0, 1, 0, 1, 0, 2]), if rng.chance(1, 2) { fsc(1.5) } else { None }]));
        // Gather family
        let gi = rng.range_i64(-(sh[axis] as i64), sh[axis] as i64 - 1);
        v.push(Case::new("Gather", vec![f(rng, &sh), if rng.chance(1, 2) { isc(gi) } else { iv(&[gi, 0]) }]).ai("axis", axis as i64));
        v.push(Case::new("Gather", vec![iv(&[4, 5, 6]), isc(rng.range_i64(-3, 2))]).ai("axis", 0));
        v.push(Case::new("Gather", vec![iv(&[4, 5, 6]), iv(&[0, 2])]).ai("axis", 0));
        let mut ish = sh.clone();
        ish[axis] = 2;
        let idx: Vec<i64> = (0..numel(&ish)).map(|_| rng.range_i64(0, sh[axis] as i64 - 1)).collect();
        v.push(Case::new("GatherElements", vec![f(rng, &sh), ivals(&ish, &idx)]).ai("axis", axis as i64));
        v.push(Case::new("GatherND", vec![f(rng, &sh), ivals(&[2, 2], &[0, 0, (sh[0] - 1) as i64, (sh[1] - 1) as i64])]));
        v.push(Case::new("ScatterElements", vec![f(rng, &sh), ivals(&ish, &idx), f(rng, &ish)]).ai("axis", axis as i64));
        v.push(Case::new("Scatter", vec![f(rng, &sh), ivals(&ish, &idx), f(rng, &ish)]).ai("axis", axis as i64));
        v.push(Case::new(
            "ScatterND",
            vec![f(rng, &sh), ivals(&[1, 2], &[0, (sh[1] - 1) as i64]), f(rng, &[1, sh[2]])],
        ));
        let m = rshape(rng, 2, 4);
        v.push(Case::new("Trilu", vec![f(rng, &m), if rng.chance(1, 2) { isc(rng.range_i64(-1, 1)) } else { None }]).ai("upper", rng.range_i64(0, 1)));
        v.push(Case::new("OneHot", vec![ivals(&[3], &[0, 2, 1]), isc(4), fvals(&[2], &[0.0, 1.0])]).ai("axis", *rng.pick(&[-1i64, 0])));
        v.push(Case::new("Range", vec![isc(rng.range_i64(-2, 2)), isc(rng.range_i64(3, 7)), isc(rng.range_i64(1, 3))]));
        v.push(Case::new("Range", vec![fsc(0.0), fsc(2.5), fsc(0.5)]));
        v.push(Case::new("DepthToSpace", vec![f(rng, &[1, 8, 2, 3])]).ai("blocksize", 2).astr("mode", *rng.pick(&["DCR", "CRD"])));
        v.push(Case::new("ReverseSequence", vec![f(rng, &[3, 2, 2]), ivals(&[2], &[1, 3])]));
        v.push(Case::new("EyeLike", vec![f(rng, &m)]));
        let (code, name) = dtype_code(rng);
        v.push(Case::new("EyeLike", vec![f(rng, &m)]).ai("dtype", code).ai("k", 1).sig("dtype", name));
    }
    // --- type-changing ops
    for (code, name) in [(1i64, "float"), (2, "uint8"), (3, "int8"), (6, "int32"), (7, "int32"), (9, "int32"), (10, "float"), (11, "float")] {
        let sh = rshape(rng, 2, 3);
        v.push(Case::new("Cast", vec![f(rng, &sh)]).ai("to", code).sig("to", name));
    }
    {
        let sh = rshape(rng, 2, 3);
        for dt in ALL_DT {
            v.push(Case::new("CastLike", vec![f(rng, &sh), data(rng, dt, &[1])]));
        }
        // ConstantOfShape with each value dtype
        v.push(Case::new("ConstantOfShape", vec![iv(&[2, 3])]).sig("value.dtype", "float"));
        let vals: [(OTensor, &str); 5] = [
            (OTensor::f32s("v", &[1], &[1.5]), "float"),
            (OTensor::i32s("v", &[1], &[7]), "int32"),
            (OTensor::i64s("v", &[1], &[7]), "int32"),
            (OTensor::u8s("v", &[1], &[7]), "uint8"),
            (OTensor::i8s("v", &[1], &[-7]), "int8"),
        ];
        for (t, name) in vals {
            v.push(Case::new("ConstantOfShape", vec![iv(&[2, 1 + rng.range_i64(0, 2)])]).a("value", Attr::Tensor(t)).sig("value.dtype", name));
        }
        // Quantization
        v.push(Case::new("QuantizeLinear", vec![f(rng, &sh), fsc(0.25), None]));
        v.push(Case::new("QuantizeLinear", vec![f(rng, &sh), fsc(0.25), data(rng, Dt::U8, &[])]));
        v.push(Case::new("QuantizeLinear", vec![f(rng, &sh), fsc(0.25), data(rng, Dt::I8, &[])]));
        v.push(Case::new("QuantizeLinear", vec![f(rng, &sh), fsc(0.25), None]).ai("output_dtype", 2).sig("output_dtype", "uint8"));
        v.push(Case::new("QuantizeLinear", vec![f(rng, &sh), fsc(0.25), None]).ai("output_dtype", 3).sig("output_dtype", "int8"));
        v.push(Case::new("QuantizeLinear", vec![f(rng, &sh), fsc(0.25), data(rng, Dt::U8, &[])]).ai("output_dtype", 3).sig("output_dtype", "int8"));
        v.push(Case::new("DequantizeLinear", vec![data(rng, Dt::U8, &sh), fsc(0.25), data(rng, Dt::U8, &[])]));
        v.push(Case::new("DequantizeLinear", vec![data(rng, Dt::I8, &sh), fsc(0.25), None]));
        v.push(Case::new("DequantizeLinear", vec![data(rng, Dt::I32, &sh), fsc(0.25), None]));
    }
    // --- nn
    {
        let (n, c, h, w) = (1 + rng.usize_below(2), 2usize, 4 + rng.usize_below(3), 4 + rng.usize_below(3));
        let co = 1 + rng.usize_below(3);
        let k = 1 + rng.usize_below(3);
        let stride = 1 + rng.range_i64(0, 1);
        let pad = rng.range_i64(0, 1);
        let conv = |c: Case| c.ais("kernel_shape", &[k as i64, k as i64]).ais("strides", &[stride, stride]).ais("pads", &[pad, pad, pad, pad]);
        v.push(conv(Case::new("Conv", vec![f(rng, &[n, c, h, w]), f(rng, &[co, c, k, k]), if rng.chance(1, 2) { f(rng, &[co]) } else { None }])));
        v.push(conv(Case::new(
            "ConvInteger",
            vec![data(rng, Dt::U8, &[n, c, h, w]), data(rng, Dt::I8, &[co, c, k, k]), data(rng, Dt::U8, &[]), None],
        )));
        v.push(conv(Case::new("ConvTranspose", vec![f(rng, &[n, c, h, w]), f(rng, &[c, co, k, k]), None])));
        v.push(conv(Case::new("AveragePool", vec![f(rng, &[n, c, h, w])])));
        v.push(conv(Case::new("MaxPool", vec![f(rng, &[n, c, h, w])])));
        v.push(Case::new("Conv", vec![f(rng, &[n, c, h]), f(rng, &[co, c, k])]).ais("kernel_shape", &[k as i64]));
        let (m, kk, nn) = (1 + rng.usize_below(3), 1 + rng.usize_below(4), 1 + rng.usize_below(3));
        v.push(Case::new("MatMul", vec![f(rng, &[2, m, kk]), f(rng, &[kk, nn])]));
        v.push(Case::new("MatMulInteger", vec![data(rng, Dt::U8, &[m, kk]), data(rng, Dt::I8, &[kk, nn]), None, None]));
        v.push(Case::new("Gemm", vec![f(rng, &[m, kk]), f(rng, &[kk, nn]), if rng.chance(1, 2) { f(rng, &[nn]) } else { None }]));
        v.push(Case::new("Gemm", vec![f(rng, &[kk, m]), f(rng, &[nn, kk]), None]).ai("transA", 1).ai("transB", 1));
        v.push(Case::new("Einsum", vec![f(rng, &[m, kk]), f(rng, &[kk, nn])]).astr("equation", "ij,jk->ik"));
        v.push(Case::new(
            "BatchNormalization",
            vec![f(rng, &[n, c, h, w]), f(rng, &[c]), f(rng, &[c]), f(rng, &[c]), fvals(&[c], &vec![1.0; c])],
        ));
        v.push(Case::new("InstanceNormalization", vec![f(rng, &[n, c, h, w]), f(rng, &[c]), f(rng, &[c])]));
        v.push(Case::new("LayerNormalization", vec![f(rng, &[n, h, w]), f(rng, &[w]), if rng.chance(1, 2) { f(rng, &[w]) } else { None }]));
        v.push(Case::new("RMSNormalization", vec![f(rng, &[n, h, w]), f(rng, &[w])]));
        v.push(Case::new("SimplifiedLayerNormalization", vec![f(rng, &[n, h, w]), f(rng, &[w])]));
        v.push(Case::new("SkipLayerNormalization", vec![f(rng, &[n, h, w]), f(rng, &[n, h, w]), f(rng, &[w]), f(rng, &[w]), None]).ms().af("epsilon", 1e-5));
        v.push(
            Case::new("SkipLayerNormalization", vec![f(rng, &[n, h, w]), f(rng, &[n, h, w]), f(rng, &[w]), None, None])
                .ms()
                .af("epsilon", 1e-5)
                .outs(4),
        );
        v.push(
            Case::new("SkipSimplifiedLayerNormalization", vec![f(rng, &[n, h, w]), f(rng, &[n, h, w]), f(rng, &[w])])
                .ms()
                .af("epsilon", 1e-5),
        );
        v.push(
            Case::new("SkipSimplifiedLayerNormalization", vec![f(rng, &[n, h, w]), f(rng, &[n, h, w]), f(rng, &[w])])
                .ms()
                .af("epsilon", 1e-5)
                .outs(4),
        );
        v.push(Case::new("BiasGelu", vec![f(rng, &[n, w]), f(rng, &[w])]).ms());
        v.push(Case::new("FastGelu", vec![f(rng, &[n, w]), if rng.chance(1, 2) { f(rng, &[w]) } else { None }]).ms());
        v.push(Case::new("Gelu", vec![f(rng, &[n, w])]).ms().key("GeluMicrosoft"));
        v.push(Case::new("QuickGelu", vec![f(rng, &[n, w])]).ms());
        v.push(Case::new("Resize", vec![f(rng, &[1, 1, h, w]), None, fvals(&[4], &[1.0, 1.0, 2.0, 2.0])]).astr("mode", "nearest"));
        v.push(Case::new("Resize", vec![f(rng, &[1, 1, h, w]), None, None, iv(&[1, 1, 5, 7])]).astr("mode", "linear"));
        v.push(Case::new("Upsample", vec![f(rng, &[1, 1, h, w]), fvals(&[4], &[1.0, 1.0, 2.0, 2.0])]));
        v.push(Case::new("GridSample", vec![f(rng, &[1, c, h, w]), f(rng, &[1, 2, 3, 2])]));
        v.push(Case::new(
            "NonMaxSuppression",
            vec![
                fvals(&[1, 2, 4], &[0.0, 0.0, 1.0, 1.0, 0.0, 0.1, 1.0, 1.1]),
                fvals(&[1, 1, 2], &[0.9, 0.8]),
                isc(2),
                fsc(0.5),
                fsc(0.1),
            ],
        ));
        // RNNs: X [seq, batch, input], W [dirs, gates*hidden, input], R [dirs, gates*hidden, hidden]
        let (sq, b, inp, hid) = (2usize, 1 + rng.usize_below(2), 3usize, 2usize);
        v.push(Case::new("GRU", vec![f(rng, &[sq, b, inp]), f(rng, &[1, 3 * hid, inp]), f(rng, &[1, 3 * hid, hid])]).ai("hidden_size", hid as i64).ai("linear_before_reset", 1).outs(2));
        v.push(Case::new("LSTM", vec![f(rng, &[sq, b, inp]), f(rng, &[1, 4 * hid, inp]), f(rng, &[1, 4 * hid, hid])]).ai("hidden_size", hid as i64).outs(3));
        // Attention (ONNX 23): 4-D q/k/v [batch, heads, seq, head]
        v.push(Case::new("Attention", vec![f(rng, &[1, 2, 3, 4]), f(rng, &[1, 2, 3, 4]), f(rng, &[1, 2, 3, 4])]));
        v.push(Case::new("RotaryEmbedding", vec![f(rng, &[1, 2, 3, 4]), f(rng, &[1, 3, 2]), f(rng, &[1, 3, 2])]));
        v.push(Case::new("MultiHeadAttention", vec![f(rng, &[1, 3, 8]), f(rng, &[1, 3, 8]), f(rng, &[1, 3, 8])]).ms().ai("num_heads", 2));
        v.push(
            Case::new("RotaryEmbedding", vec![f(rng, &[1, 3, 8]), ivals(&[1, 3], &[0, 1, 2]), f(rng, &[4, 2]), f(rng, &[4, 2])])
                .ms()
                .key("RotaryEmbeddingMicrosoft")
                .ai("num_heads", 2),
        );
        // GroupQueryAttention: query, key, value, past_key, past_value, seqlens_k, total_sequence_length
        v.push(
            Case::new(
                "GroupQueryAttention",
                vec![
                    f(rng, &[1, 3, 8]),
                    f(rng, &[1, 3, 4]),
                    f(rng, &[1, 3, 4]),
                    f(rng, &[1, 1, 0, 4]),
                    f(rng, &[1, 1, 0, 4]),
                    ivals(&[1], &[2]),
                    isc(3),
                ],
            )
            .ms()
            .ai("num_heads", 2)
            .ai("kv_num_heads", 1)
            .outs(3),
        );
        // MatMulNBits: A [M,K], B [N, K/bs, bs/2] u8, scales [N, K/bs]
        v.push(
            Case::new("MatMulNBits", vec![f(rng, &[2, 32]), data(rng, Dt::U8, &[3, 1, 16]), f(rng, &[3, 1])])
                .ms()
                .ai("K", 32)
                .ai("N", 3)
                .ai("bits", 4)
                .ai("block_size", 32),
        );
        v.push(Case::new("DFT", vec![f(rng, &[1, 8, 1])]));
        v.push(Case::new("STFT", vec![f(rng, &[1, 16, 1]), isc(4), None, isc(8)]));
    }
    // --- random
    {
        v.push(Case::new("RandomNormal", vec![]).ais("shape", &[2, 3]).af("seed", 1.0));
        v.push(Case::new("RandomUniform", vec![]).ais("shape", &[2, 3]).af("seed", 1.0));
        let sh = rshape(rng, 2, 3);
        v.push(Case::new("RandomNormalLike", vec![data(rng, Dt::I32, &sh)]).af("seed", 1.0));
        v.push(Case::new("RandomUniformLike", vec![data(rng, Dt::I32, &sh)]).af("seed", 1.0));
        v.push(Case::new("Multinomial", vec![fvals(&[1, 3], &[0.1, 0.2, 0.3])]).ai("sample_size", 2).af("seed", 1.0));
        v.push(Case::new("Dropout", vec![f(rng, &sh)]).outs(1 + rng.usize_below(2)));
    }
    // --- sequences
    for dt in ALL_DT {
        let sh = rshape(rng, 2, 3);
        v.push(Case::new("SequenceConstruct", vec![data(rng, dt, &sh), data(rng, dt, &sh)]));
        v.push(Case::new("SequenceAt", vec![seq(rng, dt, 2, &sh), isc(rng.range_i64(-2, 1))]));
        v.push(Case::new("SequenceErase", vec![seq(rng, dt, 2, &sh), if rng.chance(1, 2) { isc(0) } else { None }]));
        v.push(Case::new("SequenceInsert", vec![seq(rng, dt, 2, &sh), data(rng, dt, &sh), if rng.chance(1, 2) { isc(1) } else { None }]));
        v.push(Case::new("SequenceLength", vec![seq(rng, dt, 2, &sh)]));
        v.push(Case::new("ConcatFromSequence", vec![seq(rng, dt, 2, &sh)]).ai("axis", 0).ai("new_axis", rng.range_i64(0, 1)));
        v.push(Case::new("SplitToSequence", vec![data(rng, dt, &[4, 2]), if rng.chance(1, 2) { isc(2) } else { None }]));
    }
    v.push(Case::new("SequenceEmpty", vec![]));
    for (code, name) in [(1i64, "float"), (2, "uint8"), (3, "int8"), (6, "int32"), (7, "int32")] {
        v.push(Case::new("SequenceEmpty", vec![]).ai("dtype", code).sig("dtype", name));
    }
    v
}
