//! C20 end-to-end family (`#[path = "../c20_e2e.rs"] mod c20_e2e;` from `bin/c20.rs`).
//!
//! Small ONNX models are generated, written to disk, converted by the REAL `rten-convert`
//! (`harness/pyshim/run_convert.py` imports it from the repo under check; only its two missing
//! third-party dependencies are shims), and then both files are loaded in-process by rten and
//! executed on the same inputs.  Outputs must agree exactly.
#![allow(dead_code)]
use crate::onnx_enc::{self as enc, dt, f_bytes, f_f32, f_i64, f_str, Attr, Dim, Graph, Node, Tensor as OT, TensorData, ValueInfo};
use hcommon::Rng;
use rten::{Model, ModelOptions, Sequence, Value};
use rten_simd::float16::f16;
use rten_tensor::prelude::*;
use rten_tensor::Tensor;
use std::collections::{BTreeMap, BTreeSet};
use std::path::{Path, PathBuf};

// ------------------------------------------------------------------------------------------
// Model description + encoding
// ------------------------------------------------------------------------------------------

pub struct E2e {
    /// `family/op` label used for buckets and in the request line.
    pub label: String,
    pub graph: Graph,
    pub opset: i64,
    pub feeds: Vec<(String, Value)>,
    /// External data files (name relative to the model directory, content).
    pub ext: Vec<(String, Vec<u8>)>,
    /// For the constants family: the request the Lean model answers (`cst ...`).
    pub cst_req: Option<String>,
    /// Extra rten-convert command line arguments (`--v1`: FlatBuffers-only file, all tensor data inline).
    pub extra_args: String,
}

impl E2e {
    pub fn new(label: &str, graph: Graph) -> E2e {
        E2e { label: label.into(), graph, opset: 21, feeds: vec![], ext: vec![], cst_req: None, extra_args: String::new() }
    }
    pub fn out_names(&self) -> Vec<String> {
        self.graph.outputs.iter().map(|o| o.name.clone()).collect()
    }
}

/// ValueInfoProto; `dtype == 0` omits the type altogether (an exporter that knows nothing about a
/// value writes no `type`; `elem_type = UNDEFINED` is refused by the converter).
fn enc_vi(v: &ValueInfo) -> Vec<u8> {
    let mut o = Vec::new();
    f_str(&mut o, 1, &v.name);
    if v.dtype != 0 {
        let mut tt = Vec::new();
        f_i64(&mut tt, 1, v.dtype as i64);
        if let Some(shape) = &v.shape {
            let mut sh = Vec::new();
            for d in shape {
                let mut dm = Vec::new();
                match d {
                    Dim::Fixed(v) => f_i64(&mut dm, 1, *v),
                    Dim::Sym(s) => f_str(&mut dm, 2, s),
                }
                f_bytes(&mut sh, 1, &dm);
            }
            f_bytes(&mut tt, 2, &sh);
        }
        let mut tp = Vec::new();
        f_bytes(&mut tp, 1, &tt);
        f_bytes(&mut o, 2, &tp);
    }
    o
}

fn enc_attr(name: &str, a: &Attr) -> Vec<u8> {
    let mut o = Vec::new();
    f_str(&mut o, 1, name);
    match a {
        Attr::Float(v) => {
            f_f32(&mut o, 2, *v);
            f_i64(&mut o, 20, 1);
        }
        Attr::Int(v) => {
            f_i64(&mut o, 3, *v);
            f_i64(&mut o, 20, 2);
        }
        Attr::Str(s) => {
            f_str(&mut o, 4, s);
            f_i64(&mut o, 20, 3);
        }
        Attr::Tensor(t) => {
            f_bytes(&mut o, 5, &t.encode());
            f_i64(&mut o, 20, 4);
        }
        Attr::Graph(g) => {
            f_bytes(&mut o, 6, &enc_graph(g));
            f_i64(&mut o, 20, 5);
        }
        Attr::Floats(v) => {
            for x in v {
                f_f32(&mut o, 7, *x);
            }
            f_i64(&mut o, 20, 6);
        }
        Attr::Ints(v) => {
            for x in v {
                f_i64(&mut o, 8, *x);
            }
            f_i64(&mut o, 20, 7);
        }
        Attr::Strs(v) => {
            for s in v {
                f_str(&mut o, 9, s);
            }
            f_i64(&mut o, 20, 8);
        }
    }
    o
}

fn enc_node(n: &Node) -> Vec<u8> {
    let mut o = Vec::new();
    for i in &n.inputs {
        f_str(&mut o, 1, i);
    }
    for i in &n.outputs {
        f_str(&mut o, 2, i);
    }
    f_str(&mut o, 3, &n.name);
    f_str(&mut o, 4, &n.op_type);
    for (name, a) in &n.attrs {
        f_bytes(&mut o, 5, &enc_attr(name, a));
    }
    if !n.domain.is_empty() {
        f_str(&mut o, 7, &n.domain);
    }
    o
}

pub fn enc_graph(g: &Graph) -> Vec<u8> {
    let mut o = Vec::new();
    for n in &g.nodes {
        f_bytes(&mut o, 1, &enc_node(n));
    }
    f_str(&mut o, 2, if g.name.is_empty() { "g" } else { &g.name });
    for t in &g.initializers {
        f_bytes(&mut o, 5, &t.encode());
    }
    for v in &g.inputs {
        f_bytes(&mut o, 11, &enc_vi(v));
    }
    for v in &g.outputs {
        f_bytes(&mut o, 12, &enc_vi(v));
    }
    for v in &g.value_infos {
        f_bytes(&mut o, 13, &enc_vi(v));
    }
    o
}

pub fn enc_model(g: &Graph, opset: i64) -> Vec<u8> {
    let mut o = Vec::new();
    f_i64(&mut o, 1, 8);
    f_str(&mut o, 2, "rten-verif");
    f_bytes(&mut o, 7, &enc_graph(g));
    for (dom, ver) in [("", opset), ("com.microsoft", 1)] {
        let mut os = Vec::new();
        f_str(&mut os, 1, dom);
        f_i64(&mut os, 2, ver);
        f_bytes(&mut o, 8, &os);
    }
    o
}

// ------------------------------------------------------------------------------------------
// Values -> initializers in every encoding the property names
// ------------------------------------------------------------------------------------------

pub fn le_bytes<T: Copy, const N: usize>(v: &[T], f: impl Fn(T) -> [u8; N]) -> Vec<u8> {
    v.iter().flat_map(|&x| f(x)).collect()
}

pub fn raw_tensor(name: &str, dtype: i32, dims: &[i64], raw: Vec<u8>) -> OT {
    OT { name: name.into(), dtype, dims: dims.to_vec(), data: TensorData::Raw(raw) }
}

pub fn typed_i32(name: &str, dtype: i32, dims: &[i64], v: Vec<i32>) -> OT {
    OT { name: name.into(), dtype, dims: dims.to_vec(), data: TensorData::Int32s(v) }
}

/// Turn a run-time value into an initializer with a randomly chosen storage dtype / encoding.
/// Returns the tensor and a tag `dtype:encoding` for the statistics.
pub fn value_to_initializer(rng: &mut Rng, name: &str, v: &Value) -> Option<(OT, String)> {
    let dims = |s: &[usize]| s.iter().map(|&d| d as i64).collect::<Vec<_>>();
    match v {
        Value::FloatTensor(t) => {
            let d = dims(t.shape());
            let vals: Vec<f32> = t.iter().copied().collect();
            Some(match rng.below(6) {
                5 => {
                    let v64: Vec<f64> = vals.iter().map(|&x| x as f64).collect();
                    (OT { name: name.into(), dtype: dt::DOUBLE, dims: d, data: TensorData::Doubles(v64) }, "double:typed".into())
                }
                0 => (raw_tensor(name, dt::FLOAT, &d, le_bytes(&vals, f32::to_le_bytes)), "float:raw".into()),
                1 => (OT { name: name.into(), dtype: dt::FLOAT, dims: d, data: TensorData::Floats(vals) }, "float:typed".into()),
                2 => {
                    let v64: Vec<f64> = vals.iter().map(|&x| x as f64).collect();
                    (raw_tensor(name, dt::DOUBLE, &d, le_bytes(&v64, f64::to_le_bytes)), "double:raw".into())
                }
                3 => {
                    let h: Vec<u16> = vals.iter().map(|&x| f16::from_f32(x).to_bits()).collect();
                    (raw_tensor(name, dt::FLOAT16, &d, le_bytes(&h, u16::to_le_bytes)), "float16:raw".into())
                }
                _ => {
                    let h: Vec<i32> = vals.iter().map(|&x| f16::from_f32(x).to_bits() as i32).collect();
                    (typed_i32(name, dt::FLOAT16, &d, h), "float16:typed".into())
                }
            })
        }
        Value::Int32Tensor(t) => {
            let d = dims(t.shape());
            let vals: Vec<i32> = t.iter().copied().collect();
            let all01 = vals.iter().all(|&x| x == 0 || x == 1);
            Some(match rng.below(if all01 { 6 } else { 4 }) {
                0 => (raw_tensor(name, dt::INT32, &d, le_bytes(&vals, i32::to_le_bytes)), "int32:raw".into()),
                1 => (typed_i32(name, dt::INT32, &d, vals), "int32:typed".into()),
                2 => {
                    let v64: Vec<i64> = vals.iter().map(|&x| x as i64).collect();
                    (raw_tensor(name, dt::INT64, &d, le_bytes(&v64, i64::to_le_bytes)), "int64:raw".into())
                }
                3 => {
                    let v64: Vec<i64> = vals.iter().map(|&x| x as i64).collect();
                    (OT { name: name.into(), dtype: dt::INT64, dims: d, data: TensorData::Int64s(v64) }, "int64:typed".into())
                }
                4 => (raw_tensor(name, dt::BOOL, &d, vals.iter().map(|&x| x as u8).collect()), "bool:raw".into()),
                _ => (typed_i32(name, dt::BOOL, &d, vals), "bool:typed".into()),
            })
        }
        Value::Int8Tensor(t) => {
            let d = dims(t.shape());
            let vals: Vec<i8> = t.iter().copied().collect();
            Some(if rng.chance(1, 2) {
                (raw_tensor(name, dt::INT8, &d, vals.iter().map(|&x| x as u8).collect()), "int8:raw".into())
            } else {
                (typed_i32(name, dt::INT8, &d, vals.iter().map(|&x| x as i32).collect()), "int8:typed".into())
            })
        }
        Value::UInt8Tensor(t) => {
            let d = dims(t.shape());
            let vals: Vec<u8> = t.iter().copied().collect();
            Some(if rng.chance(1, 2) {
                (raw_tensor(name, dt::UINT8, &d, vals.clone()), "uint8:raw".into())
            } else {
                (typed_i32(name, dt::UINT8, &d, vals.iter().map(|&x| x as i32).collect()), "uint8:typed".into())
            })
        }
        _ => None,
    }
}

pub fn onnx_dtype_of(v: &Value) -> i32 {
    match v {
        Value::FloatTensor(_) => dt::FLOAT,
        Value::Int32Tensor(_) => dt::INT32,
        Value::Int8Tensor(_) => dt::INT8,
        Value::UInt8Tensor(_) => dt::UINT8,
        _ => 0,
    }
}

pub fn shape_of(v: &Value) -> Vec<usize> {
    match v {
        Value::FloatTensor(t) => t.shape().to_vec(),
        Value::Int32Tensor(t) => t.shape().to_vec(),
        Value::Int8Tensor(t) => t.shape().to_vec(),
        Value::UInt8Tensor(t) => t.shape().to_vec(),
        _ => vec![],
    }
}

/// A single-operator description shared by the adapters of `op_cases` and `opcat`.
pub struct OpSpec {
    pub label: String,
    pub op_type: String,
    pub domain: String,
    pub attrs: Vec<(String, Attr)>,
    pub inputs: Vec<Option<Value>>,
    pub n_out: usize,
    pub skip_outs: Vec<usize>,
}

/// Build a single-node model. Every tensor input independently becomes a graph input, an
/// initializer (random storage dtype/encoding) or the output of a `Constant` node
/// (`const_pct` percent of the inputs are made constants).
pub fn single_op_model(rng: &mut Rng, s: &OpSpec, const_pct: u64, tags: &mut Vec<String>) -> E2e {
    let mut g = Graph::default();
    let mut feeds = vec![];
    let mut in_names = vec![];
    for (i, inp) in s.inputs.iter().enumerate() {
        let Some(v) = inp else {
            in_names.push(String::new());
            continue;
        };
        let name = format!("i{i}");
        in_names.push(name.clone());
        let is_seq = matches!(v, Value::Sequence(_));
        if !is_seq && rng.below(100) < const_pct {
            if let Some((t, tag)) = value_to_initializer(rng, &name, v) {
                tags.push(tag);
                if rng.chance(1, 4) {
                    // Constant node with a `value` tensor attribute
                    let mut t = t;
                    t.name = String::new();
                    g.nodes.push(Node::new("Constant", &format!("const_{name}"), &[], &[&name]).attr("value", Attr::Tensor(t)));
                    tags.push("via:ConstantNode".into());
                } else {
                    if rng.chance(1, 5) {
                        // an initializer may also be listed as a graph input (IR < 4 style)
                        let d: Vec<i64> = t.dims.clone();
                        g.inputs.push(ValueInfo::fixed(&name, t.dtype, &d));
                        tags.push("via:InitializerAlsoInput".into());
                    }
                    g.initializers.push(t);
                }
                continue;
            }
        }
        if is_seq {
            g.inputs.push(ValueInfo::new(&name, 0, None));
        } else {
            let sh = shape_of(v);
            let shape = match rng.below(6) {
                0 => None,
                1 if !sh.is_empty() => Some(
                    sh.iter().enumerate().map(|(k, &d)| if k == 0 { Dim::Sym("batch".into()) } else { Dim::Fixed(d as i64) }).collect(),
                ),
                _ => Some(sh.iter().map(|&d| Dim::Fixed(d as i64)).collect()),
            };
            g.inputs.push(ValueInfo::new(&name, onnx_dtype_of(v), shape));
        }
        feeds.push((name, v.clone()));
    }
    let out_names: Vec<String> =
        (0..s.n_out).map(|i| if s.skip_outs.contains(&i) { String::new() } else { format!("o{i}") }).collect();
    let mut node = Node::new(
        &s.op_type,
        "op",
        &in_names.iter().map(|x| x.as_str()).collect::<Vec<_>>(),
        &out_names.iter().map(|x| x.as_str()).collect::<Vec<_>>(),
    );
    if !s.domain.is_empty() {
        node = node.domain(&s.domain);
    }
    for (k, a) in &s.attrs {
        node = node.attr(k, a.clone());
    }
    g.nodes.push(node);
    g.outputs = out_names.iter().filter(|n| !n.is_empty()).map(|n| ValueInfo::new(n, 0, None)).collect();
    let mut e = E2e::new(&s.label, g);
    e.feeds = feeds;
    e
}

// ------------------------------------------------------------------------------------------
// Statistics over what went through the converter
// ------------------------------------------------------------------------------------------

#[derive(Default)]
pub struct Coverage {
    pub ops_converted: BTreeSet<String>,
    pub ops_refused: BTreeSet<String>,
    pub attr_kinds: BTreeSet<String>,
    pub attr_names: BTreeSet<String>,
    pub const_dtypes: BTreeSet<String>,
    pub models_converted: u64,
    pub models_refused: u64,
}

fn dtype_name(d: i32) -> &'static str {
    match d {
        1 => "float",
        2 => "uint8",
        3 => "int8",
        4 => "uint16",
        5 => "int16",
        6 => "int32",
        7 => "int64",
        9 => "bool",
        10 => "float16",
        11 => "double",
        12 => "uint32",
        13 => "uint64",
        _ => "other",
    }
}

fn tensor_tag(t: &OT) -> String {
    let e = match &t.data {
        TensorData::Raw(_) => "raw",
        TensorData::External(..) => "external",
        _ => "typed",
    };
    format!("{}:{}", dtype_name(t.dtype), e)
}

pub fn walk_graph(g: &Graph, ops: &mut BTreeSet<String>, kinds: &mut BTreeSet<String>, names: &mut BTreeSet<String>, consts: &mut BTreeSet<String>) {
    for t in &g.initializers {
        consts.insert(tensor_tag(t));
    }
    for n in &g.nodes {
        ops.insert(if n.domain.is_empty() { n.op_type.clone() } else { format!("{}:{}", n.domain, n.op_type) });
        for (k, a) in &n.attrs {
            names.insert(format!("{}.{}", n.op_type, k));
            kinds.insert(
                match a {
                    Attr::Int(_) => "int",
                    Attr::Float(_) => "float",
                    Attr::Str(_) => "string",
                    Attr::Ints(_) => "ints",
                    Attr::Floats(_) => "floats",
                    Attr::Strs(_) => "strings",
                    Attr::Tensor(_) => "tensor",
                    Attr::Graph(_) => "graph",
                }
                .to_string(),
            );
            match a {
                Attr::Tensor(t) => {
                    consts.insert(tensor_tag(t));
                }
                Attr::Graph(sub) => walk_graph(sub, ops, kinds, names, consts),
                _ => {}
            }
        }
    }
}

impl Coverage {
    pub fn record(&mut self, e: &E2e, converted: bool) {
        let mut ops = BTreeSet::new();
        let (mut k, mut n, mut c) = (BTreeSet::new(), BTreeSet::new(), BTreeSet::new());
        walk_graph(&e.graph, &mut ops, &mut k, &mut n, &mut c);
        if converted {
            self.models_converted += 1;
            self.ops_converted.extend(ops);
            self.attr_kinds.extend(k);
            self.attr_names.extend(n);
            self.const_dtypes.extend(c);
        } else {
            self.models_refused += 1;
            self.ops_refused.extend(ops);
        }
    }
}

// ------------------------------------------------------------------------------------------
// Running the converter
// ------------------------------------------------------------------------------------------

pub fn verif_dir() -> String {
    std::env::var("VERIF_DIR").unwrap_or_else(|_| "/verif".into())
}
pub fn repo_dir() -> String {
    std::env::var("VERIF_REPO").unwrap_or_else(|_| "/repo".into())
}

pub struct Converted {
    pub onnx_path: PathBuf,
    pub rten_path: PathBuf,
    /// `ok` | `fail <Class>: msg` | `exit n`
    pub status: String,
    pub stderr: String,
}

/// Write every model under `dir`, convert them with `jobs` parallel Python processes.
pub fn convert_all(dir: &Path, models: &[E2e], jobs: usize) -> Vec<Converted> {
    std::fs::create_dir_all(dir).unwrap();
    let mut paths = vec![];
    for (i, m) in models.iter().enumerate() {
        let mdir = if m.ext.is_empty() { dir.to_path_buf() } else { dir.join(format!("x{i}")) };
        std::fs::create_dir_all(&mdir).unwrap();
        for (name, data) in &m.ext {
            std::fs::write(mdir.join(name), data).unwrap();
        }
        let p = mdir.join(format!("m{i}.onnx"));
        std::fs::write(&p, enc_model(&m.graph, m.opset)).unwrap();
        paths.push((p.clone(), p.with_extension("rten"), m.extra_args.clone()));
    }
    let script = format!("{}/harness/pyshim/run_convert.py", verif_dir());
    let jobs = jobs.max(1).min(models.len().max(1));
    let chunk = (models.len() + jobs - 1) / jobs.max(1);
    let mut lists = vec![];
    for (j, c) in paths.chunks(chunk.max(1)).enumerate() {
        let lp = dir.join(format!("batch{j}.txt"));
        let body: String = c.iter().map(|(a, b, x)| format!("{}\t{}\t{}\n", a.display(), b.display(), x)).collect();
        std::fs::write(&lp, body).unwrap();
        lists.push((lp, c.len()));
    }
    let children: Vec<_> = lists
        .iter()
        .map(|(lp, _)| {
            std::process::Command::new("python3-vt")
                .arg(&script)
                .arg("--repo")
                .arg(repo_dir())
                .arg("--batch")
                .arg(lp)
                .stdout(std::process::Stdio::null())
                .stderr(std::process::Stdio::piped())
                .spawn()
                .expect("cannot start python3-vt (needed to run rten-convert)")
        })
        .collect();
    let mut results = vec![];
    for (child, (lp, n)) in children.into_iter().zip(&lists) {
        let o = child.wait_with_output().unwrap();
        let rp = PathBuf::from(format!("{}.result", lp.display()));
        let body = std::fs::read_to_string(&rp).unwrap_or_default();
        let lines: Vec<&str> = body.lines().collect();
        if !o.status.success() || lines.len() != *n {
            panic!(
                "run_convert.py failed ({}), {} of {} results: {}",
                o.status,
                lines.len(),
                n,
                String::from_utf8_lossy(&o.stderr).chars().rev().take(600).collect::<String>().chars().rev().collect::<String>()
            );
        }
        for l in lines {
            let (st, err) = l.split_once('\t').unwrap_or((l, ""));
            results.push((st.to_string(), err.to_string()));
        }
    }
    paths
        .into_iter()
        .zip(results)
        .map(|((a, b, _), (status, stderr))| Converted { onnx_path: a, rten_path: b, status, stderr })
        .collect()
}

// ------------------------------------------------------------------------------------------
// Loading both files, running, comparing
// ------------------------------------------------------------------------------------------

/// Canonical content of a value: dtype, shape, element bits (NaN -> one pattern).
#[derive(PartialEq, Clone, Debug)]
pub struct Canon {
    pub dtype: &'static str,
    pub shape: Vec<usize>,
    pub bits: Vec<u32>,
    pub items: Vec<Canon>,
}

pub fn canon(v: &Value) -> Canon {
    let (dtype, bits, items): (&'static str, Vec<u32>, Vec<Canon>) = match v {
        Value::FloatTensor(t) => ("f32", t.iter().map(|x| if x.is_nan() { 0x7fc0_0000 } else { x.to_bits() }).collect(), vec![]),
        Value::Int32Tensor(t) => ("i32", t.iter().map(|x| *x as u32).collect(), vec![]),
        Value::Int8Tensor(t) => ("i8", t.iter().map(|x| *x as u8 as u32).collect(), vec![]),
        Value::UInt8Tensor(t) => ("u8", t.iter().map(|x| *x as u32).collect(), vec![]),
        Value::Sequence(s) => ("seq", vec![], s.iter().map(|v| canon(&v.to_owned())).collect()),
        _ => ("other", vec![], vec![]),
    };
    Canon { dtype, shape: shape_of(v), bits, items }
}

pub fn canon_diff(a: &[Canon], b: &[Canon]) -> Option<String> {
    if a.len() != b.len() {
        return Some(format!("output count {} vs {}", a.len(), b.len()));
    }
    for (k, (x, y)) in a.iter().zip(b).enumerate() {
        if x.dtype != y.dtype {
            return Some(format!("out{k} dtype {} vs {}", x.dtype, y.dtype));
        }
        if x.shape != y.shape {
            return Some(format!("out{k} shape {:?} vs {:?}", x.shape, y.shape));
        }
        if let Some(i) = (0..x.bits.len().min(y.bits.len())).find(|&i| x.bits[i] != y.bits[i]) {
            return Some(format!("out{k} shape {:?} elem {i}: bits {:#x} vs {:#x}", x.shape, x.bits[i], y.bits[i]));
        }
        if x.bits.len() != y.bits.len() {
            return Some(format!("out{k} len {} vs {}", x.bits.len(), y.bits.len()));
        }
        if let Some(d) = canon_diff(&x.items, &y.items) {
            return Some(format!("out{k} seq: {d}"));
        }
    }
    None
}

pub fn load_file(path: &Path, optimize: bool) -> Result<Model, String> {
    let p = path.to_path_buf();
    match hcommon::catch(move || {
        let mut o = ModelOptions::with_all_ops();
        o.enable_optimization(optimize);
        o.load_file(&p)
    }) {
        Ok(Ok(m)) => Ok(m),
        Ok(Err(e)) => Err(format!("load: {e}").replace(['\n', '\t'], " ")),
        Err(p) => Err(format!("panic in load: {p}")),
    }
}

pub fn run_model(m: &Model, feeds: &[(String, Value)], outs: &[String]) -> Result<Vec<Canon>, String> {
    let r = hcommon::catch(|| -> Result<Vec<Canon>, String> {
        let mut ins = vec![];
        for (n, v) in feeds {
            let id = m.node_id(n).map_err(|e| format!("input {n}: {e}"))?;
            ins.push((id, v.clone().into()));
        }
        let ids: Vec<_> = outs.iter().map(|n| m.node_id(n).map_err(|e| format!("output {n}: {e}"))).collect::<Result<_, _>>()?;
        let r = m.run(ins, &ids, None).map_err(|e| format!("run: {e}"))?;
        Ok(r.iter().map(canon).collect())
    });
    match r {
        Ok(r) => r.map_err(|e| e.replace(['\n', '\t'], " ")),
        Err(p) => Err(format!("panic in run: {p}")),
    }
}

/// Names of the model's declared inputs / outputs in order.
pub fn io_names(m: &Model) -> (Vec<String>, Vec<String>) {
    let nm = |ids: &[rten::NodeId]| {
        ids.iter().map(|&id| m.node_info(id).and_then(|i| i.name().map(|s| s.to_string())).unwrap_or_default()).collect::<Vec<_>>()
    };
    (nm(m.input_ids()), nm(m.output_ids()))
}

pub fn hex(b: &[u8]) -> String {
    let mut s = String::with_capacity(b.len() * 2);
    for x in b {
        s.push_str(&format!("{x:02x}"));
    }
    s
}

/// Outcome of comparing one converted model.
pub struct Verdict {
    /// canonical answer for impl.txt
    pub answer: String,
    pub fail: Option<String>,
    pub buckets: Vec<String>,
    /// outputs of the ONNX path with optimizations off (for the constants family)
    pub onnx_out: Option<Vec<Canon>>,
}

fn err_class(e: &str) -> String {
    // first two words are enough to tell load/run/panic and the error kind apart
    e.split_whitespace().take(2).collect::<Vec<_>>().join("_")
}

fn find_node<'a>(g: &'a Graph, name: &str) -> Option<&'a Node> {
    for n in &g.nodes {
        if n.name == name {
            return Some(n);
        }
        for (_, a) in &n.attrs {
            if let Attr::Graph(sub) = a {
                if let Some(f) = find_node(sub, name) {
                    return Some(f);
                }
            }
        }
    }
    None
}

fn count_conv_without_ks(g: &Graph) -> usize {
    let mut k = 0;
    for n in &g.nodes {
        if matches!(n.op_type.as_str(), "Conv" | "ConvInteger" | "ConvTranspose") && !n.attrs.iter().any(|(a, _)| a == "kernel_shape") {
            k += 1;
        }
        for (_, a) in &n.attrs {
            if let Attr::Graph(sub) = a {
                k += count_conv_without_ks(sub);
            }
        }
    }
    k
}

/// ` [failing node: op_type=Conv kernel_shape=absent attrs=strides,pads]` for the operator a
/// run error names, looked up in the ONNX graph the harness generated.
pub fn node_note(g: &Graph, err: &str) -> String {
    let Some(rest) = err.split("operator \"").nth(1) else { return String::new() };
    let name = rest.split('"').next().unwrap_or("");
    match find_node(g, name) {
        Some(n) => {
            let has = |k: &str| if n.attrs.iter().any(|(a, _)| a == k) { "present" } else { "absent" };
            let mut names: Vec<&str> = n.attrs.iter().map(|(a, _)| a.as_str()).collect();
            names.sort();
            format!(
                " [failing node: op_type={} kernel_shape={} attrs={}; conv-family nodes without kernel_shape in graph: {}]",
                n.op_type,
                has("kernel_shape"),
                if names.is_empty() { "-".to_string() } else { names.join(",") },
                count_conv_without_ks(g)
            )
        }
        None => " [failing node: not in the generated graph]".to_string(),
    }
}

pub fn compare(e: &E2e, c: &Converted) -> Verdict {
    let mut buckets = vec![];
    let outs = e.out_names();
    if c.status != "ok" {
        let class = if c.stderr.contains("Unsupported operator") {
            "convert_refused:unsupported_operator".to_string()
        } else {
            format!("convert_refused:{}", c.status.split(':').next().unwrap_or("?").replace(' ', "_"))
        };
        buckets.push(class.clone());
        // still record what the ONNX path does (reference only)
        let onnx_out = load_file(&c.onnx_path, false).ok().and_then(|m| run_model(&m, &e.feeds, &outs).ok());
        return Verdict { answer: class, fail: None, buckets, onnx_out };
    }
    let mut fails: Vec<String> = vec![];
    let mut answer = String::new();
    let mut onnx_out = None;
    for optimize in [false, true] {
        let tag = if optimize { "opt" } else { "noopt" };
        let mo = load_file(&c.onnx_path, optimize);
        let mr = load_file(&c.rten_path, optimize);
        let (mo, mr) = match (mo, mr) {
            (Ok(a), Ok(b)) => (a, b),
            (Err(eo), Err(er)) => {
                buckets.push(format!("{tag}:both_load_err"));
                answer.push_str(&format!("{tag}=both-load-err({}/{}) ", err_class(&eo), err_class(&er)));
                continue;
            }
            (Ok(_), Err(er)) => {
                buckets.push(format!("{tag}:rten_load_err"));
                answer.push_str(&format!("{tag}=rten-load-err "));
                fails.push(format!("{tag}: converter succeeded and the ONNX file loads, but the .rten file does not load: {er}"));
                continue;
            }
            (Err(eo), Ok(_)) => {
                // no reference behaviour: the property compares with loading the ONNX file directly
                buckets.push(format!("{tag}:onnx_load_err_rten_ok"));
                answer.push_str(&format!("{tag}=onnx-load-err({}) ", err_class(&eo)));
                continue;
            }
        };
        let (io_o, io_r) = (io_names(&mo), io_names(&mr));
        if io_o != io_r {
            fails.push(format!("{tag}: model inputs/outputs differ: onnx {:?} vs rten {:?}", io_o, io_r));
        }
        let ro = run_model(&mo, &e.feeds, &outs);
        let rr = run_model(&mr, &e.feeds, &outs);
        match (&ro, &rr) {
            (Ok(a), Ok(b)) => match canon_diff(a, b) {
                None => {
                    buckets.push(format!("{tag}:same_outputs"));
                    answer.push_str(&format!("{tag}=same "));
                }
                Some(d) => {
                    buckets.push(format!("{tag}:DIFFERENT_outputs"));
                    answer.push_str(&format!("{tag}=diff "));
                    fails.push(format!("{tag}: outputs differ (onnx vs rten): {d}"));
                }
            },
            (Err(a), Err(b)) => {
                buckets.push(format!("{tag}:both_run_err"));
                if a != b {
                    buckets.push(format!("{tag}:both_run_err_text_differs"));
                }
                answer.push_str(&format!("{tag}=both-run-err "));
            }
            (Ok(_), Err(b)) => {
                buckets.push(format!("{tag}:rten_run_err"));
                answer.push_str(&format!("{tag}=rten-run-err "));
                fails.push(format!("{tag}: ONNX file runs but the converted file fails: {b}{}", node_note(&e.graph, b)));
            }
            (Err(a), Ok(_)) => {
                buckets.push(format!("{tag}:onnx_run_err"));
                answer.push_str(&format!("{tag}=onnx-run-err "));
                fails.push(format!("{tag}: converted file runs but the ONNX file fails: {a}{}", node_note(&e.graph, a)));
            }
        }
        if !optimize {
            onnx_out = ro.ok();
        }
    }
    // every failure of the case is reported (both optimization modes), so that a known finding
    // about one of them cannot hide a different one
    let fail = if fails.is_empty() { None } else { Some(fails.join(" ;; ")) };
    Verdict { answer: answer.trim().to_string(), fail, buckets, onnx_out }
}

// ------------------------------------------------------------------------------------------
// Families
// ------------------------------------------------------------------------------------------

/// (1) every single-operator case of the two shared catalogues (`op_cases`, `opcat`), inputs
/// randomly turned into constants of every storage dtype.
pub fn family_catalogue(rng: &mut Rng, rounds: usize, tags: &mut Vec<String>) -> Vec<E2e> {
    let mut v = vec![];
    for r in 0..rounds {
        for c in crate::op_cases::gen_cases(rng) {
            let spec = OpSpec {
                label: format!("cat/{}", c.op_type),
                op_type: c.op_type.clone(),
                domain: c.domain.clone(),
                attrs: c.attrs.clone(),
                inputs: c.inputs.iter().map(|i| i.as_ref().map(|i| i.value())).collect(),
                n_out: c.n_out,
                skip_outs: c.skip_outs.clone(),
            };
            let pct = [0, 50, 100][r % 3];
            v.push(single_op_model(rng, &spec, pct, tags));
        }
        for name in crate::opcat::all_names() {
            let Some(c) = crate::opcat::gen(name, rng) else { continue };
            let spec = OpSpec {
                label: format!("opcat/{}", c.onnx),
                op_type: c.onnx.to_string(),
                domain: c.domain.to_string(),
                attrs: c.attrs.clone(),
                inputs: c.inputs.clone(),
                n_out: c.n_out,
                skip_outs: vec![],
            };
            // data inputs stay run-time inputs half of the time, parameter inputs become constants
            let pct = [30, 70, 0][r % 3];
            v.push(single_op_model(rng, &spec, pct, tags));
        }
    }
    v
}

fn fin_graph(label: &str, mut g: Graph, outs: &[&str], feeds: Vec<(String, Value)>, opset: i64) -> E2e {
    g.outputs = outs.iter().map(|n| ValueInfo::new(n, 0, None)).collect();
    let mut e = E2e::new(label, g);
    e.feeds = feeds;
    e.opset = opset;
    e
}

fn fvec(vals: &[f32], shape: &[usize]) -> Value {
    Tensor::<f32>::from_data(shape, vals.to_vec()).into()
}
fn ivec32(vals: &[i32], shape: &[usize]) -> Value {
    Tensor::<i32>::from_data(shape, vals.to_vec()).into()
}

pub fn big_i64(rng: &mut Rng) -> i64 {
    match rng.below(10) {
        0 => i64::MAX - rng.below(3) as i64,
        1 => i64::MIN + rng.below(3) as i64,
        2 => i32::MAX as i64 + rng.range_i64(-2, 2),
        3 => i32::MIN as i64 + rng.range_i64(-2, 2),
        4 => rng.range_i64(-5, 5),
        5 => (rng.next_u64() >> rng.below(40)) as i64,
        6 => -((rng.next_u64() >> (1 + rng.below(40))) as i64),
        7 => (1i64 << 32) + rng.range_i64(-3, 3),
        8 => -(1i64 << 32) + rng.range_i64(-3, 3),
        _ => rng.next_u64() as i64,
    }
}

/// Interesting f64 bit patterns: halfway cases between adjacent f32 values, the overflow
/// boundary 2^128 - 2^103, f32-subnormal range, underflow to zero, NaN payloads, infinities.
pub fn tricky_f64(rng: &mut Rng) -> u64 {
    let sign = (rng.below(2)) << 63;
    let from_f32_mid = |rng: &mut Rng, bits: u32| -> u64 {
        // x = f32 value, plus a fraction of the gap to the next f32 (in f64 mantissa bits: 29 extra)
        let x = f32::from_bits(bits & 0x7fff_ffff) as f64;
        let b = x.to_bits();
        let extra: u64 = match rng.below(6) {
            0 => 1 << 28,                          // exactly halfway
            1 => (1 << 28) - 1,                    // just below halfway
            2 => (1 << 28) + 1,                    // just above halfway
            3 => 0,                                // exact
            4 => rng.below(1 << 29),
            _ => (1 << 29) - 1,
        };
        b + extra
    };
    let mag: u64 = match rng.below(12) {
        0 => {
            let b = rng.next_u64() as u32 & 0x7f7f_ffff;
            from_f32_mid(rng, b)
        }
        1 => from_f32_mid(rng, 0x7f7f_ffff),                      // around f32::MAX -> overflow boundary
        2 => (2f64.powi(128) - 2f64.powi(103)).to_bits() - 1 + rng.below(3), // exactly at the boundary +-1ulp
        3 => {
            // inside the f32 subnormal range: 2^-149 * (k + frac)
            let k = rng.below(1 << 23) as f64 + [0.0, 0.5, 0.25, 0.75, 0.5 - 1e-9, 0.5 + 1e-9][rng.usize_below(6)];
            (k * 2f64.powi(-149)).to_bits()
        }
        4 => (2f64.powi(-150)).to_bits() - 1 + rng.below(3),       // half of the smallest subnormal: tie to zero
        5 => (2f64.powi(-126)).to_bits() - 2 + rng.below(4),       // smallest normal boundary
        6 => 0x7ff0_0000_0000_0000,                                 // inf
        7 => 0x7ff0_0000_0000_0000 | (1 + rng.below((1 << 52) - 1)), // NaN (quiet or signalling, any payload)
        8 => rng.below(1 << 52),                                    // f64 subnormals -> 0
        9 => 0,
        10 => (rng.next_u64() >> 1) & 0x7fef_ffff_ffff_ffff,        // any finite
        _ => {
            // normal f32 range with random low bits
            let e = 1023 - 126 + rng.below(254);
            (e << 52) | rng.below(1 << 52)
        }
    };
    sign | mag
}

fn identity_model(label: &str, t: OT, via_constant_node: bool) -> E2e {
    let mut g = Graph::default();
    if via_constant_node {
        let mut t = t;
        t.name = String::new();
        g.nodes.push(Node::new("Constant", "cn", &[], &["c"]).attr("value", Attr::Tensor(t)));
    } else {
        g.initializers.push(t);
    }
    g.nodes.push(Node::new("Identity", "id", &["c"], &["y"]));
    fin_graph(label, g, &["y"], vec![], 21)
}

/// (2) constants of every dtype the property names, as `Identity(c)` models.  Well-formed ones
/// carry a `cst` request answered by the Lean model (expected narrowed values).
pub fn family_constants(rng: &mut Rng, n: usize, big: usize) -> Vec<E2e> {
    let mut v = vec![];
    for k in 0..n {
        let len = if k < big { 2000 + rng.usize_below(3000) } else { [0, 1, 1, 2, 3, 5, 16, 17, 40][rng.usize_below(9)] };
        let dims: Vec<i64> = match (len, rng.below(4)) {
            (1, 0) => vec![],
            (l, 1) if l % 2 == 0 && l > 0 => vec![2, (l / 2) as i64],
            (0, 2) => vec![2, 0, 3],
            (l, _) => vec![l as i64],
        };
        let via_node = rng.chance(1, 5);
        let kind = rng.below(11);
        let (t, req): (OT, String) = match kind {
            0 | 1 => {
                let vals: Vec<i64> = (0..len).map(|_| big_i64(rng)).collect();
                let t = if kind == 0 {
                    raw_tensor("c", dt::INT64, &dims, le_bytes(&vals, i64::to_le_bytes))
                } else {
                    OT { name: "c".into(), dtype: dt::INT64, dims: dims.clone(), data: TensorData::Int64s(vals.clone()) }
                };
                (t, format!("cst i64 {}", hcommon::join(vals.iter(), ",")))
            }
            2 | 3 => {
                let bits: Vec<u64> = (0..len).map(|_| tricky_f64(rng)).collect();
                let vals: Vec<f64> = bits.iter().map(|&b| f64::from_bits(b)).collect();
                let t = if kind == 2 {
                    raw_tensor("c", dt::DOUBLE, &dims, le_bytes(&bits, u64::to_le_bytes))
                } else {
                    OT { name: "c".into(), dtype: dt::DOUBLE, dims: dims.clone(), data: TensorData::Doubles(vals) }
                };
                (t, format!("cst f64 {}", hcommon::join(bits.iter(), ",")))
            }
            4 => {
                let bits: Vec<u16> = (0..len)
                    .map(|_| match rng.below(6) {
                        0 => rng.below(0x400) as u16 | ((rng.below(2) as u16) << 15),          // subnormals / zero
                        1 => 0x7c00 | rng.below(0x400) as u16 | ((rng.below(2) as u16) << 15), // inf / NaN
                        _ => rng.next_u64() as u16,
                    })
                    .collect();
                (raw_tensor("c", dt::FLOAT16, &dims, le_bytes(&bits, u16::to_le_bytes)), format!("cst f16 {}", hcommon::join(bits.iter(), ",")))
            }
            5 => {
                // f16 bit patterns in int32_data (only the range numpy accepts for uint16)
                let bits: Vec<i32> = (0..len).map(|_| (rng.next_u64() as u16) as i32).collect();
                (typed_i32("c", dt::FLOAT16, &dims, bits.clone()), format!("cst f16 {}", hcommon::join(bits.iter(), ",")))
            }
            6 => {
                let bytes: Vec<u8> = (0..len).map(|_| *rng.pick(&[0u8, 1, 1, 0, 2, 255, 128, 3])).collect();
                (raw_tensor("c", dt::BOOL, &dims, bytes.clone()), format!("cst bool {}", hcommon::join(bytes.iter(), ",")))
            }
            7 => {
                let vals: Vec<i32> = (0..len).map(|_| *rng.pick(&[0, 1, 1, 0, 1, 0])).collect();
                (typed_i32("c", dt::BOOL, &dims, vals.clone()), format!("cst bool {}", hcommon::join(vals.iter(), ",")))
            }
            8 => {
                // uint8 / int8 in int32_data
                let signed = rng.chance(1, 2);
                let vals: Vec<i32> = (0..len).map(|_| if signed { rng.range_i64(-128, 127) } else { rng.range_i64(0, 255) } as i32).collect();
                let (d, nm) = if signed { (dt::INT8, "i8t") } else { (dt::UINT8, "u8t") };
                (typed_i32("c", d, &dims, vals.clone()), format!("cst {nm} {}", hcommon::join(vals.iter(), ",")))
            }
            9 => {
                let vals: Vec<i32> = (0..len).map(|_| rng.next_u64() as i32 >> rng.below(32)).collect();
                let t = if rng.chance(1, 2) { raw_tensor("c", dt::INT32, &dims, le_bytes(&vals, i32::to_le_bytes)) } else { typed_i32("c", dt::INT32, &dims, vals.clone()) };
                (t, format!("cst i32 {}", hcommon::join(vals.iter(), ",")))
            }
            _ => {
                let bits: Vec<u32> = (0..len).map(|_| rng.next_u64() as u32).collect();
                let t = if rng.chance(1, 2) {
                    raw_tensor("c", dt::FLOAT, &dims, le_bytes(&bits, u32::to_le_bytes))
                } else {
                    OT { name: "c".into(), dtype: dt::FLOAT, dims: dims.clone(), data: TensorData::Floats(bits.iter().map(|&b| f32::from_bits(b)).collect()) }
                };
                (t, format!("cst f32 {}", hcommon::join(bits.iter(), ",")))
            }
        };
        let enc_tag = tensor_tag(&t);
        let mut e = identity_model(&format!("const/{enc_tag}{}", if via_node { "/node" } else { "" }), t, via_node);
        if len > 0 {
            e.cst_req = Some(req);
        }
        v.push(e);
    }
    // malformed / unusual constants: only the agreement of the two paths is checked
    for _ in 0..n / 8 + 4 {
        let t = match rng.below(8) {
            0 => raw_tensor("c", dt::INT64, &[2], vec![1, 0, 0, 0, 0, 0, 0, 0, 2, 0, 0, 0]), // truncated raw
            1 => raw_tensor("c", dt::FLOAT, &[3], le_bytes(&[1.0f32, 2.0], f32::to_le_bytes)), // dims > data
            2 => raw_tensor("c", dt::FLOAT16, &[1], vec![0, 60, 7]),                          // odd length
            3 => typed_i32("c", 5, &[2], vec![-3, 300]),                                        // INT16
            4 => typed_i32("c", 4, &[2], vec![3, 60000]),                                       // UINT16
            5 => typed_i32("c", dt::UINT8, &[2], vec![-1, 256 + rng.below(300) as i32]),       // out of range for u8
            6 => typed_i32("c", dt::FLOAT16, &[2], vec![-1, 70000]),                           // out of range for u16
            _ => raw_tensor("c", dt::DOUBLE, &[], vec![]),                                      // 0-d without data
        };
        let tag = tensor_tag(&t);
        v.push(identity_model(&format!("const-odd/{tag}"), t, rng.chance(1, 4)));
    }
    v
}

/// (3) `Constant` operator with the scalar / list attributes, incl. integers beyond i32.
pub fn family_constant_op(rng: &mut Rng, n: usize) -> Vec<E2e> {
    let mut v = vec![];
    for _ in 0..n {
        let (name, a) = match rng.below(4) {
            0 => ("value_int", Attr::Int(big_i64(rng))),
            1 => ("value_ints", Attr::Ints((0..rng.usize_below(5)).map(|_| big_i64(rng)).collect())),
            2 => ("value_float", Attr::Float(f32::from_bits(rng.next_u64() as u32))),
            _ => ("value_floats", Attr::Floats((0..rng.usize_below(5)).map(|_| f32::from_bits(rng.next_u64() as u32)).collect())),
        };
        let mut g = Graph::default();
        g.nodes.push(Node::new("Constant", "cn", &[], &["c"]).attr(name, a));
        g.nodes.push(Node::new("Identity", "id", &["c"], &["y"]));
        v.push(fin_graph(&format!("constop/{name}"), g, &["y"], vec![], 21));
    }
    v
}

/// (4) attributes of old opsets that both loaders turn into constant inputs.
pub fn family_legacy_attrs(rng: &mut Rng, n: usize) -> Vec<E2e> {
    let mut v = vec![];
    for _ in 0..n {
        let x: Vec<f32> = (0..24).map(|i| i as f32 * 0.5 - 3.0).collect();
        let xv = fvec(&x, &[2, 3, 4]);
        let mut g = Graph::default();
        g.inputs.push(ValueInfo::fixed("x", dt::FLOAT, &[2, 3, 4]));
        let big_end = |rng: &mut Rng| *rng.pick(&[i64::MAX, i32::MAX as i64, 1 << 40, 3, 100, (1i64 << 32) + 2, i64::MAX - 1]);
        let big_start = |rng: &mut Rng| *rng.pick(&[0i64, 1, -1, -2, i64::MIN, -(1i64 << 40), i64::MIN + 1]);
        let (label, node, opset, nout): (&str, Node, i64, usize) = match rng.below(11) {
            0 => {
                let naxes = 1 + rng.usize_below(2);
                let starts: Vec<i64> = (0..naxes).map(|_| big_start(rng)).collect();
                let ends: Vec<i64> = (0..naxes).map(|_| big_end(rng)).collect();
                let mut nd = Node::new("Slice", "op", &["x"], &["y"]).attr("starts", Attr::Ints(starts)).attr("ends", Attr::Ints(ends));
                if rng.chance(2, 3) {
                    nd = nd.attr("axes", Attr::Ints(if naxes == 1 { vec![rng.range_i64(-3, 2)] } else { vec![1, 2] }));
                }
                ("legacy/Slice", nd, 9, 1)
            }
            1 => ("legacy/Squeeze", Node::new("Squeeze", "op", &["x1"], &["y"]).attr("axes", Attr::Ints(vec![*rng.pick(&[0i64, -3])])), 11, 1),
            2 => ("legacy/Unsqueeze", Node::new("Unsqueeze", "op", &["x"], &["y"]).attr("axes", Attr::Ints(vec![rng.range_i64(0, 3)])), 11, 1),
            3 => ("legacy/Split", Node::new("Split", "op", &["x"], &["y", "y2"]).attr("axis", Attr::Int(2)).attr("split", Attr::Ints(vec![1, 3])), 11, 2),
            4 => {
                let mut nd = Node::new("Clip", "op", &["x"], &["y"]);
                if rng.chance(2, 3) {
                    nd = nd.attr("min", Attr::Float(-1.25));
                }
                if rng.chance(2, 3) {
                    nd = nd.attr("max", Attr::Float(*rng.pick(&[0.5f32, 1e30, f32::INFINITY])));
                }
                ("legacy/Clip", nd, 6, 1)
            }
            5 => ("legacy/TopK", Node::new("TopK", "op", &["x"], &["y", "y2"]).attr("k", Attr::Int(rng.range_i64(1, 4))).attr("axis", Attr::Int(-1)), 1, 2),
            6 => ("legacy/Reshape", Node::new("Reshape", "op", &["x"], &["y"]).attr("shape", Attr::Ints(rng.pick(&[vec![4i64, 6], vec![-1], vec![0, -1], vec![2, 12]]).clone())), 1, 1),
            7 => ("legacy/Upsample", Node::new("Upsample", "op", &["x4"], &["y"]).attr("scales", Attr::Floats(vec![1.0, 1.0, 2.0, *rng.pick(&[1.0f32, 2.0, 1.5])])).attr("mode", Attr::Str("nearest".into())), 7, 1),
            8 => ("legacy/Dropout", Node::new("Dropout", "op", &["x"], &["y"]).attr("ratio", Attr::Float(0.25)), 7, 1),
            9 => ("legacy/Pad", Node::new("Pad", "op", &["x"], &["y"]).attr("pads", Attr::Ints(vec![0, 1, 0, 0, 0, 2])).attr("value", Attr::Float(1.5)), 2, 1),
            _ => {
                let axes = if rng.chance(1, 2) { vec![rng.range_i64(-3, 2)] } else { vec![0, 2] };
                let op = *rng.pick(&["ReduceSum", "ReduceMean", "ReduceMax", "ReduceL2"]);
                ("legacy/ReduceAxesAttr", Node::new(op, "op", &["x"], &["y"]).attr("axes", Attr::Ints(axes)).attr("keepdims", Attr::Int(rng.range_i64(0, 1))), 11, 1)
            }
        };
        let mut feeds = vec![("x".to_string(), xv)];
        if node.inputs[0] == "x1" {
            g.inputs = vec![ValueInfo::fixed("x1", dt::FLOAT, &[1, 3, 4])];
            feeds = vec![("x1".to_string(), fvec(&x[..12], &[1, 3, 4]))];
        } else if node.inputs[0] == "x4" {
            g.inputs = vec![ValueInfo::fixed("x4", dt::FLOAT, &[1, 2, 3, 4])];
            feeds = vec![("x4".to_string(), fvec(&x, &[1, 2, 3, 4]))];
        }
        g.nodes.push(node);
        let outs: Vec<&str> = if nout == 2 { vec!["y", "y2"] } else { vec!["y"] };
        v.push(fin_graph(label, g, &outs, feeds, opset));
    }
    v
}

/// (5) operators with NO attributes (defaults of both loaders) and with attribute values the
/// catalogues do not draw.
pub fn family_defaults(rng: &mut Rng, rounds: usize) -> Vec<E2e> {
    let mut v = vec![];
    let x: Vec<f32> = (0..24).map(|i| ((i * 7) % 11) as f32 * 0.5 - 2.0).collect();
    for _ in 0..rounds {
        let sh: Vec<usize> = rng.pick(&[vec![2usize, 3, 4], vec![4, 6], vec![1, 2, 3, 4], vec![24]]).clone();
        let dims: Vec<i64> = sh.iter().map(|&d| d as i64).collect();
        let r = sh.len() as i64;
        let one = |op: &str, attrs: Vec<(&str, Attr)>, nout: usize| -> (String, Node) {
            let outs: Vec<String> = (0..nout).map(|i| format!("y{i}")).collect();
            let mut nd = Node::new(op, "op", &["x"], &outs.iter().map(|s| s.as_str()).collect::<Vec<_>>());
            for (k, a) in attrs {
                nd = nd.attr(k, a);
            }
            (format!("dflt/{op}"), nd)
        };
        let ax = rng.range_i64(-r, r - 1);
        let cands: Vec<(String, Node)> = vec![
            one("ArgMax", vec![], 1),
            one("ArgMin", vec![("keepdims", Attr::Int(0))], 1),
            one("ArgMax", vec![("axis", Attr::Int(ax)), ("select_last_index", Attr::Int(0))], 1),
            one("Softmax", vec![], 1),
            one("LogSoftmax", vec![], 1),
            one("Softmax", vec![("axis", Attr::Int(ax))], 1),
            one("Flatten", vec![], 1),
            one("Elu", vec![], 1),
            one("LeakyRelu", vec![], 1),
            one("HardSigmoid", vec![], 1),
            one("HardSigmoid", vec![("alpha", Attr::Float(0.3)), ("beta", Attr::Float(0.4))], 1),
            one("Gelu", vec![], 1),
            one("Gelu", vec![("approximate", Attr::Str("tanh".into()))], 1),
            one("Gelu", vec![("approximate", Attr::Str("none".into()))], 1),
            one("LpNormalization", vec![], 1),
            one("LpNormalization", vec![("p", Attr::Int(1)), ("axis", Attr::Int(ax))], 1),
            one("ReduceSum", vec![], 1),
            one("ReduceMean", vec![("keepdims", Attr::Int(0))], 1),
            one("ReduceMax", vec![("noop_with_empty_axes", Attr::Int(1))], 1),
            one("ReduceProd", vec![("noop_with_empty_axes", Attr::Int(0))], 1),
            one("Transpose", vec![], 1),
            one("Shape", vec![], 1),
            one("Shape", vec![("start", Attr::Int(rng.range_i64(-r - 1, r + 1)))], 1),
            one("Shape", vec![("end", Attr::Int(rng.range_i64(-r - 1, r + 1)))], 1),
            one("Size", vec![], 1),
            one("Cast", vec![], 1),
            one("Cast", vec![("to", Attr::Int(*rng.pick(&[1i64, 2, 3, 6, 7, 9, 10, 11]))), ("saturate", Attr::Int(1))], 1),
            one("IsInf", vec![("detect_positive", Attr::Int(1)), ("detect_negative", Attr::Int(1))], 1),
            one("Trilu", vec![], 1),
            one("EyeLike", vec![], 1),
            one("CumSum", vec![], 1),
            one("Dropout", vec![("seed", Attr::Int(7))], 2),
            one("Mod", vec![("fmod", Attr::Int(1))], 1),
            one("DynamicQuantizeLinear", vec![], 3),
            one("TopK", vec![], 2),
            one("Split", vec![("num_outputs", Attr::Int(2)), ("axis", Attr::Int(r - 1))], 2),
            one("DepthToSpace", vec![("blocksize", Attr::Int(1))], 1),
            one("GlobalAveragePool", vec![], 1),
            one("Swish", vec![], 1),
            one("Swish", vec![("alpha", Attr::Float(1.5))], 1),
            one("Celu", vec![], 1),
            one("Selu", vec![], 1),
            one("ThresholdedRelu", vec![], 1),
            one("Softsign", vec![], 1),
            one("Mish", vec![], 1),
            one("Hardmax", vec![], 1),
            one("Shrink", vec![], 1),
            one("LRN", vec![("size", Attr::Int(3))], 1),
            one("MeanVarianceNormalization", vec![], 1),
            one("SpaceToDepth", vec![("blocksize", Attr::Int(1))], 1),
            one("BitShift", vec![("direction", Attr::Str("LEFT".into()))], 1),
            one("Det", vec![], 1),
        ];
        for (label, mut nd) in cands {
            let mut g = Graph::default();
            g.inputs.push(ValueInfo::fixed("x", dt::FLOAT, &dims));
            let mut feeds = vec![("x".to_string(), fvec(&x, &sh))];
            // operators with further required inputs
            match nd.op_type.as_str() {
                "CumSum" => {
                    g.initializers.push(OT::i64s("ax", &[], &[ax]));
                    nd.inputs.push("ax".into());
                }
                "Mod" => {
                    g.initializers.push(OT::f32s("m", &[], &[1.5]));
                    nd.inputs.push("m".into());
                }
                "TopK" => {
                    g.initializers.push(OT::i64s("k", &[1], &[1]));
                    nd.inputs.push("k".into());
                }
                "BitShift" => {
                    g.inputs = vec![ValueInfo::fixed("x", dt::UINT8, &dims)];
                    feeds = vec![("x".to_string(), Tensor::<u8>::from_data(&sh, (0..24).map(|i| i as u8).collect::<Vec<_>>()).into())];
                    g.initializers.push(OT::u8s("m", &[], &[1]));
                    nd.inputs.push("m".into());
                }
                _ => {}
            }
            let outs: Vec<String> = nd.outputs.clone();
            g.nodes.push(nd);
            v.push(fin_graph(&label, g, &outs.iter().map(|s| s.as_str()).collect::<Vec<_>>(), feeds, 21));
        }
    }
    v
}

/// (6) control flow: `If` / `Loop` with subgraphs that capture outer values and hold their own
/// (narrowed) constants.
pub fn family_subgraphs(rng: &mut Rng, n: usize) -> Vec<E2e> {
    let mut v = vec![];
    for _ in 0..n {
        let k = big_i64(rng);
        let branch = |name: &str, op: &str, cval: i64, rng: &mut Rng| -> Graph {
            let mut sg = Graph { name: name.into(), ..Default::default() };
            let c = if rng.chance(1, 2) {
                OT::i64s("kc", &[1], &[cval])
            } else {
                OT { name: "kc".into(), dtype: dt::INT64, dims: vec![1], data: TensorData::Int64s(vec![cval]) }
            };
            sg.initializers.push(c);
            // `x` is captured from the outer graph
            sg.nodes.push(Node::new(op, &format!("{name}_op"), &["x", "kc"], &[&format!("{name}_out")]));
            sg.outputs.push(ValueInfo::new(&format!("{name}_out"), dt::INT64, None));
            sg
        };
        let then_g = branch("then", "Add", k, rng);
        let else_g = branch("else", *rng.pick(&["Mul", "Sub", "Max"]), big_i64(rng), rng);
        let mut g = Graph::default();
        g.inputs.push(ValueInfo::fixed("cond", dt::BOOL, &[]));
        g.inputs.push(ValueInfo::fixed("x", dt::INT64, &[3]));
        g.nodes.push(Node::new("If", "if", &["cond"], &["y"]).attr("then_branch", Attr::Graph(then_g)).attr("else_branch", Attr::Graph(else_g)));
        let feeds = vec![
            ("cond".to_string(), ivec32(&[rng.below(2) as i32], &[])),
            ("x".to_string(), ivec32(&[1, -2, rng.range_i64(-100, 100) as i32], &[3])),
        ];
        v.push(fin_graph("subgraph/If", g, &["y"], feeds, 21));
    }
    for _ in 0..n / 2 + 1 {
        // Loop: for i in 0..trip: acc = acc + step (step captured from a body constant of any dtype)
        let trip = rng.range_i64(0, 4);
        let mut body = Graph { name: "body".into(), ..Default::default() };
        body.inputs.push(ValueInfo::fixed("i", dt::INT64, &[]));
        body.inputs.push(ValueInfo::fixed("cond_in", dt::BOOL, &[]));
        body.inputs.push(ValueInfo::fixed("acc_in", dt::FLOAT, &[2]));
        let step = [0.5f32, -1.25];
        let mut tags = vec![];
        let (st, _) = value_to_initializer(rng, "step", &fvec(&step, &[2])).unwrap();
        tags.push(0);
        body.initializers.push(st);
        body.nodes.push(Node::new("Identity", "b_c", &["cond_in"], &["cond_out"]));
        body.nodes.push(Node::new("Add", "b_add", &["acc_in", "step"], &["acc1"]));
        body.nodes.push(Node::new("Mul", "b_mul", &["acc1", "scale"], &["acc_out"])); // `scale` captured
        body.outputs.push(ValueInfo::new("cond_out", dt::BOOL, None));
        body.outputs.push(ValueInfo::new("acc_out", dt::FLOAT, None));
        let mut g = Graph::default();
        g.initializers.push(OT::i64s("trip", &[], &[trip]));
        g.initializers.push(OT::bools("cond0", &[], &[true]));
        g.inputs.push(ValueInfo::fixed("acc0", dt::FLOAT, &[2]));
        g.inputs.push(ValueInfo::fixed("scale", dt::FLOAT, &[]));
        g.nodes.push(Node::new("Loop", "loop", &["trip", "cond0", "acc0"], &["y"]).attr("body", Attr::Graph(body)));
        let feeds = vec![("acc0".to_string(), fvec(&[1.0, 2.0], &[2])), ("scale".to_string(), fvec(&[1.5], &[]))];
        v.push(fin_graph("subgraph/Loop", g, &["y"], feeds, 21));
    }
    v
}

fn gen_for_inspec(rng: &mut Rng, s: &crate::c01_templates::InSpec) -> Value {
    use crate::c01_templates::VC;
    let n: usize = s.dims.iter().product();
    match s.dtype {
        d if d == dt::FLOAT => {
            let vals: Vec<f32> = (0..n)
                .map(|_| match s.class {
                    VC::Pos => 0.25 + rng.range_i64(0, 16) as f32 / 4.0,
                    VC::Mask => rng.below(2) as f32,
                    _ => rng.range_i64(-24, 24) as f32 / 8.0,
                })
                .collect();
            fvec(&vals, &s.dims)
        }
        d if d == dt::UINT8 => Tensor::<u8>::from_data(&s.dims, (0..n).map(|_| rng.below(6) as u8).collect::<Vec<_>>()).into(),
        d if d == dt::INT8 => Tensor::<i8>::from_data(&s.dims, (0..n).map(|_| rng.range_i64(-4, 4) as i8).collect::<Vec<_>>()).into(),
        _ => {
            let vals: Vec<i32> = (0..n).map(|_| if s.class == VC::Mask { rng.below(2) as i32 } else { rng.range_i64(0, 4) as i32 }).collect();
            ivec32(&vals, &s.dims)
        }
    }
}

/// (7) multi-operator graphs: every fusion-pattern template of C01 and random graphs (these are
/// the graphs the optimizer rewrites; both files must still agree with optimizations on).
pub fn family_graphs(rng: &mut Rng, thorough: bool, n_random: usize) -> Vec<E2e> {
    let mut v = vec![];
    let mut tms = crate::c01_templates::all_templates(rng, thorough);
    for k in 0..n_random {
        tms.push(crate::c01_templates::random_graph(rng, k));
    }
    for t in tms {
        let feeds = t.ins.iter().map(|s| (s.name.clone(), gen_for_inspec(rng, s))).collect();
        let mut e = E2e::new(&format!("graph/{}", t.family), t.g.clone());
        e.opset = t.opset;
        e.feeds = feeds;
        v.push(e);
    }
    v
}

/// (8) tensors stored in an external data file next to the model.
pub fn family_external(rng: &mut Rng, n: usize) -> Vec<E2e> {
    let mut v = vec![];
    for _ in 0..n {
        let len = 1 + rng.usize_below(40);
        let pad = 8 * rng.usize_below(3);
        let (dtype, bytes): (i32, Vec<u8>) = match rng.below(3) {
            0 => (dt::FLOAT, le_bytes(&(0..len).map(|i| i as f32 * 0.25).collect::<Vec<_>>(), f32::to_le_bytes)),
            1 => (dt::INT64, le_bytes(&(0..len).map(|_| big_i64(rng)).collect::<Vec<_>>(), i64::to_le_bytes)),
            _ => (dt::DOUBLE, le_bytes(&(0..len).map(|_| tricky_f64(rng)).collect::<Vec<_>>(), u64::to_le_bytes)),
        };
        let mut file = vec![0u8; pad];
        file.extend_from_slice(&bytes);
        file.extend_from_slice(&[0xAA; 5]);
        let t = OT {
            name: "c".into(),
            dtype,
            dims: vec![len as i64],
            data: TensorData::External("w.data".into(), Some(pad as u64), Some(bytes.len() as u64)),
        };
        let mut e = identity_model(&format!("external/{}", dtype_name(dtype)), t, false);
        e.ext.push(("w.data".into(), file));
        v.push(e);
    }
    v
}

/// (9) convolutions that omit the optional `kernel_shape` (and some of strides / dilations / pads):
/// 1-D and 2-D, weights as a run-time input or as a constant.  Both loaders must then size the
/// defaults from the weights (ONNX loader: at run time; converter: from a constant weight's rank,
/// else empty lists = run-time defaults).
pub fn family_conv_no_kernel_shape(rng: &mut Rng, rounds: usize, tags: &mut Vec<String>) -> Vec<E2e> {
    let mut v = vec![];
    for _ in 0..rounds {
        for op in ["Conv", "ConvTranspose", "ConvInteger"] {
            for nd in [1usize, 2] {
                for w_const in [0u64, 100] {
                    let (c_in, c_out, k) = (3usize, 2usize, 1 + rng.usize_below(2));
                    let mut xs = vec![2, c_in];
                    let mut ws = if op == "ConvTranspose" { vec![c_in, c_out] } else { vec![c_out, c_in] };
                    for _ in 0..nd {
                        xs.push(4 + rng.usize_below(3));
                        ws.push(k);
                    }
                    let n = |s: &[usize]| s.iter().product::<usize>();
                    let (x, w): (Value, Value) = if op == "ConvInteger" {
                        (
                            Tensor::<u8>::from_data(&xs, (0..n(&xs)).map(|_| rng.below(6) as u8).collect::<Vec<_>>()).into(),
                            Tensor::<u8>::from_data(&ws, (0..n(&ws)).map(|_| rng.below(4) as u8).collect::<Vec<_>>()).into(),
                        )
                    } else {
                        (
                            fvec(&(0..n(&xs)).map(|_| rng.range_i64(-8, 8) as f32 / 4.0).collect::<Vec<_>>(), &xs),
                            fvec(&(0..n(&ws)).map(|_| rng.range_i64(-4, 4) as f32 / 2.0).collect::<Vec<_>>(), &ws),
                        )
                    };
                    let mut attrs = vec![];
                    match rng.below(4) {
                        0 => attrs.push(("strides".to_string(), Attr::Ints(vec![1 + rng.below(2) as i64; nd]))),
                        1 => attrs.push(("pads".to_string(), Attr::Ints(vec![rng.below(2) as i64; 2 * nd]))),
                        2 => attrs.push(("dilations".to_string(), Attr::Ints(vec![1; nd]))),
                        _ => {}
                    }
                    let spec = OpSpec {
                        label: format!("convnoks/{op}{nd}d"),
                        op_type: op.into(),
                        domain: String::new(),
                        attrs,
                        inputs: vec![Some(x), Some(w)],
                        n_out: 1,
                        skip_outs: vec![],
                    };
                    // only the weights are (possibly) constant
                    let mut e = single_op_model(rng, &OpSpec { inputs: vec![None, spec.inputs[1].clone()], ..clone_spec(&spec) }, w_const, tags);
                    // re-insert x as graph input 0
                    let xname = "i0".to_string();
                    e.graph.inputs.insert(0, ValueInfo::new(&xname, onnx_dtype_of(spec.inputs[0].as_ref().unwrap()), None));
                    for nd_ in e.graph.nodes.iter_mut() {
                        if nd_.name == "op" {
                            nd_.inputs[0] = xname.clone();
                        }
                    }
                    e.feeds.insert(0, (xname, spec.inputs[0].clone().unwrap()));
                    v.push(e);
                }
            }
        }
    }
    v
}

fn clone_spec(s: &OpSpec) -> OpSpec {
    OpSpec {
        label: s.label.clone(),
        op_type: s.op_type.clone(),
        domain: s.domain.clone(),
        attrs: s.attrs.clone(),
        inputs: s.inputs.clone(),
        n_out: s.n_out,
        skip_outs: s.skip_outs.clone(),
    }
}
